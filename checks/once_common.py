"""Shared machinery for C05 / C06 (thread-safe one-shot event): stimuli from TLC behaviours, log splitting,
the three trace validations (API judge, explorer conformance + ordering table, trace-level RC11)."""
import json, os, random
import vlib
from vlib import SPEC, tlc, tlc_prints, validate_trace, write_ndjson, read_ndjson

D = os.path.join(SPEC, "once")

# explorer pc label -> (operation the shim announces at its scheduling point, fence site or None)
PC_OP = {
    "set_fetch_add": "fetch_add", "set_store": "store", "drop_swap": "swap", "drop_store_bound": "store",
    "drop_store_aw": "store", "poll_load": "load", "pb_cas": "cas", "pa_cas": "cas", "pg_load": "load",
    "is_load": "load", "iv_load": "load", "fp_cas1": "cas", "fp_load": "load", "fp_cas2": "cas",
}
FENCE_PCS = {"set_aw_fence", "set_disc_fence", "drop_aw_fence", "drop_disc_fence", "pa_ok_fence", "pa_set_fence",
             "pa_disc_fence", "pg_fence", "fp_set_fence", "fp_disc_fence"}
SPIN_PCS = {"pg_load", "fp_load"}

ORD_AS_BUILT = {  # orderings when the explorer was written (used until a table has been measured)
    "set_fetch_add": "rel", "set_aw_fence": "acq", "set_store": "rel", "set_disc_fence": "acq", "drop_swap": "rlx",
    "drop_store_bound": "rel", "drop_aw_fence": "acq", "drop_store_aw": "rel", "drop_disc_fence": "acq",
    "poll_load": "acq", "pb_cas_ok": "rel", "pb_cas_fail": "acq", "pa_cas_ok": "rlx", "pa_cas_fail": "rlx",
    "pa_ok_fence": "acq", "pa_set_fence": "acq", "pa_disc_fence": "acq", "pg_load": "rlx", "pg_fence": "acq",
    "is_load": "rlx", "iv_load": "acq", "fp_cas1_ok": "acq", "fp_cas1_fail": "rlx", "fp_load": "rlx",
    "fp_cas2_ok": "rel", "fp_cas2_fail": "rlx", "fp_set_fence": "acq", "fp_disc_fence": "acq",
}


def hist_to_stimulus(hist, sid, storage, seed, table):
    """hist: [{t, pc, x}] from MC_OnceEventSyncGen. Returns a stimulus for h_once."""
    sender = None
    receiver = []
    script = []
    started = set()
    spin_pending = False   # the receiver last looped on a spin load: its next scheduling point is the spin hint
    last_r_pc = None
    for e in hist:
        t, pcl, x = e["t"], e["pc"], e["x"]
        if pcl == "idle":
            if t == 0:
                sender = "send" if x == "send_inv" else "drop"
            else:
                receiver.append(x)
            continue
        op = PC_OP.get(pcl)
        if op is None and pcl in FENCE_PCS and table.get(pcl, "none") != "none":
            op = "fence"
        if op is None:
            continue
        if t not in started:
            script.append([t, "start"])
            started.add(t)
        if t == 1:
            if spin_pending and pcl in SPIN_PCS and last_r_pc == pcl:
                script.append([1, "spin"])
            spin_pending = pcl in SPIN_PCS
            last_r_pc = pcl
        script.append([t, op])
    rng = random.Random(seed * 1000003 + sid)
    if sender is None:
        sender = rng.choice(["send", "drop"])
    return {"id": sid, "storage": storage, "sender": sender, "receiver": receiver, "script": script, "seed": seed + sid}


def same_waker(prog):
    """the receiver program with every poll after the first turned into a re-poll with the same waker object"""
    out, seen = [], False
    for op in prog:
        out.append("repoll" if (op == "poll" and seen) else op)
        seen = seen or op == "poll"
    return out


def with_same_waker_variants(stimuli, first_id):
    """for every stimulus whose receiver polls at least twice: a copy (same schedule) that re-polls with the same waker"""
    out = list(stimuli)
    for st in stimuli:
        if st["receiver"].count("poll") >= 2:
            v = dict(st, id=first_id + len(out), receiver=same_waker(st["receiver"]))
            out.append(v)
    return out


def leaves(hists):
    """keep histories that are not a proper prefix of another one (they cover the edges of their prefixes)"""
    keys = set()
    for h in hists:
        k = tuple((e["t"], e["pc"], e["x"]) for e in h)
        keys.add(k)
    prefixes = set()
    for k in keys:
        for n in range(1, len(k)):
            prefixes.add(k[:n])
    out = [k for k in keys if k not in prefixes]
    out.sort()
    return [[{"t": a, "pc": b, "x": c} for (a, b, c) in k] for k in out]


def random_stimuli(n, seed, storages, first_id=1):
    rng = random.Random(seed)
    out = []
    for i in range(n):
        prog = []
        for _ in range(rng.randint(0, 4)):
            prog.append(rng.choice(["poll", "poll", "is_ready", "into_value"]))
        prog.append(rng.choice(["drop", "into_value", "poll"]))
        # every third program re-polls with the SAME waker object (Waker::will_wake is true) instead of a fresh one
        if i % 3 == 2:
            prog = same_waker(prog)
        st = {"id": first_id + i, "storage": rng.choice(storages), "sender": rng.choice(["send", "drop"]),
              "receiver": prog, "seed": rng.randrange(1 << 30)}
        if rng.random() < 0.4:
            st["pct"] = True
        out.append(st)
    return out


API_EVS = ("reset", "end", "inv", "resp", "wclone", "wdrop", "wwake", "wwake_ref", "pdrop", "release")
API_DEF = dict(w=0, side="-", op="-", res="-", outcome="-", pool_len=-1, panics=[])
STEP_DEF = dict(task=0, obj=0, loc=0, op="-", ord="-", ordf="-", obs=-1, wr=-1, part="-", acc="-", side="-")


def split_logs(recs, wd, tag):
    api, conf, rc = [], [], []
    for r in recs:
        ev = r["ev"]
        if ev in API_EVS:
            a = {k: r[k] for k in r if k in ("ev", "id", "w", "side", "op", "res", "outcome", "pool_len", "panics")}
            for k, v in API_DEF.items():
                a.setdefault(k, v)
            api.append(a)
        keep = ("ev", "task", "obj", "loc", "op", "ord", "ordf", "obs", "wr", "part", "acc", "side")
        if ev in ("reset", "end", "inv", "atomic", "release") or (ev == "cell" and r["part"] in ("value", "awaiter")):
            c = {k: r[k] for k in r if k in keep}
            for k, v in STEP_DEF.items():
                c.setdefault(k, v)
            conf.append(c)
        if ev in ("reset", "atomic", "cell", "release", "created", "end"):
            c = {k: r[k] for k in r if k in keep + ("outcome", "pool_len")}
            for k, v in STEP_DEF.items():
                c.setdefault(k, v)
            c.setdefault("outcome", "-")
            c.setdefault("pool_len", -1)
            rc.append(c)
    p = {}
    for name, data in (("api", api), ("conf", conf), ("rc11", rc)):
        p[name] = os.path.join(wd, "%s.%s.ndjson" % (tag, name))
        write_ndjson(p[name], data)
    return p


def run_harness(wd, tag, stimuli, timeout=1800):
    sp = os.path.join(wd, tag + ".stim.ndjson")
    out = os.path.join(wd, tag + ".log.ndjson")
    write_ndjson(sp, stimuli)
    recs, _crashes = vlib.run_stimuli("h_once", "sync", sp, out, timeout=timeout)
    return recs


def runs_of(recs):
    """split a concatenated log into runs: list of (reset record, [records], end record or None)"""
    runs, cur = [], None
    for r in recs:
        if r["ev"] == "reset":
            cur = [r, [], None]
            runs.append(cur)
        elif cur is not None:
            if r["ev"] == "end":
                cur[2] = r
            else:
                cur[1].append(r)
    return runs


def run_containing(recs_file, line):
    """the run (list of records) that contains 1-based line `line` of an ndjson file"""
    recs = read_ndjson(recs_file)
    start = 0
    for i in range(min(line, len(recs)) - 1, -1, -1):
        if recs[i]["ev"] == "reset":
            start = i
            break
    end = len(recs)
    for i in range(start + 1, len(recs)):
        if recs[i]["ev"] == "reset":
            end = i
            break
    return recs[start:end]


def conformance(wd, tag, conf_path, timeout=1800):
    """Returns (accepted, table or None, TlcResult)."""
    r = tlc(D, "Trace_OnceEventSync", cfg="Trace_OnceEventSync.cfg", workers=1, env={"TRACE": conf_path}, timeout=timeout,
            xmx="4g", xss="1g", deque=True)
    if r.error:
        raise vlib.ToolError("conformance run failed: %s\n%s" % (r.error, r.out[-2000:]))
    tabs = tlc_prints(r.out, "TABLE")
    table = json.loads(tabs[-1]) if tabs else None
    accepted = r.violation is None and table is not None
    return accepted, table, r


def rc11_explore(run, name, table, consts, workers=8, timeout=1800, sc=False):
    """TLC over OnceEventSync with the measured ordering table."""
    wd = vlib.workdir(run.pid, "mc")
    mod = os.path.join(wd, "MC_Measured.tla")
    ordmap = dict(ORD_AS_BUILT)
    for k, v in (table or {}).items():
        if v != "?":
            ordmap[k] = v
    body = " [] ".join('s = "%s" -> "%s"' % (k, v) for k, v in sorted(ordmap.items()))
    # the module must live next to the specs it extends
    mpath = os.path.join(D, "MC_Measured_%s.tla" % run.pid)
    open(mpath, "w").write("---- MODULE MC_Measured_%s ----\nEXTENDS OnceEventSync\nOrdMeasured == [s \\in Sites |-> CASE %s]\n====\n"
                           % (run.pid, body))
    cfg = os.path.join(wd, name + ".cfg")
    open(cfg, "w").write("CONSTANTS %s  SC = %s  Ord <- OrdMeasured\nSPECIFICATION FairSpec\nINVARIANT TypeOK NoRace NoUnreachable JudgeOk NoUB\n"
                         "%sCHECK_DEADLOCK FALSE\n" % (consts, "TRUE" if sc else "FALSE", "PROPERTY SpinExits\n" if sc else ""))
    try:
        r = tlc(D, "MC_Measured_%s" % run.pid, cfg=cfg, workers=workers, timeout=timeout, xmx="8g", coverage=(run.tier == "thorough"))
    finally:
        try:
            os.remove(mpath)
        except OSError:
            pass
    return r, ordmap
