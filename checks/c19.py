"""C19 — benchmark history store: objects are write-once and appear atomically.

  spec/store/StoreAbs.tla     judge: one key = nothing | one complete object; put/put_overwrite/get/delete/list as a
                              linearizable register (configuration-set monitor), clients may die mid-operation
  spec/store/StoreKeys.tla    key rule (explorer: keys.rs on Unix) + judge on path resolution
  spec/store/LocalStore.tla   explorer: local.rs step by step (pc = name of the crate::verif::point the thread is parked at)
  spec/store/Trace_Store.tla  the judge applied to what harness/h_store recorded from the real LocalStorage

Strict vs. relaxed judge: Strict=TRUE is the write-once register that the repository's documents promise; the explorer
violates it (exists-check / rename split, S10) and the harness reproduces TLC's counterexample on the real code: a
scenario the strict judge rejects and the relaxed judge (put = check, later publish) accepts is reported under the key
`store:lin:check-publish-split:*` (known finding); anything the relaxed judge rejects is a different violation.
"""
import json, os, shutil, threading
import vlib
from vlib import SPEC, workdir, tlc, tlc_prints, validate_trace, write_ndjson, read_ndjson

PID = "C19"
D = os.path.join(SPEC, "store")
LOCK = threading.Lock()
TRACE_CFG = "CONSTANTS\n  Threads = {1, 2, 3, 4, 5, 6}\n  Strict = %s\nSPECIFICATION TraceSpec\nPOSTCONDITION Accepted\nCHECK_DEADLOCK FALSE\n"


def trace_cfg(tag, strict):
    """a private copy of the trace cfg (vlib derives TLC's metadir from the cfg name; jobs run concurrently)"""
    p = os.path.join(workdir(PID), "ts_%s_%s.cfg" % ("strict" if strict else "relaxed", tag))
    open(p, "w").write(TRACE_CFG % ("TRUE" if strict else "FALSE"))
    return p

BASE = dict(Writers="{1, 2}", Readers="{3}", Threads="{1, 2, 3}", WOps=1, ROps=2, NChunks=2,
            WriterKinds='{"put", "puto", "del"}', ReaderKinds='{"get", "list"}', InitVals="{0, 9}",
            IoFail="TRUE", ViaTemp="TRUE", TempReserved="TRUE", CheckExists="TRUE", Strict="FALSE")


def cfg_text(consts, spec="Spec", invariants=(), props=(), view=True):
    s = "CONSTANTS\n" + "".join("  %s = %s\n" % kv for kv in consts.items())
    s += "SPECIFICATION %s\n" % spec
    if view:
        s += "VIEW View\n"
    if invariants:
        s += "INVARIANT " + " ".join(invariants) + "\n"
    if props:
        s += "PROPERTY " + " ".join(props) + "\n"
    return s + "CHECK_DEADLOCK FALSE\n"


def write_cfg(wd, name, consts, **kw):
    p = os.path.join(wd, name)
    open(p, "w").write(cfg_text(consts, **kw))
    return p


class Par:
    """run several TLC jobs concurrently (they are independent); collect results by name"""

    def __init__(self):
        self.th, self.res, self.err = [], {}, {}

    def go(self, name, fn):
        def w():
            try:
                self.res[name] = fn()
            except Exception as e:  # noqa
                self.err[name] = e
        t = threading.Thread(target=w)
        t.start()
        self.th.append(t)

    def join(self):
        for t in self.th:
            t.join()
        for n, e in self.err.items():
            raise e
        return self.res


def scenario_of(recs, line):
    """records of the scenario (reset..next reset) that contains 1-based line"""
    i = line - 1
    a = i
    while a > 0 and recs[a].get("ev") != "reset":
        a -= 1
    b = i + 1
    while b < len(recs) and recs[b].get("ev") != "reset":
        b += 1
    return a, recs[a:b]


def overlap_kinds(sc):
    """kinds of the writers whose operations overlap another write in the scenario (for the violation key only)"""
    kinds = sorted({r["kind"] for r in sc if r.get("ev") == "inv" and r.get("kind") in ("put", "puto", "del")})
    return "+".join(kinds) or "none"


def judge(run, trace, name, strict_too=True, what="sched"):
    """validate with the relaxed judge (and the strict one); returns (n_scenarios, strict_only_rejected_scenarios)"""
    recs = read_ndjson(trace)
    par = Par()
    tag = "".join(ch for ch in name if ch.isalnum())
    c1, c2 = trace_cfg(tag, False), trace_cfg(tag, True)
    par.go("relaxed", lambda: validate_trace(D, "Trace_Store", trace, cfg=c1, timeout=1500))
    if strict_too:
        par.go("strict", lambda: validate_trace(D, "Trace_Store", trace, cfg=c2, timeout=1500))
    res = par.join()
    with LOCK:
        return _account(run, recs, res, name, strict_too, what)


PER_KEY = {}


def _violation(run, key, what, obj):
    PER_KEY[key] = PER_KEY.get(key, 0) + 1
    if PER_KEY[key] <= 5:               # a few replay files per failing scenario class are enough
        run.violation(key, what, obj)


def _account(run, recs, res, name, strict_too, what):
    ok, rej_relaxed, tr = res["relaxed"]
    run.add_tlc("Trace_Store relaxed " + name, tr, count_states=False)
    nsc = sum(1 for r in recs if r.get("ev") in ("reset", "key"))
    run.cov["traces_validated_against_impl"] += nsc
    run.cov["evaluations"] += len(recs)
    bad_relaxed = set()
    for rj in rej_relaxed:
        if "line" not in rj:
            raise vlib.ToolError("unexpected judge output: %s" % json.dumps(rj)[:500])
        start, sc = scenario_of(recs, rj["line"])
        bad_relaxed.add(start)
        rec = rj["rec"]
        if rec.get("ev") == "key":
            key = "store:key:%s" % key_class(rec)
        elif rec.get("ev") == "tree":
            key = "store:tree:outside-root"
        else:
            key = "store:%s:%s:%s" % (what, rec.get("ev"), res_class(sc, rec, rj["line"] - 1 - start))
        _violation(run, key, "rejected by StoreAbs (relaxed judge) at line %d: %s" % (rj["line"], json.dumps(rec)[:300]),
                      {"part": name, "scenario": sc, "rejected": rec, "strict": False})
    strict_only = []
    if strict_too:
        ok2, rej_strict, tr2 = res["strict"]
        run.add_tlc("Trace_Store strict " + name, tr2, count_states=False)
        for rj in rej_strict:
            start, sc = scenario_of(recs, rj["line"])
            if start in bad_relaxed or rj["rec"].get("ev") in ("key", "tree"):
                continue
            strict_only.append(sc)
            _violation(run, "store:lin:check-publish-split:" + overlap_kinds(sc),
                          "strict write-once register violated on the real code: a put that passed its existence check "
                          "published over another write (%s); line %d" % (overlap_kinds(sc), rj["line"]),
                          {"part": name, "scenario": sc, "rejected": rj["rec"], "strict": True})
    return nsc, strict_only


def res_class(sc, rec, pos):
    if rec.get("ev") == "res":
        kind = "?"
        for r in sc[:pos]:
            if r.get("ev") == "inv" and r.get("t") == rec.get("t"):
                kind = r.get("kind")
        crashed = any(r.get("ev") == "crash" for r in sc[:pos])
        return "%s->%s%s" % (kind, rec.get("r"), ":after-crash" if crashed else "")
    return rec.get("kind", "?")


def key_class(rec):
    if rec.get("outside"):
        return "escapes-root"
    segs = "".join("/" if c == 3 else "." if c == 2 else "x" for c in rec.get("key", [])).split("/")
    if rec.get("valid") and ".." in segs:
        return "escaping-key-accepted"
    if rec.get("valid") and rec.get("put") == "ok" and rec.get("get") != "same":
        return "no-roundtrip"
    if rec.get("valid") and rec.get("put") == "ok":
        return "listing-mismatch"
    if not rec.get("valid"):
        return "rejected-key-had-effect"
    return "other"


def crash_cases(scheds):
    seen, out = set(), []
    for h in scheds:
        init = h[0]["k"]
        kind = [s["k"] for s in h[1:] if s["p"] == "start"][0]
        at = ([s["p"] for s in h[1:] if s["k"] == "crash"] or ["none"])[0]
        k = (init, kind, at)
        if k not in seen:
            seen.add(k)
            out.append({"init": init, "kind": kind, "at": at})
    return out


def check(run):
    thorough = run.tier == "thorough"
    wd = workdir(PID, clean=True)
    sb = os.path.join(wd, "sb")
    vlib.cargo_build(["h_store"])

    # ---------------------------------------------------------------- TLC: explorer vs judge, generators
    bg = Par()      # explorer vs judge: runs while the stimuli are generated and replayed
    par = Par()     # generators: needed before the harness can start
    big = dict(BASE)
    if thorough:
        big.update(WOps=2, ROps=1, NChunks=2, WriterKinds='{"put", "puto", "del"}')
    c_rel = write_cfg(wd, "mc_relaxed.cfg", big, spec="FairSpec",
                      invariants=("TypeOK", "KeyNeverPartial", "LinOrWitness", "NoOrphanWithoutCrash"), props=("Terminates",))
    bg.go("relaxed", lambda: tlc(D, "MC_LocalStore", cfg=c_rel, workers=8 if thorough else 6, coverage=thorough, timeout=2400, xmx="10g"))
    # strict judge: the counterexamples (two overlapping puts; thorough: also a put overlapped by a put_overwrite)
    s1 = dict(BASE, Strict="TRUE", NChunks=1, IoFail="FALSE", ROps=1, WriterKinds='{"put"}')
    c_s1 = write_cfg(wd, "mc_strict_putput.cfg", s1, invariants=("LinOrWitness",))
    par.go("strict1", lambda: tlc(D, "MC_LocalStore", cfg=c_s1, workers=2, timeout=900))
    strict_names = ["strict1"]
    if thorough:
        s2 = dict(BASE, Strict="TRUE", NChunks=1, IoFail="FALSE", ROps=1)
        c_s2 = write_cfg(wd, "mc_strict_all.cfg", s2, invariants=("LinOrWitness",))
        par.go("strict2", lambda: tlc(D, "MC_LocalStore", cfg=c_s2, workers=2, timeout=900))
        strict_names.append("strict2")
    # schedules: one witness per distinct terminal state (all crash placements and outcomes); hook-level steps (1 chunk)
    g = dict(BASE, NChunks=1, IoFail="FALSE", ROps=1)
    c_g = write_cfg(wd, "gen.cfg", g, invariants=("GenTerminal",))
    par.go("gen", lambda: tlc(D, "MC_LocalStore", cfg=c_g, workers=4, timeout=1500))
    # crash matrix: one writer, every kind, every prior content, every pc
    cm = dict(BASE, Writers="{1}", Readers="{}", Threads="{1}", NChunks=1, IoFail="FALSE", ROps=0)
    c_cm = write_cfg(wd, "gen_crash.cfg", cm, invariants=("GenTerminal",))
    par.go("gencrash", lambda: tlc(D, "MC_LocalStore", cfg=c_cm, workers=1, timeout=600))
    # keys
    maxlen = 5 if thorough else 4
    c_k = os.path.join(wd, "keys.cfg")
    open(c_k, "w").write("CONSTANT MaxLen = %d\nINIT Init\nNEXT Next\nINVARIANT RuleSound RuleComplete GenCase\nCHECK_DEADLOCK FALSE\n" % maxlen)
    par.go("keys", lambda: tlc(D, "MC_StoreKeys", cfg=c_k, workers=1, timeout=900))
    # non-vacuity of the explorer's invariants: the three named deviations each break one (thorough tier)
    dev_names = []
    if thorough:
        for nm, ch in (("direct", dict(ViaTemp="FALSE")), ("noprefix", dict(TempReserved="FALSE")), ("nocheck", dict(CheckExists="FALSE"))):
            cc = write_cfg(wd, "mc_dev_%s.cfg" % nm, dict(BASE, NChunks=2, ROps=1, IoFail="FALSE", **ch),
                           invariants=("KeyNeverPartial", "LinOrWitness"))
            bg.go("dev_" + nm, (lambda cc=cc: tlc(D, "MC_LocalStore", cfg=cc, workers=2, timeout=900)))
            dev_names.append("dev_" + nm)
    res = par.join()

    model_cex = None
    cex_scheds = []
    for nm in strict_names:
        x = res[nm]
        run.add_tlc("LocalStore explorer vs STRICT judge (%s)" % nm, x, count_states=False)
        if x.error:
            raise vlib.ToolError(nm + ": " + x.error)
        cs = [json.loads(s) for s in tlc_prints(x.out, "CEX")]
        if not x.violation or not cs:
            # the design expects the split to violate strict write-once; if the model no longer does, say so (no alarm)
            run.cov.setdefault("notes", []).append("%s: explorer satisfies the strict register" % nm)
        cex_scheds += cs[:1]
    gen = res["gen"]
    run.add_tlc("LocalStore schedule generator", gen, count_states=False)
    if gen.error or gen.violation:
        raise vlib.ToolError("generator failed: %s %s" % (gen.error, gen.violation))
    scheds = [json.loads(s) for s in tlc_prints(gen.out, "SCHED")]
    gc = res["gencrash"]
    if gc.error or gc.violation:
        raise vlib.ToolError("crash generator failed: %s %s" % (gc.error, gc.violation))
    ccases = crash_cases([json.loads(s) for s in tlc_prints(gc.out, "SCHED")])
    kr = res["keys"]
    run.add_tlc("StoreKeys: every key up to length %d over 6 symbols" % maxlen, kr)
    if kr.error:
        raise vlib.ToolError("keys: " + kr.error)
    if kr.violation:
        model_cex = model_cex or ("StoreKeys " + kr.violation)
    kcases = [json.loads(s) for s in tlc_prints(kr.out, "KCASE")]
    if len(scheds) < 100 or len(ccases) < 20 or len(kcases) < 1500:
        raise vlib.ToolError("generators produced too little: %d %d %d" % (len(scheds), len(ccases), len(kcases)))

    # ---------------------------------------------------------------- replay on the real code
    env = {"VERIF_SEED": run.seed}
    # (a) TLC's strict counterexamples (the S10 demonstration) come first, then (b) all terminal-state schedules
    f = os.path.join(wd, "scheds.ndjson")
    write_ndjson(f, cex_scheds + scheds)
    t_s = os.path.join(wd, "sched_trace.ndjson")
    p = vlib.run_bin("h_store", ["sched", f, t_s, sb], env=env, timeout=1500)
    st = json.loads(p.stdout.strip().splitlines()[-1])
    run.cov["drift_schedules"] = st["drift"]
    if st["incomplete"]:
        raise vlib.ToolError("%d scheduled scenarios did not complete" % st["incomplete"])
    # (c) crash matrix in child processes, (d) payload round trips, (e) keys, (f) random
    f_c = os.path.join(wd, "crash_cases.ndjson")
    write_ndjson(f_c, ccases)
    t_c = os.path.join(wd, "crash_trace.ndjson")
    p = vlib.run_bin("h_store", ["crash", f_c, t_c, sb], env=env, timeout=900)
    stc = json.loads(p.stdout.strip().splitlines()[-1])
    run.cov["crash_points_not_reached"] = stc["not_crashed"]
    t_r = os.path.join(wd, "rt_trace.ndjson")
    vlib.run_bin("h_store", ["rt", t_r, sb], env=env, timeout=900)
    f_k = os.path.join(wd, "key_cases.ndjson")
    write_ndjson(f_k, kcases)
    t_k = os.path.join(wd, "key_trace.ndjson")
    vlib.run_bin("h_store", ["keys", f_k, t_k, sb], env=env, timeout=900)
    nrand = 3000 if thorough else 250
    t_x = os.path.join(wd, "rand_trace.ndjson")
    p = vlib.run_bin("h_store", ["random", t_x, sb, nrand], env=env, timeout=1500)
    stx = json.loads(p.stdout.strip().splitlines()[-1])
    if stx["incomplete"]:
        raise vlib.ToolError("%d random scenarios did not complete" % stx["incomplete"])
    # (g) free-running readers against a writer storing a large incompressible object (no hook involved), both keys
    nrace = 8 if thorough else 3
    t_g = os.path.join(wd, "race_trace.ndjson")
    vlib.run_bin("h_store", ["race", t_g, sb, nrace], env=env, timeout=900)
    t_g2 = os.path.join(wd, "race_root_trace.ndjson")
    vlib.run_bin("h_store", ["race", t_g2, sb, nrace], env=dict(env, H_STORE_KEY="root"), timeout=900)
    # (h) crash matrix and round trips again for a key directly under the store root (temporary files live in the root)
    t_c2 = os.path.join(wd, "crash_root_trace.ndjson")
    p = vlib.run_bin("h_store", ["crash", f_c, t_c2, sb], env=dict(env, H_STORE_KEY="root"), timeout=900)
    run.cov["crash_points_not_reached"] += json.loads(p.stdout.strip().splitlines()[-1])["not_crashed"]
    t_r2 = os.path.join(wd, "rt_root_trace.ndjson")
    vlib.run_bin("h_store", ["rt", t_r2, sb], env=dict(env, H_STORE_KEY="root"), timeout=900)
    # (i) a write fault in the middle of storing a large object (file-size limit of the writing process, EFBIG)
    t_e = os.path.join(wd, "efbig_trace.ndjson")
    vlib.run_bin("h_store", ["efbig", t_e, sb], env=env, timeout=600)
    t_e2 = os.path.join(wd, "efbig_root_trace.ndjson")
    vlib.run_bin("h_store", ["efbig", t_e2, sb], env=dict(env, H_STORE_KEY="root"), timeout=600)
    shutil.rmtree(sb, ignore_errors=True)

    # ---------------------------------------------------------------- judge
    # sequential parts in one file (strict = relaxed without overlap: both must accept)
    t_all = os.path.join(wd, "seq_trace.ndjson")
    with open(t_all, "w") as out:
        for t in (t_c, t_r, t_c2, t_r2, t_e, t_e2):
            out.write(open(t).read())
    t_race = os.path.join(wd, "race_all_trace.ndjson")
    with open(t_race, "w") as out:
        for t in (t_g, t_g2):
            out.write(open(t).read())
    outp = {}
    jp = Par()
    jp.go("sched", lambda: judge(run, t_s, "schedules"))
    jp.go("seq", lambda: judge(run, t_all, "crash matrix + round trips", what="crash"))
    jp.go("keys", lambda: judge(run, t_k, "keys", strict_too=False, what="keys"))
    jp.go("rand", lambda: judge(run, t_x, "random", what="random"))
    jp.go("race", lambda: judge(run, t_race, "free-running readers vs a large write", what="race"))
    outp = jp.join()
    n_s, so_s = outp["sched"]
    reproduced = [sc for sc in so_s if sc[0].get("sid", 10 ** 9) < len(cex_scheds)]
    run.cov["strict_counterexamples_reproduced"] = "%d of %d" % (len(reproduced), len(cex_scheds))
    if len(reproduced) < len(cex_scheds) and not st["drift"]:
        raise vlib.ToolError("TLC's strict counterexample is not reproduced by the real code (model drift): %s" % json.dumps(cex_scheds)[:2000])
    for sc in reproduced[:1]:
        run.sample({"S10_on_real_code": [{k: v for k, v in r.items() if k in ("ev", "t", "kind", "obj", "r")}
                                         for r in sc if r.get("ev") in ("inv", "res")]})
    n_q, so_q = outp["seq"]
    if so_q:
        raise vlib.ToolError("strict and relaxed judge disagree on a sequential scenario: %s" % json.dumps(so_q[0])[:1500])
    n_x, so_x = outp["rand"]
    n_g, so_g = outp["race"]
    run.cov["free_running_reader_scenarios"] = 2 * nrace
    run.cov["rejected_scenarios_by_key"] = dict(PER_KEY)
    run.cov["strict_only_rejections"] = {"schedules": len(so_s), "random": len(so_x)}
    # fidelity of the key rule (explorer vs code): drift, not a verdict
    krecs = read_ndjson(t_k)
    run.cov["drift_key_rule"] = sum(1 for r in krecs if r["valid"] != r["exp"])
    crecs = read_ndjson(t_c)
    partial_seen = sum(1 for r in crecs if r.get("ev") == "tree" and r.get("temps"))
    run.cov["crash_cases_with_orphan_temp"] = partial_seen
    rtrecs = read_ndjson(t_r)
    run.cov["puts_ok_in_round_trips"] = sum(1 for r in rtrecs if r.get("ev") == "res" and r.get("r") == "ok")
    if run.cov["puts_ok_in_round_trips"] < 20:
        raise vlib.ToolError("vacuous: hardly any operation succeeded in the round-trip part")
    bres = bg.join()
    r = bres["relaxed"]
    run.add_tlc("LocalStore explorer vs relaxed judge (2 writers x %d ops, 1 reader x %d ops, %d chunks, crash at every pc, I/O failures)"
                % (big["WOps"], big["ROps"], big["NChunks"]), r)
    if r.error:
        raise vlib.ToolError("explorer: " + r.error)
    model_cex = model_cex or r.violation
    for nm in dev_names:
        x = bres[nm]
        run.add_tlc("explorer with deviation %s (must violate)" % nm, x, count_states=False)
        if x.error:
            raise vlib.ToolError(nm + ": " + x.error)
        if not x.violation:
            run.cov["uncovered_actions"].append("vacuous:%s" % nm)
    if model_cex and not [v for v in run.violations if "check-publish-split" not in v[0]]:
        raise vlib.ToolError("explorer reports %s but the real code does not reproduce it (model drift)\n%s" % (model_cex, r.cex[:3000]))
    run.sample(crecs[0:8][-1] if crecs else "none")
    run.sample(krecs[len(krecs) // 2])
    run.cov["distinct_nontrivial"] = len(scheds) + 2 * len(ccases) + len(kcases) + len(cex_scheds)
    run.cov["rule"] = ("distinct = TLC-enumerated stimuli: %d schedules (one per distinct terminal state of 2 writers x {put,put_overwrite,delete} "
                       "+ 1 reader with crashes at every pc), %d crash cases (kind x prior content x crash point) x 2 payload sizes in child "
                       "processes, %d keys (all strings up to length %d over a . / \\ - :), %d strict counterexamples; plus %d seeded random "
                       "programs (<=3 writers x <=3 ops, <=2 readers, random crashes)" % (len(scheds), len(ccases), len(kcases), maxlen, len(cex_scheds), nrand))
    run.cov["exhaustive"] = (st["drift"] == 0 and stc["not_crashed"] == 0)
    run.assume("a killed process is modelled as: no further step, files stay (page cache survives); no claim about power loss / fsync")
    run.assume("rename(2), unlink(2), open(O_CREAT|O_TRUNC) and a directory read are atomic with respect to each other (POSIX, one local file system)")
    run.assume("the gzip codec is an abstract bijection with an integrity check in the model; byte-identical read-back is observed on sampled payload classes")
    run.assume("key rule judged with Unix path semantics (backslash and colon are ordinary characters on this host)")


def selftest():
    """corrupted-trace tests: an accepted real trace must be rejected after (a) changing one field, (b) deleting one event,
    (c) swapping a response with a later invocation of another client"""
    wd = workdir(PID, "selftest", clean=True)
    vlib.cargo_build(["h_store"])
    t = os.path.join(wd, "rt.ndjson")
    vlib.run_bin("h_store", ["rt", t, os.path.join(wd, "sb")])
    recs = read_ndjson(t)
    ok, rej, _ = validate_trace(D, "Trace_Store", t, cfg="Trace_Store.cfg")
    assert ok, rej
    fails = 0

    def expect_reject(name, rr):
        nonlocal fails
        p = os.path.join(wd, name + ".ndjson")
        write_ndjson(p, rr)
        ok, rej, _ = validate_trace(D, "Trace_Store", p, cfg="Trace_Store.cfg")
        print("selftest %-28s %s" % (name, "rejected (good)" if rej else "ACCEPTED (BAD)"))
        if not rej:
            fails += 1
    # (a) a get that returns another object
    i = next(k for k, r in enumerate(recs) if r.get("ev") == "res" and r.get("obj") == 11)
    a = [dict(r) for r in recs]
    a[i]["obj"] = 12
    expect_reject("field-changed", a)
    # (b) drop the put that made the object appear
    i = next(k for k, r in enumerate(recs) if r.get("ev") == "inv" and r.get("kind") == "put")
    expect_reject("event-deleted", recs[:i] + recs[i + 2:])
    # (c) the response "exists" of the second put moved before the first put
    j = next(k for k, r in enumerate(recs) if r.get("ev") == "res" and r.get("r") == "exists")
    b = [dict(r) for r in recs]
    blk = b[j - 1:j + 1]
    del b[j - 1:j + 1]
    b[i:i] = blk
    expect_reject("events-swapped", b)
    # (d) a temp file in a listing, (e) an entry beside the root, (f) an escaping key that was accepted
    c = [dict(r) for r in recs]
    k = next(k for k, r in enumerate(c) if r.get("ev") == "res" and r.get("r") == "ok" and c[k - 1].get("kind") == "list")
    c[k]["junk"] = 1
    expect_reject("temp-in-listing", c)
    d = [dict(r) for r in recs]
    k = next(k for k, r in enumerate(d) if r.get("ev") == "tree")
    d[k]["outside"] = 1
    expect_reject("entry-outside-root", d)
    expect_reject("escaping-key-accepted", [{"ev": "key", "key": [2, 2, 3, 1], "valid": True, "put": "ok", "get": "same",
                                             "listed": [[2, 2, 3, 1]], "files": 1, "outside": 0}])
    return 1 if fails else 0


def replay(path):
    rep = json.load(open(path))
    print(json.dumps({k: rep[k] for k in ("property", "key", "what")}, indent=1))
    sc = rep["replay"].get("scenario")
    if not sc:
        return 0
    wd = workdir(PID, "replay_run", clean=True)
    t = os.path.join(wd, "t.ndjson")
    write_ndjson(t, sc)
    cfg = "Trace_Store_strict.cfg" if rep["replay"].get("strict") else "Trace_Store.cfg"
    ok, rej, _ = validate_trace(D, "Trace_Store", t, cfg=cfg)
    for r in sc:
        print(json.dumps(r))
    print("judge (%s): %s" % (cfg, "accepted" if ok else "REJECTED %s" % json.dumps(rej)[:600]))
    return 0 if ok else 1
