---- MODULE MC_ParBench ----
EXTENDS ParBench, Json
CfgsQuick == {<<1,2,1>>, <<2,0,1>>, <<2,1,2>>, <<2,2,1>>, <<2,2,2>>, <<3,0,1>>, <<3,0,3>>}
CfgsGenQuick == CfgsQuick \cup {<<3,1,3>>}
CfgsSmall == {<<1,2,1>>, <<2,1,1>>, <<2,2,2>>}
CfgsThorough == {<<1,0,1>>, <<1,1,1>>, <<1,2,1>>, <<2,0,1>>, <<2,0,2>>, <<2,1,1>>, <<2,1,2>>, <<2,2,1>>, <<2,2,2>>,
                 <<3,0,1>>, <<3,0,3>>, <<3,1,1>>, <<3,1,3>>, <<3,2,1>>, <<3,2,3>>}
CfgsBig == {<<3,2,1>>, <<3,2,3>>}
CfgsMid == CfgsThorough \ CfgsBig
\* Generator: one stimulus per initial state (= per panic placement); printed from an invariant, no transitions taken.
RECURSIVE VecOf(_, _)
VecOf(f, i) == IF i > N THEN <<>> ELSE <<f[i]>> \o VecOf(f, i + 1)
GenCase == mpc = "send" /\ mi = 1 =>
    PrintT(<<"PCASE", ToJson([n |-> N, g |-> G, k |-> K, panic_at |-> VecOf(panicAt, 1)])>>)
Stop == FALSE /\ UNCHANGED vars
====
