------------------------------ MODULE ParBenchAbs ------------------------------
(* Judge for C17: what ConfiguredRun::execute_on(pool, k) owes the caller, stated on observable events only.

   Observable events (all of them are produced by harness code: the five callbacks, destructors of the states the
   callbacks return, and the thread that called execute_on):

     Enter(w, cb, grp)   worker w starts callback cb in {prepare_thread, prepare_iter, begin, iter, end}
     Exit(w, cb, pan)    ... and leaves it, normally or by panicking
     Touch(w)            any other access to state borrowed by the run (destructor of a returned state)
     Return(kind, outs)  execute_on returned ("ok", with outs outputs) or unwound ("panic")
     Hung                execute_on did not return (watchdog)

   The judge says nothing about which OS thread is which worker, the order in which results are awaited, how the
   barrier is implemented, or what happens to the pool afterwards.  It constrains exactly:

     (1) per worker the callback sequence  prepare_thread, prepare_iter x k, begin, iter x k, end   (never more)
     (2) released together: no begin/iter/end starts before every worker finished (or failed) its preparation
     (3) a healthy run (no callback panicked) returns "ok" with one output per worker, every worker having run the
         complete sequence, the group indexes 0..g-1 each dealt to exactly n/g workers; it never hangs
     (4) a run in which a callback panicked does not return "ok"
     (5) NO USE AFTER RETURN: once execute_on has returned or unwound, no worker is inside a callback and none
         enters one or touches borrowed state later.                                                            *)
EXTENDS Naturals, FiniteSets, Sequences

Callbacks == {"prepare_thread", "prepare_iter", "begin", "iter", "end"}

VARIABLES
    par,     \* [n, g, k] of the current run
    ws,      \* ws[w] = [pt, pi, bg, it, en : Nat, in : callback name or "-", grp : Int (-1 unknown), failed : BOOLEAN]
    ret      \* "no" | "ok" | "panic" | "hung"

absvars == <<par, ws, ret>>

Workers == 1..par.n

FreshWorker == [pt |-> 0, pi |-> 0, bg |-> 0, it |-> 0, en |-> 0, in |-> "-", grp |-> 0 - 1, failed |-> FALSE]

AbsInit(n, g, k) ==
    /\ par = [n |-> n, g |-> g, k |-> k]
    /\ ws = [w \in 1..n |-> FreshWorker]
    /\ ret = "no"

\* the same as an action (a trace file holds many runs)
AbsStart(n, g, k) ==
    /\ par' = [n |-> n, g |-> g, k |-> k]
    /\ ws' = [w \in 1..n |-> FreshWorker]
    /\ ret' = "no"

PrepDone(s) == s.failed \/ (s.pt = 1 /\ s.pi = par.k /\ s.in \notin {"prepare_thread", "prepare_iter"})
AllPrepared == \A v \in Workers : PrepDone(ws[v])

\* (1) + (2): may worker state s start callback cb now?
MayEnter(s, cb) ==
    /\ s.in = "-" /\ ~s.failed
    /\ CASE cb = "prepare_thread" -> s.pt = 0
         [] cb = "prepare_iter"   -> s.pt = 1 /\ s.pi < par.k /\ s.bg = 0
         [] cb = "begin"          -> s.pt = 1 /\ s.pi = par.k /\ s.bg = 0 /\ AllPrepared
         [] cb = "iter"           -> s.bg = 1 /\ s.it < par.k /\ s.en = 0
         [] cb = "end"            -> s.bg = 1 /\ s.it = par.k /\ s.en = 0
         [] OTHER -> FALSE

Bump(s, cb) ==
    CASE cb = "prepare_thread" -> [s EXCEPT !.pt = 1, !.in = cb]
      [] cb = "prepare_iter"   -> [s EXCEPT !.pi = @ + 1, !.in = cb]
      [] cb = "begin"          -> [s EXCEPT !.bg = 1, !.in = cb]
      [] cb = "iter"           -> [s EXCEPT !.it = @ + 1, !.in = cb]
      [] cb = "end"            -> [s EXCEPT !.en = 1, !.in = cb]

\* Each event is  guard (a state predicate, reused by the trace judge to report a rejected record and resynchronise)
\* + effect.  (5) is the conjunct  ret = "no" /\ ~late  (late: the borrowed object itself said "execute_on already left").
EnterOk(w, cb, grp, late) ==
    /\ ret = "no" /\ ~late
    /\ w \in Workers /\ cb \in Callbacks
    /\ MayEnter(ws[w], cb)
    /\ grp \in 0..(par.g - 1)
    /\ ws[w].grp \in {0 - 1, grp}                      \* a worker keeps its group for the whole run
Enter(w, cb, grp, late) ==
    /\ EnterOk(w, cb, grp, late)
    /\ ws' = [ws EXCEPT ![w] = [Bump(ws[w], cb) EXCEPT !.grp = grp]]
    /\ UNCHANGED <<par, ret>>

ExitOk(w, cb, late) ==
    /\ ret = "no" /\ ~late
    /\ w \in Workers
    /\ ws[w].in = cb
Exit(w, cb, pan, late) ==
    /\ ExitOk(w, cb, late)
    /\ ws' = [ws EXCEPT ![w] = [@ EXCEPT !.in = "-", !.failed = pan]]
    /\ UNCHANGED <<par, ret>>

TouchOk(w, late) == ret = "no" /\ ~late /\ w \in Workers
Touch(w, late) == TouchOk(w, late) /\ UNCHANGED absvars

Complete(s) == s.pt = 1 /\ s.pi = par.k /\ s.bg = 1 /\ s.it = par.k /\ s.en = 1 /\ s.in = "-" /\ ~s.failed
AnyFailed == \E w \in Workers : ws[w].failed
EvenGroups == \A gi \in 0..(par.g - 1) : Cardinality({w \in Workers : ws[w].grp = gi}) * par.g = par.n

ReturnOk(kind, outs) ==
    /\ ret = "no"
    /\ \A w \in Workers : ws[w].in = "-"               \* (5): nobody is inside a callback when execute_on is left
    /\ \/ /\ kind = "ok"                               \* (3)
          /\ ~AnyFailed
          /\ \A w \in Workers : Complete(ws[w])
          /\ EvenGroups
          /\ outs = par.n
       \/ /\ kind = "panic"                            \* (4): only a failed run may unwind
          /\ AnyFailed
Return(kind, outs) == ReturnOk(kind, outs) /\ ret' = kind /\ UNCHANGED <<par, ws>>

\* A run that panicked somewhere may block forever (the property does not promise termination there); a healthy one may not.
HungOk == ret = "no" /\ AnyFailed
Hung == HungOk /\ ret' = "hung" /\ UNCHANGED <<par, ws>>

AbsNext ==
    \/ \E w \in Workers, cb \in Callbacks, grp \in 0..(par.g - 1) : Enter(w, cb, grp, FALSE)
    \/ \E w \in Workers, cb \in Callbacks, pan \in BOOLEAN : Exit(w, cb, pan, FALSE)
    \/ \E w \in Workers : Touch(w, FALSE)
    \/ \E kind \in {"ok", "panic"}, outs \in 0..par.n : Return(kind, outs)
    \/ Hung

\* What (5) means as a state predicate (implied by the action guards; stated for the explorer as an invariant).
NoUseAfterReturn == ret \in {"ok", "panic"} => \A w \in Workers : ws[w].in = "-"
=============================================================================
