CONSTANTS N = 3  K = 2  G = 1  CollectAll = FALSE  BarrierOnPanic = FALSE  BarrierSize = 3
SPECIFICATION FairSpec
INVARIANT TypeOK NoUseAfterReturn NoLateWorker HealthyOk
PROPERTY JudgeAccepts
CHECK_DEADLOCK FALSE
