------------------------------ MODULE ParBench ------------------------------
(* Explorer for C17: mirrors packages/par_bench/src/threadpool.rs (ThreadPool::execute_task, worker_entrypoint) and
   run_configured.rs (ConfiguredRun::execute_on) one action per channel operation / callback entry / callback exit.

     main      m_send(i)   command_txs[i].send(Execute(closure i))   -- closure i owns result_txs.pop(), i.e. the
                                                                        sender whose receiver is result_rxs[N+1-i]
               m_recv(j)   result_rxs[j].recv()  (blocking), j = 1..N in order
               m_ret       return the boxed results / unwind
     worker w  idle -> pop (group index) -> prepare_thread -> prepare_iter x K -> barrier -> begin -> iter x K -> end
               -> cleanup (drop cleanup_state, thread_state) -> send result -> idle
               a callback may panic (PanicAt[w] = position of the callback in the sequence, 0 = never)

   The two code-dependent switches mirror the tree the check runs against (the check sets them from the source):
     CollectAll      FALSE: execute_task panics at the first failed recv (tree before the fix: S9)
                     TRUE : the worker closure catches the panic and sends Err(payload); execute_task receives ALL
                            results, then re-raises the first failure
     BarrierOnPanic  FALSE: a panic during preparation unwinds past `start.wait()`: the other threads wait forever
                     TRUE : preparation runs under catch_unwind, the thread still reaches the barrier, then re-raises
   The barrier is sized N in the code (BarrierMinus = 0; a seeded mutation sizes it N-1).

   Observation variables par/ws/ret are the judge's (ParBenchAbs); TLC checks  [][AbsNext]_absvars  (every step of the
   explorer is a step the judge allows) and NoUseAfterReturn.                                                      *)
EXTENDS ParBenchAbs, TLC

CONSTANTS Cfgs,            \* set of <<n, k, g>>: thread count, iterations, groups (g divides n); chosen in Init
          CollectAll, BarrierOnPanic,
          BarrierMinus     \* 0 in the code: Barrier::new(thread_count); a seeded mutation makes it 1

ASSUME \A c \in Cfgs : c[1] \in 1..4 /\ c[2] \in Nat /\ c[3] \in Nat \ {0} /\ c[1] % c[3] = 0

\* the parameters of the run are the judge's variable `par` (fixed in Init)
N == par.n
K == par.k
G == par.g
BarrierSize == N - BarrierMinus

VARIABLES
    panicAt,   \* [1..N -> 0..LastPos]
    mpc,       \* "send" | "recv" | "ret" | "done"
    mi,        \* index for send / recv loops
    failure,   \* main saw a failed result (CollectAll)
    cmd,       \* cmd[w]: a command is waiting in w's channel
    wpc,       \* worker pc
    pos,       \* position of the next callback in the sequence (1-based)
    grp,       \* group index held by w (-1 none)
    grpList,   \* the shared Vec of group indexes (popped from the end)
    res,       \* result channel of w: "none" | "ok" | "err" | "dropped"
    barCount, barGen, myGen,    \* std::sync::Barrier: arrivals in this generation, generation, generation w waits in
    prepFailed \* w's preparation panicked and was caught (BarrierOnPanic)

vars == <<par, ws, ret, panicAt, mpc, mi, failure, cmd, wpc, pos, grp, grpList, res, barCount, barGen, myGen, prepFailed>>

W == 1..N
LastPos == 2 * K + 3
\* position -> callback name
CbAt(p) == IF p = 1 THEN "prepare_thread" ELSE IF p <= K + 1 THEN "prepare_iter" ELSE IF p = K + 2 THEN "begin"
           ELSE IF p <= 2 * K + 2 THEN "iter" ELSE "end"

RECURSIVE GroupVec(_)
GroupVec(i) == IF i > N THEN <<>> ELSE <<(i - 1) \div (N \div G)>> \o GroupVec(i + 1)

Init ==
    /\ \E c \in Cfgs : AbsInit(c[1], c[3], c[2])
    /\ panicAt \in [W -> 0..LastPos]
    /\ mpc = "send" /\ mi = 1 /\ failure = FALSE
    /\ cmd = [w \in W |-> FALSE]
    /\ wpc = [w \in W |-> "idle"]
    /\ pos = [w \in W |-> 1]
    /\ grp = [w \in W |-> 0 - 1]
    /\ grpList = GroupVec(1)
    /\ res = [w \in W |-> "none"]
    /\ barCount = 0 /\ barGen = 0 /\ myGen = [w \in W |-> 0]
    /\ prepFailed = [w \in W |-> FALSE]

-----------------------------------------------------------------------------
(* main *)
UNCH_W == UNCHANGED <<panicAt, wpc, pos, grp, grpList, barCount, barGen, myGen, prepFailed, par, ws>>

MSend ==
    /\ mpc = "send"
    /\ cmd' = [cmd EXCEPT ![mi] = TRUE]
    /\ IF mi = N THEN mpc' = "recv" /\ mi' = 1 ELSE mpc' = mpc /\ mi' = mi + 1
    /\ UNCHANGED <<failure, res, ret>> /\ UNCH_W

\* result_rxs[j] pairs with the closure sent to worker N+1-j
RxOwner(j) == N + 1 - j

MRecv ==
    /\ mpc = "recv"
    /\ LET w == RxOwner(mi) IN
       /\ res[w] # "none"
       /\ IF res[w] = "ok"
          THEN /\ failure' = failure
               /\ IF mi = N THEN mpc' = "ret" /\ mi' = mi ELSE mpc' = mpc /\ mi' = mi + 1
          ELSE IF CollectAll
               THEN /\ failure' = TRUE
                    /\ IF mi = N THEN mpc' = "ret" /\ mi' = mi ELSE mpc' = mpc /\ mi' = mi + 1
               ELSE /\ failure' = TRUE          \* .expect("worker thread failed to send result") panics right here
                    /\ mpc' = "ret" /\ mi' = mi
    /\ UNCHANGED <<cmd, res, ret>> /\ UNCH_W

MRet ==
    /\ mpc = "ret"
    /\ mpc' = "done"
    /\ ret' = IF failure THEN "panic" ELSE "ok"
    /\ UNCHANGED <<mi, failure, cmd, res, panicAt, wpc, pos, grp, grpList, barCount, barGen, myGen, prepFailed, par, ws>>

-----------------------------------------------------------------------------
(* workers *)
UNCH_M == UNCHANGED <<mpc, mi, failure, ret, par, panicAt>>

\* rx.recv() returns Execute(f); f starts: group_indexes.lock().pop(), RunMeta::new, and enters prepare_thread.
\* (Steps of one worker that touch nothing shared are merged with the preceding visible step: they commute with every
\*  step of the other threads, so no interleaving that matters to the properties is lost.)
WTake(w) ==
    /\ wpc[w] = "idle" /\ cmd[w]
    /\ cmd' = [cmd EXCEPT ![w] = FALSE]
    /\ grp' = [grp EXCEPT ![w] = grpList[Len(grpList)]]
    /\ grpList' = SubSeq(grpList, 1, Len(grpList) - 1)
    /\ ws' = [ws EXCEPT ![w] = [Bump(ws[w], CbAt(1)) EXCEPT !.grp = grpList[Len(grpList)]]]
    /\ wpc' = [wpc EXCEPT ![w] = "exit"]
    /\ UNCHANGED <<pos, res, barCount, barGen, myGen, prepFailed>> /\ UNCH_M

\* what comes after the callback at position p returned normally ("send" = drop(cleanup_state), drop(thread_state),
\* result_tx.send(..): the destructors are harness code touching borrowed state, then the result is sent)
AfterPos(p) == IF p = K + 1 THEN "bar" ELSE IF p = LastPos THEN "send" ELSE "enter"

WEnter(w) ==
    /\ wpc[w] = "enter"
    /\ ws' = [ws EXCEPT ![w] = [Bump(ws[w], CbAt(pos[w])) EXCEPT !.grp = grp[w]]]
    /\ wpc' = [wpc EXCEPT ![w] = "exit"]
    /\ UNCHANGED <<cmd, pos, grp, grpList, res, barCount, barGen, myGen, prepFailed>> /\ UNCH_M

\* The callback returns or panics.  A panic unwinds the task closure (locals dropped = touches) and then is either
\* caught by the worker closure (CollectAll: Err(payload) is sent, the worker lives on) or kills the worker thread (its
\* result sender is dropped).  With BarrierOnPanic a panic during preparation is caught first, the thread goes to the
\* barrier, and re-raises after it.
WExit(w) ==
    /\ wpc[w] = "exit"
    /\ LET p == pos[w]
           pan == panicAt[w] = p
           viaBarrier == pan /\ p <= K + 1 /\ BarrierOnPanic
           dies == pan /\ ~viaBarrier
       IN /\ ws' = [ws EXCEPT ![w] = [@ EXCEPT !.in = "-", !.failed = pan]]
          /\ pos' = [pos EXCEPT ![w] = p + 1]
          /\ prepFailed' = [prepFailed EXCEPT ![w] = viaBarrier]
          /\ wpc' = [wpc EXCEPT ![w] = IF viaBarrier THEN "bar" ELSE IF dies THEN (IF CollectAll THEN "idle" ELSE "dead")
                                       ELSE AfterPos(p)]
          /\ res' = [res EXCEPT ![w] = IF dies THEN (IF CollectAll THEN "err" ELSE "dropped") ELSE @]
    /\ UNCHANGED <<cmd, grp, grpList, barCount, barGen, myGen>> /\ UNCH_M

AfterBarrier(w) == IF prepFailed[w] THEN (IF CollectAll THEN "idle" ELSE "dead") ELSE "enter"
ResAfterBarrier(w) == IF prepFailed[w] THEN [res EXCEPT ![w] = IF CollectAll THEN "err" ELSE "dropped"] ELSE res

WBarArrive(w) ==
    /\ wpc[w] = "bar"
    /\ IF barCount + 1 >= BarrierSize
       THEN /\ barCount' = 0 /\ barGen' = barGen + 1          \* leader: releases this generation
            /\ wpc' = [wpc EXCEPT ![w] = AfterBarrier(w)]
            /\ res' = ResAfterBarrier(w)
            /\ myGen' = myGen
       ELSE /\ barCount' = barCount + 1 /\ barGen' = barGen
            /\ myGen' = [myGen EXCEPT ![w] = barGen]
            /\ wpc' = [wpc EXCEPT ![w] = "barwait"]
            /\ res' = res
    /\ UNCHANGED <<cmd, pos, grp, grpList, prepFailed, ws>> /\ UNCH_M

WBarLeave(w) ==
    /\ wpc[w] = "barwait"
    /\ barGen # myGen[w]
    /\ wpc' = [wpc EXCEPT ![w] = AfterBarrier(w)]
    /\ res' = ResAfterBarrier(w)
    /\ UNCHANGED <<cmd, pos, grp, grpList, barCount, barGen, myGen, prepFailed, ws>> /\ UNCH_M

WSend(w) ==
    /\ wpc[w] = "send"
    /\ res' = [res EXCEPT ![w] = "ok"]
    /\ wpc' = [wpc EXCEPT ![w] = "idle"]
    /\ UNCHANGED <<cmd, pos, grp, grpList, barCount, barGen, myGen, prepFailed, ws>> /\ UNCH_M

WorkerStep(w) == WTake(w) \/ WEnter(w) \/ WExit(w) \/ WBarArrive(w) \/ WBarLeave(w) \/ WSend(w)
MainStep == MSend \/ MRecv \/ MRet

\* terminal stuttering, so that with CHECK_DEADLOCK TRUE every other state without a successor is reported (the graph is
\* acyclic: absence of such states is termination)
Finished == mpc = "done" /\ (\A w \in W : wpc[w] \in {"idle", "dead"} /\ ~cmd[w]) /\ UNCHANGED vars

Next == MainStep \/ (\E w \in W : WorkerStep(w)) \/ Finished

Spec == Init /\ [][Next]_vars
\* (the quantifier of a fairness condition must range over a constant set: 4 bounds every n in Cfgs)
FairSpec == Spec /\ WF_vars(MainStep) /\ \A w \in 1..4 : WF_vars(w \in W /\ WorkerStep(w))

-----------------------------------------------------------------------------
TypeOK ==
    /\ mpc \in {"send", "recv", "ret", "done"}
    /\ \A w \in W : wpc[w] \in {"idle", "enter", "exit", "bar", "barwait", "send", "dead"}
    /\ ret \in {"no", "ok", "panic"}

\* The judge, step by step.  Every disjunct of JudgeStep is an instance of a disjunct of AbsNext, so
\* [][JudgeStep]_vars implies [][AbsNext]_absvars; it names the judge action an explorer action must be, which is much
\* cheaper for TLC than searching AbsNext's quantifiers at every transition.
JudgeStep ==
    \/ UNCHANGED absvars
    \/ \E w \in W : wpc[w] = "idle" /\ wpc'[w] = "exit" /\ Enter(w, "prepare_thread", grp'[w], FALSE)
    \/ \E w \in W : wpc[w] = "enter" /\ wpc'[w] = "exit" /\ Enter(w, CbAt(pos[w]), grp[w], FALSE)
    \/ \E w \in W : wpc[w] = "exit" /\ wpc'[w] # "exit" /\ Exit(w, ws[w].in, ws'[w].failed, FALSE)
    \/ mpc = "ret" /\ mpc' = "done" /\ Return(ret', N)
JudgeAccepts == [][JudgeStep]_vars
JudgeAcceptsSlow == [][AbsNext]_absvars

\* (5) restated on the explorer's own program counters: after main left, no worker is in or before a callback/touch
InOrBeforeAccess(w) == wpc[w] \in {"enter", "exit", "send"} \/ (wpc[w] = "idle" /\ cmd[w])
                       \/ (wpc[w] = "bar" /\ ~prepFailed[w] /\ barCount + 1 >= BarrierSize)
                       \/ (wpc[w] = "barwait" /\ ~prepFailed[w] /\ barGen # myGen[w])
NoLateWorker == mpc = "done" => \A w \in W : ~InOrBeforeAccess(w)

\* beyond the text of C17 (which promises no termination when a callback panics): with both repairs every run returns
Terminates == <>(mpc = "done")
Healthy == \A w \in W : panicAt[w] = 0
HealthyOk == (mpc = "done" /\ Healthy) => ret = "ok"
=============================================================================
