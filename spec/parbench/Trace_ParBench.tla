------------------------------ MODULE Trace_ParBench ------------------------------
(* Judges the ndjson recorded by h_parbench from the real par_bench with ParBenchAbs.
   One file holds many runs separated by {"ev":"reset"}; a rejected record is reported (REJECT, with the run header)
   and the rest of that run is skipped, so every offending run in the file is listed.                            *)
EXTENDS ParBenchAbs, TraceLib

VARIABLES l, bad, hdr

tvars == <<l, bad, hdr, par, ws, ret>>

NoRun == [n |-> 0, g |-> 1, k |-> 0]

TraceInit ==
    /\ l = 1 /\ bad = FALSE /\ hdr = 0
    /\ par = NoRun /\ ws = <<>> /\ ret = "none"

Ok(r) ==
    CASE r.ev = "enter" -> EnterOk(r.w, r.cb, r.grp, r.late)
      [] r.ev = "exit"  -> ExitOk(r.w, r.cb, r.late)
      [] r.ev = "touch" -> TouchOk(r.w, r.late)
      [] r.ev = "ret"   -> IF r.kind = "hung" THEN HungOk ELSE ReturnOk(r.kind, r.outs)
      [] r.ev = "run"   -> ret = "none" /\ r.n >= 1 /\ r.g >= 1 /\ r.n % r.g = 0
      [] r.ev \in {"reset", "quiet", "aborted"} -> TRUE
      [] OTHER -> FALSE

Apply(r) ==
    CASE r.ev = "enter" -> Enter(r.w, r.cb, r.grp, r.late)
      [] r.ev = "exit"  -> Exit(r.w, r.cb, r.panic, r.late)
      [] r.ev = "ret"   -> IF r.kind = "hung" THEN Hung ELSE Return(r.kind, r.outs)
      [] r.ev = "run"   -> AbsStart(r.n, r.g, r.k)
      [] r.ev = "reset" -> par' = NoRun /\ ws' = <<>> /\ ret' = "none"
      [] OTHER -> UNCHANGED <<par, ws, ret>>

TraceNext ==
    /\ l <= NRec
    /\ l' = l + 1
    /\ LET r == Rec[l] IN
       IF r.ev = "reset" THEN bad' = FALSE /\ hdr' = hdr /\ Apply(r)
       ELSE IF bad THEN UNCHANGED <<bad, hdr, par, ws, ret>>
       ELSE IF Ok(r) THEN /\ Apply(r) /\ bad' = FALSE
                          /\ hdr' = IF r.ev = "run" THEN l ELSE hdr
       ELSE /\ PrintT(<<"REJECT", ToJson([line |-> l, rec |-> r, run |-> IF hdr > 0 THEN Rec[hdr] ELSE r])>>)
            /\ bad' = TRUE
            /\ UNCHANGED <<hdr, par, ws, ret>>

TraceSpec == TraceInit /\ [][TraceNext]_tvars
=============================================================================
