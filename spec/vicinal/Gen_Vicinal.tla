---- MODULE Gen_Vicinal ----
EXTENDS MC_Vicinal
\* ---- generators: `hist` = the labels of the behaviour so far; hidden from the fingerprint (GenView)
VARIABLE hist
GenInit == Init /\ hist = <<>>
GenNext == Next /\ hist' = Append(hist, step')
GenView == View
Terminal == (\A s \in Spawners : spc[s] = "call" /\ ~HasTask(s)) /\ dpc \in {"done", "never"}
\* -simulate: one complete behaviour per walk
PrintTerminal == Terminal => PrintT(<<"BEHAVIOUR", ToJson(hist)>>)
\* breadth-first: the first behaviour that reaches a named situation (printed, then TLC stops on the "violation")
Witness(name, reached) == reached => (PrintT(<<"WITNESS", name, ToJson(hist)>>) /\ FALSE)
\* Named situations (forced orderings).  All are reachable on the fixed and on the unfixed tree; what happens *after* them
\* is what differs.  The harness follows the witness and then runs the scenario to its end under a seeded random schedule.
SituationDefs ==
    [s8b_window        |-> \E s \in Spawners : spc[s] = "ens.lock" /\ shutdown /\ ~flag[P(s)] /\ ~WillSignal(P(s)),
     s8b_window_lockfirst |-> \E s \in Spawners : spc[s] = "ens.join" /\ dpc = "d.take",
     s8a_late          |-> \E s \in Late : spc[s] = "sp.state" /\ dropSt = "done",
     s8a_racing        |-> \E s \in Spawners \ Late : spc[s] = "sp.state" /\ shutdown,
     s8a_racing_done   |-> \E s \in Spawners \ Late : spc[s] = "sp.state" /\ dropSt = "done",
     recheck_arm       |-> \E s \in Spawners : spc[s] = "ens.lock" /\ shutdown /\ flag[P(s)],
     take_blocked      |-> dpc = "d.take" /\ hlock # <<>>,
     queued_at_join    |-> \E t \in Tasks : Queued(t) /\ dpc \in {"d.take", "d.join"},
     running_at_join   |-> \E w \in W : wpc[w] = "w.run" /\ dpc = "d.join",
     woken_by_spawn    |-> \E w \in W : wpc[w] = "w.wait" /\ lst[w] = "notified" /\ ~flag[w[1]],
     woken_by_shutdown |-> \E w \in W : wpc[w] = "w.wait" /\ lst[w] = "notified" /\ flag[w[1]],
     recheck_finds     |-> \E w \in W : wpc[w] = "w.re_u" /\ lst[w] = "reg" /\ QNonEmpty(w[1]),
     recheck_shutdown  |-> \E w \in W : wpc[w] = "w.re_u" /\ lst[w] = "reg" /\ flag[w[1]],
     notify_before_listen |-> \E w \in W : wpc[w] = "w.listen" /\ QNonEmpty(w[1]),
     urgent_first      |-> \E p \in Procs : qU[p] # <<>> /\ qR[p] # <<>> /\ \E w \in WorkersOf(p) : wpc[w] = "w.pop_u",
     push_before_worker |-> \E p \in Procs : QNonEmpty(p) /\ \A w \in WorkersOf(p) : wpc[w] \in {"unborn", "w.start"},
     two_first_spawns  |-> \E s1 \in Spawners, s2 \in Spawners : s1 # s2 /\ P(s1) = P(s2) /\ spc[s1] = "ens.state" /\ spc[s2] = "ens.state",
     both_asleep       |-> \E p \in Procs : \A w \in WorkersOf(p) : wpc[w] = "w.wait" /\ lst[w] = "reg",
     \* two spawns while every worker sleeps (two workers): does the second spawn wake the second worker?
     second_spawn_all_asleep |-> WPP >= 2 /\ \E s \in Spawners : spc[s] = "sp.notify" /\ sidx[s] >= 2 /\ Len(qU[P(s)]) + Len(qR[P(s)]) >= 2
                                 /\ \A w \in WorkersOf(P(s)) : wpc[w] = "w.wait",
     \* (unreachable when every spawn wakes one more sleeper) a worker sleeps un-notified next to queued work while the others are busy
     idle_worker_sleeps_on_work |-> ~NoIdleLost]

\* one breadth-first run, every situation printed the first time it is reached (per TLC worker); stops when all were seen
ASSUME TLCSet(1, {})
WitnessAll ==
    LET found == TLCGet(1)
        new == {n \in DOMAIN SituationDefs : n \notin found /\ SituationDefs[n]}
    IN IF new = {} THEN TRUE
       ELSE /\ \A n \in new : PrintT(<<"WITNESS", n, ToJson(hist)>>)
            /\ TLCSet(1, found \cup new)
            /\ (found \cup new) # DOMAIN SituationDefs
DepthBound == Len(hist) < atoi(IOEnv.GENDEPTH)
====
