---- MODULE MC_Vicinal ----
EXTENDS Vicinal, Json, IOUtils
\* ---- bounds.  SProc: spawner -> processor, STasks: spawner -> its tasks in order
\* full bound of the design: 2 processors, 1 worker each, 2 spawners x 2 tasks, drop at any point, one late scheduler
ProcsTwo == {1, 2}
WTwo == ProcsTwo \X {1}
TasksFull == 1..5
SpThree == {1, 2, 3}
SProcFull == (1 :> 1) @@ (2 :> 2) @@ (3 :> 1)
STasksFull == (1 :> <<1, 2>>) @@ (2 :> <<3, 4>>) @@ (3 :> <<5>>)
LateThree == {3}
UrgentFull == {2, 3}
PanicFull == {4}
\* both early spawners on one processor (contention on one state), the late scheduler on the other processor
SProcSame == (1 :> 1) @@ (2 :> 1) @@ (3 :> 2)
\* quick bound: 2 processors, spawners with 2 and 1 tasks, one late scheduler
TasksQ == 1..4
STasksQ == (1 :> <<1, 2>>) @@ (2 :> <<3>>) @@ (3 :> <<4>>)
UrgentQ == {2}
PanicQ == {3}
\* one processor with two workers (a notification handed over between listeners)
ProcsOne == {1}
WOneTwo == ProcsOne \X {1, 2}
SProcOne == (1 :> 1) @@ (2 :> 1) @@ (3 :> 1)
None == {}
WOneOne == ProcsOne \X {1}
SpTwo == {1, 2}
\* small bound for liveness: one processor, spawner 1 with two tasks, spawner 2 late with one task
TasksS == 1..3
SProcS == (1 :> 1) @@ (2 :> 1)
STasksS == (1 :> <<1, 2>>) @@ (2 :> <<3>>)
LateS == {2}
UrgentS == {2}
PanicS == {1}
\* no task waits for another one
GateNone == [t \in Tasks |-> 0]
\* bound G: one processor, TWO workers, one spawner with two tasks, the body of task 1 waits until task 2 has run
TasksG == 1..2
SpOne == {1}
SProcG == (1 :> 1)
STasksG == (1 :> <<1, 2>>)
GateG == (1 :> 2) @@ (2 :> 0)

====
