CONSTANTS Tasks <- TasksDef  Procs <- ProcsDef  WorkerIds <- WorkersDef
SPECIFICATION TraceSpec
POSTCONDITION Accepted
CHECK_DEADLOCK FALSE
