------------------------------ MODULE Vicinal ------------------------------
(* Explorer for C14: mirrors packages/vicinal/src/{pool,scheduler,worker,processor_state,processor_registry}.rs, one
   action per scheduling point of hook H7 (vicinal/src/verif.rs).  The label of an action (variable `step`, hidden from
   the fingerprint by VIEW) is <<thread, name of the hook point the thread was parked at>>, so a TLC behaviour is
   directly a script for vrt::sched.

   Granularity.  H7 offers a hook point before every shared-memory operation; the harness turns the ones listed below
   into scheduling points and lets the thread run through the others, so one action here = the code between two
   scheduling points = one step of the deterministic scheduler.  Merged (deliberately, to keep the state space at the
   design's bound): get_or_init + the CAS on workers_spawned; get_or_init + queue push in spawn_internal; the two pops
   of run_one_iteration; the three re-checks after listener registration; flag store + notify in signal_shutdown; the
   harness' own "call"/"drop" records with the first load/store of the call.  None of the merged pairs has a write
   to shared state between them that another thread's decision could depend on differently (argued per pair in
   DESIGN section 6 C14); the free-running runs on real hardware exercise the unmerged code.

   Threads (labels = name of the hook point the thread is parked at)
     spawner s (harness thread pinned to processor SProc[s]; spawns the tasks STasks[s] in order; a spawner in Late
                holds a scheduler that outlives the pool: it only starts once drop(pool) returned)
         call        harness record + ensure_workers_spawned: shutdown.load()          -> sp.state if set
         ens.state   registry.get_or_init(p) (OnceLock: creates the state) + workers_spawned CAS  -> sp.state if it was set
         ens.spawn   thread::Builder::spawn x WPP                                      (the workers start running)
         ens.lock    worker_handles.lock(); re-check shutdown: extend the list and unlock, or (re-check arm) keep
                     the lock, [FixSignal: state.signal_shutdown()] and ens.join each new worker, then unlock
         sp.state    spawn_internal: registry.get_or_init(p); queue.lock(); [FixEnqueue: if shutdown { drop the
                     task: its handle resolves "abandoned"; return }] push_back; unlock
         sp.notify   wake_event.notify(1)
     worker <<p,i>>
         w.start     pin, registry.get_or_init(p), WorkerCore::new
         w.check     run_one_iteration: shutdown_flag.load()                           -> thread exits if set
         w.pop_u     urgent.lock().pop_front(), else regular.lock().pop_front()
         w.run       task.call(): body runs, result (value or captured panic) sent
         w.listen    listener!(wake_event)            LISTENER REGISTRATION BEFORE THE RE-CHECK (ListenFirst)
         w.re_u      re-check urgent, regular, shutdown_flag                           -> drop the listener, w.check
         w.wait      listener.wait()   (enabled once notified)
     dropper  (drop(pool) = join_all_workers)
         d.begin     harness record + shutdown.store(true)
         d.get       signal_shutdown_all: states[slot].get(); if it exists *now*: shutdown_flag.store(true), notify(MAX)
         d.take      mem::take(worker_handles.lock())
         d.join      handle.join()  (enabled once that worker exited)
         d.drain     [FixDrain] take and drop everything still queued in the existing states ("abandoned")
                     (+ harness record that drop returned, with whichever of take/join/drain is the last step)

   event-listener semantics (5.4, std): notify(n) makes sure n listeners are in the notified state (a listener that
   was notified but has not consumed it yet counts); dropping a notified listener passes the notification on.  Which
   registered listener is chosen is left open here (the crate takes the oldest).

   Code-dependent switches (the check reads them from the source so that the explorer mirrors the tree it runs against):
     FixEnqueue  spawn_internal checks `shutdown` under the queue lock and drops the task instead of queueing it
     FixDrain    join_all_workers drops what is still queued after joining the workers
     FixSignal   the re-check arm of ensure_workers_spawned signals the processor state before joining
     ListenFirst the worker registers its listener before re-checking (FALSE = a seeded mutation)
     NotifyAdditional  spawn_internal wakes with notify_additional(1) (FALSE = notify(1): finding S16)

   Schedulers are never dropped in this model (the worst case the property quantifies over: "awaiting any join handle"
   must terminate while the scheduler that produced it is still alive), so queued tasks are dropped only by the code. *)
EXTENDS VicinalAbs, TLC

CONSTANTS WPP,          \* workers per processor
          Spawners,     \* spawner ids (naturals)
          SProc,        \* [Spawners -> Procs]
          STasks,       \* [Spawners -> Seq(Tasks)]
          Late,         \* subset of Spawners
          UrgentTasks,  \* subset of Tasks
          PanicTasks,   \* subset of Tasks: bodies that panic
          WithDrop,     \* the pool is dropped at an arbitrary moment (or never); FALSE: never
          FixEnqueue, FixDrain, FixSignal, ListenFirst,
          NotifyAdditional,   \* spawn wakes one MORE sleeping worker (Event::notify_additional(1)); FALSE: Event::notify(1),
                              \* which does nothing while an earlier notification has not been consumed yet
          Gate,         \* [Tasks -> Tasks \cup {0}]: the body of task t does not return before task Gate[t] has run (0: no gate)
          Labels        \* TRUE only in generator runs: `step` then carries the label of the action (else constant)

Lab(x) == IF Labels THEN x ELSE <<>>
W == Procs \X (1..WPP)
ASSUME WorkerIds = W
MaxProc == CHOOSE p \in Procs : \A q \in Procs : q <= p
MinProc == CHOOSE p \in Procs : \A q \in Procs : q >= p

VARIABLES
    shutdown,     \* PoolInner::shutdown
    exists,       \* exists[p]: registry slot p is initialised
    flag,         \* ProcessorState::shutdown_flag
    wspawned,     \* ProcessorState::workers_spawned
    qU, qR,       \* urgent / regular queue of p (sequences of task ids)
    lst,          \* lst[w] \in {"none", "reg", "notified"}: w's listener on its processor's wake event
    hlock,        \* owner of the worker_handles mutex: <<>> = free
    handles,      \* worker_handles (sequence of worker ids)
    spc, sidx,    \* spawner pc, index of the task being spawned
    snew,         \* snew[s]: handles of the workers s just spawned (sequence), not yet stored / joined
    wpc, wtask,   \* worker pc, task popped
    dpc, dslot, dtaken,
    res,          \* res[t]: content of the result channel: "pending" | "value" | "panic" | "abandoned"
    step          \* label of the last action

ivars == <<shutdown, exists, flag, wspawned, qU, qR, lst, hlock, handles, spc, sidx, snew, wpc, wtask, dpc, dslot, dtaken, res>>
vars == <<ivars, absvars, step>>
View == <<ivars, absvars>>

TaskOf(s) == STasks[s][sidx[s]]
HasTask(s) == sidx[s] <= Len(STasks[s])
P(s) == SProc[s]
WorkersOf(p) == {w \in W : w[1] = p}
RECURSIVE WorkerSeq(_, _)
WorkerSeq(p, i) == IF i > WPP THEN <<>> ELSE <<<<p, i>>>> \o WorkerSeq(p, i + 1)

Init ==
    /\ AbsInit
    /\ shutdown = FALSE
    /\ exists = [p \in Procs |-> FALSE]
    /\ flag = [p \in Procs |-> FALSE]
    /\ wspawned = [p \in Procs |-> FALSE]
    /\ qU = [p \in Procs |-> <<>>] /\ qR = [p \in Procs |-> <<>>]
    /\ lst = [w \in W |-> "none"]
    /\ hlock = <<>> /\ handles = <<>>
    /\ spc = [s \in Spawners |-> "call"] /\ sidx = [s \in Spawners |-> 1]
    /\ snew = [s \in Spawners |-> <<>>]
    /\ wpc = [w \in W |-> "unborn"] /\ wtask = [w \in W |-> 0]
    /\ dpc = (IF WithDrop THEN "d.begin" ELSE "never")
    /\ dslot = MinProc /\ dtaken = <<>>
    /\ res = [t \in Tasks |-> "pending"]
    /\ step = <<>>

-----------------------------------------------------------------------------
(* wake event *)
Notified(p) == {w \in WorkersOf(p) : lst[w] = "notified"}
Registered(p) == {w \in WorkersOf(p) : lst[w] = "reg"}

\* notify(1): nothing to do if a listener is already notified (or none is registered); else one registered listener
NotifyOne(p, l) ==
    IF Registered(p) = {} \/ (~NotifyAdditional /\ Notified(p) # {}) THEN {l}
    ELSE {[l EXCEPT ![v] = "notified"] : v \in Registered(p)}
NotifyAll(p, l) == [w \in W |-> IF w \in Registered(p) THEN "notified" ELSE l[w]]
\* the listener of w goes away (dropped on `continue`, or consumed by wait()); a notified one is passed on when dropped
DropListener(w) ==
    LET l1 == [lst EXCEPT ![w] = "none"] IN
    IF lst[w] = "notified"
    THEN LET regs == {v \in WorkersOf(w[1]) : l1[v] = "reg"} IN
         IF regs = {} THEN {l1} ELSE {[l1 EXCEPT ![v] = "notified"] : v \in regs}
    ELSE {l1}

-----------------------------------------------------------------------------
(* spawners *)
UNCH_S == UNCHANGED <<wtask, dpc, dslot, dtaken>>
UNCH_ABS_BUT_CALL == UNCHANGED <<runs, ranOn, outcome, alive, wproc, oldw, dropSt>>

SCall(s) ==
    /\ spc[s] = "call" /\ HasTask(s)
    /\ s \in Late => dropSt = "done"
    /\ called' = [called EXCEPT ![TaskOf(s)] = TRUE]
    /\ aproc' = [aproc EXCEPT ![TaskOf(s)] = P(s)]
    /\ hasH' = hasH
    /\ pans' = [pans EXCEPT ![TaskOf(s)] = TaskOf(s) \in PanicTasks]
    /\ spc' = [spc EXCEPT ![s] = IF shutdown THEN "sp.state" ELSE "ens.state"]
    /\ step' = Lab(<<"s", s, "call">>)
    /\ UNCHANGED <<shutdown, exists, flag, wspawned, qU, qR, lst, hlock, handles, sidx, snew, wpc, res>>
    /\ UNCH_S /\ UNCH_ABS_BUT_CALL

SEnsState(s) ==
    /\ spc[s] = "ens.state"
    /\ exists' = [exists EXCEPT ![P(s)] = TRUE]
    /\ wspawned' = [wspawned EXCEPT ![P(s)] = TRUE]
    /\ spc' = [spc EXCEPT ![s] = IF wspawned[P(s)] THEN "sp.state" ELSE "ens.spawn"]
    /\ step' = Lab(<<"s", s, "ens.state">>)
    /\ UNCHANGED <<shutdown, flag, qU, qR, lst, hlock, handles, sidx, snew, wpc, res>>
    /\ UNCH_S /\ UNCHANGED absvars

SEnsSpawn(s) ==
    /\ spc[s] = "ens.spawn"
    /\ wpc' = [w \in W |-> IF w[1] = P(s) THEN "w.start" ELSE wpc[w]]
    /\ snew' = [snew EXCEPT ![s] = WorkerSeq(P(s), 1)]
    /\ spc' = [spc EXCEPT ![s] = "ens.lock"]
    /\ step' = Lab(<<"s", s, "ens.spawn">>)
    /\ UNCHANGED <<shutdown, exists, flag, wspawned, qU, qR, lst, hlock, handles, sidx, res>>
    /\ UNCH_S /\ UNCHANGED absvars

SEnsLock(s) ==
    /\ spc[s] = "ens.lock"
    /\ hlock = <<>>
    /\ IF shutdown
       THEN /\ hlock' = <<"s", s>>                                   \* re-check arm: the lock is held while joining
            /\ spc' = [spc EXCEPT ![s] = "ens.join"]
            /\ IF FixSignal THEN flag' = [flag EXCEPT ![P(s)] = TRUE] /\ lst' = NotifyAll(P(s), lst)   \* state.signal_shutdown()
                            ELSE UNCHANGED <<flag, lst>>
            /\ UNCHANGED <<handles, snew>>
       ELSE /\ handles' = handles \o snew[s]
            /\ snew' = [snew EXCEPT ![s] = <<>>]
            /\ spc' = [spc EXCEPT ![s] = "sp.state"]
            /\ UNCHANGED <<hlock, flag, lst>>
    /\ step' = Lab(<<"s", s, "ens.lock">>)
    /\ UNCHANGED <<shutdown, exists, wspawned, qU, qR, sidx, wpc, res>>
    /\ UNCH_S /\ UNCHANGED absvars

SEnsJoin(s) ==
    /\ spc[s] = "ens.join"
    /\ wpc[Head(snew[s])] = "done"
    /\ snew' = [snew EXCEPT ![s] = Tail(@)]
    /\ IF Len(snew[s]) = 1
       THEN hlock' = <<>> /\ spc' = [spc EXCEPT ![s] = "sp.state"]
       ELSE hlock' = hlock /\ spc' = spc
    /\ step' = Lab(<<"s", s, "ens.join">>)
    /\ UNCHANGED <<shutdown, exists, flag, wspawned, qU, qR, lst, handles, sidx, wpc, res>>
    /\ UNCH_S /\ UNCHANGED absvars

SSpPush(s) ==
    /\ spc[s] = "sp.state"
    /\ exists' = [exists EXCEPT ![P(s)] = TRUE]
    /\ LET t == TaskOf(s) p == P(s) IN
       IF FixEnqueue /\ shutdown
       THEN /\ res' = [res EXCEPT ![t] = "abandoned"]               \* the task (and its result sender) is dropped
            /\ sidx' = [sidx EXCEPT ![s] = @ + 1]
            /\ spc' = [spc EXCEPT ![s] = "call"]
            /\ UNCHANGED <<qU, qR>>
       ELSE /\ IF t \in UrgentTasks THEN qU' = [qU EXCEPT ![p] = Append(@, t)] /\ qR' = qR
                                    ELSE qR' = [qR EXCEPT ![p] = Append(@, t)] /\ qU' = qU
            /\ spc' = [spc EXCEPT ![s] = "sp.notify"]
            /\ UNCHANGED <<res, sidx>>
    /\ step' = Lab(<<"s", s, "sp.state">>)
    /\ UNCHANGED <<shutdown, flag, wspawned, lst, hlock, handles, snew, wpc>>
    /\ UNCH_S /\ UNCHANGED absvars

SSpNotify(s) ==
    /\ spc[s] = "sp.notify"
    /\ lst' \in NotifyOne(P(s), lst)
    /\ sidx' = [sidx EXCEPT ![s] = @ + 1]
    /\ spc' = [spc EXCEPT ![s] = "call"]
    /\ step' = Lab(<<"s", s, "sp.notify">>)
    /\ UNCHANGED <<shutdown, exists, flag, wspawned, qU, qR, hlock, handles, snew, wpc, res>>
    /\ UNCH_S /\ UNCHANGED absvars

SpawnerStep(s) == SCall(s) \/ SEnsState(s) \/ SEnsSpawn(s) \/ SEnsLock(s) \/ SEnsJoin(s) \/ SSpPush(s) \/ SSpNotify(s)

-----------------------------------------------------------------------------
(* workers *)
UNCH_W == UNCHANGED <<shutdown, exists, flag, wspawned, hlock, handles, spc, sidx, snew, dpc, dslot, dtaken>>
ToPc(w, pc) == wpc' = [wpc EXCEPT ![w] = pc]
QNonEmptyW(w) == qU[w[1]] # <<>> \/ qR[w[1]] # <<>>
WLabel(w, op) == step' = Lab(<<"w", w[1], w[2], op>>)

WStartA(w) ==
    /\ wpc[w] = "w.start"
    /\ ToPc(w, "w.check")
    /\ alive' = alive \cup {w} /\ wproc' = [wproc EXCEPT ![w] = w[1]]
    /\ WLabel(w, "w.start")
    /\ UNCHANGED <<qU, qR, lst, wtask, res, called, aproc, hasH, pans, runs, ranOn, outcome, oldw, dropSt>> /\ UNCH_W

WCheck(w) ==
    /\ wpc[w] = "w.check"
    /\ IF flag[w[1]]
       THEN ToPc(w, "done") /\ alive' = alive \ {w}                  \* worker_loop returns, the thread ends
       ELSE ToPc(w, "w.pop_u") /\ alive' = alive
    /\ WLabel(w, "w.check")
    /\ UNCHANGED <<qU, qR, lst, wtask, res, called, aproc, hasH, pans, runs, ranOn, outcome, wproc, oldw, dropSt>> /\ UNCH_W

WPop(w) ==
    /\ wpc[w] = "w.pop_u"
    /\ LET p == w[1] IN
       IF qU[p] # <<>>
       THEN wtask' = [wtask EXCEPT ![w] = Head(qU[p])] /\ qU' = [qU EXCEPT ![p] = Tail(@)] /\ qR' = qR /\ ToPc(w, "w.run")
       ELSE IF qR[p] # <<>>
       THEN wtask' = [wtask EXCEPT ![w] = Head(qR[p])] /\ qR' = [qR EXCEPT ![p] = Tail(@)] /\ qU' = qU /\ ToPc(w, "w.run")
       ELSE UNCHANGED <<wtask, qU, qR>> /\ ToPc(w, IF ListenFirst THEN "w.listen" ELSE "w.re_u")
    /\ WLabel(w, "w.pop_u")
    /\ UNCHANGED <<lst, res>> /\ UNCH_W /\ UNCHANGED absvars

GateOpen(t) == IF t = 0 THEN TRUE ELSE IF Gate[t] = 0 THEN TRUE ELSE runs[Gate[t]] > 0
WRun(w) ==
    /\ wpc[w] = "w.run"
    /\ GateOpen(wtask[w])                                      \* a gated body blocks its worker until the other task ran
    /\ LET t == wtask[w] IN
       /\ runs' = [runs EXCEPT ![t] = @ + 1]
       /\ ranOn' = [ranOn EXCEPT ![t] = w[1]]
       /\ res' = [res EXCEPT ![t] = IF t \in PanicTasks THEN "panic" ELSE "value"]
    /\ wtask' = [wtask EXCEPT ![w] = 0]
    /\ ToPc(w, "w.check")
    /\ WLabel(w, "w.run")
    /\ UNCHANGED <<qU, qR, lst, called, aproc, hasH, pans, outcome, alive, wproc, oldw, dropSt>> /\ UNCH_W

WListen(w) ==
    /\ wpc[w] = "w.listen"
    /\ lst' = [lst EXCEPT ![w] = "reg"]
    /\ ToPc(w, IF ListenFirst THEN "w.re_u" ELSE "w.wait")
    /\ WLabel(w, "w.listen")
    /\ UNCHANGED <<qU, qR, wtask, res>> /\ UNCH_W /\ UNCHANGED absvars

\* re-check after registering: work queued or shutdown signalled -> `continue` (the listener, if any, is dropped)
WRecheck(w) ==
    /\ wpc[w] = "w.re_u"
    /\ IF QNonEmptyW(w) \/ flag[w[1]]
       THEN lst' \in DropListener(w) /\ ToPc(w, "w.check")
       ELSE lst' = lst /\ ToPc(w, IF ListenFirst THEN "w.wait" ELSE "w.listen")
    /\ WLabel(w, "w.re_u")
    /\ UNCHANGED <<qU, qR, wtask, res>> /\ UNCH_W /\ UNCHANGED absvars

WWait(w) ==
    /\ wpc[w] = "w.wait"
    /\ lst[w] = "notified"
    /\ lst' = [lst EXCEPT ![w] = "none"]
    /\ ToPc(w, "w.check")
    /\ WLabel(w, "w.wait")
    /\ UNCHANGED <<qU, qR, wtask, res>> /\ UNCH_W /\ UNCHANGED absvars

WorkerStep(w) == WStartA(w) \/ WCheck(w) \/ WPop(w) \/ WRun(w) \/ WListen(w) \/ WRecheck(w) \/ WWait(w)

-----------------------------------------------------------------------------
(* dropper *)
UNCH_D == UNCHANGED <<exists, wspawned, spc, sidx, snew, wpc, wtask>>
DLabel(op) == step' = Lab(<<"d", op>>)
NextSlot(after) ==
    IF dslot = MaxProc THEN dpc' = after /\ dslot' = MinProc
    ELSE dpc' = dpc /\ dslot' = dslot + 1

\* the step after which drop(pool) returns also carries the harness record "drop returned"
Finish(nextpc) == IF nextpc = "done" THEN dropSt' = "done" ELSE dropSt' = dropSt
AfterJoin == IF FixDrain THEN "d.drain" ELSE "done"
UNCH_ABS_BUT_DROP == UNCHANGED <<called, aproc, hasH, pans, runs, ranOn, outcome, alive, wproc, oldw>>

DBegin ==
    /\ dpc = "d.begin"
    /\ shutdown' = TRUE
    /\ dpc' = "d.get" /\ dslot' = MinProc
    /\ dropSt' = "started" /\ oldw' = alive
    /\ DLabel("d.begin")
    /\ UNCHANGED <<flag, qU, qR, lst, hlock, handles, dtaken, res>> /\ UNCH_D
    /\ UNCHANGED <<called, aproc, hasH, pans, runs, ranOn, outcome, alive, wproc>>

DGet ==
    /\ dpc = "d.get"
    /\ IF exists[dslot] THEN flag' = [flag EXCEPT ![dslot] = TRUE] /\ lst' = NotifyAll(dslot, lst)
                        ELSE UNCHANGED <<flag, lst>>
    /\ NextSlot("d.take")
    /\ DLabel("d.get")
    /\ UNCHANGED <<shutdown, qU, qR, hlock, handles, dtaken, res>> /\ UNCH_D /\ UNCHANGED absvars

DTake ==
    /\ dpc = "d.take"
    /\ hlock = <<>>
    /\ dtaken' = handles /\ handles' = <<>>
    /\ LET nx == IF handles = <<>> THEN AfterJoin ELSE "d.join" IN dpc' = nx /\ Finish(nx)
    /\ DLabel("d.take")
    /\ UNCHANGED <<shutdown, flag, qU, qR, lst, hlock, dslot, res>> /\ UNCH_D /\ UNCH_ABS_BUT_DROP

DJoin ==
    /\ dpc = "d.join"
    /\ wpc[Head(dtaken)] = "done"
    /\ dtaken' = Tail(dtaken)
    /\ LET nx == IF Len(dtaken) = 1 THEN AfterJoin ELSE dpc IN dpc' = nx /\ Finish(nx)
    /\ DLabel("d.join")
    /\ UNCHANGED <<shutdown, flag, qU, qR, lst, hlock, handles, dslot, res>> /\ UNCH_D /\ UNCH_ABS_BUT_DROP

RECURSIVE SeqToSet(_)
SeqToSet(q) == IF q = <<>> THEN {} ELSE {Head(q)} \cup SeqToSet(Tail(q))
QueuedIn(p) == SeqToSet(qU[p]) \cup SeqToSet(qR[p])

DDrain ==
    /\ dpc = "d.drain"
    /\ res' = [t \in Tasks |-> IF \E p \in Procs : exists[p] /\ t \in QueuedIn(p) THEN "abandoned" ELSE res[t]]
    /\ qU' = [p \in Procs |-> <<>>] /\ qR' = [p \in Procs |-> <<>>]
    /\ dpc' = "done" /\ dropSt' = "done"
    /\ DLabel("d.drain")
    /\ UNCHANGED <<shutdown, flag, lst, hlock, handles, dslot, dtaken>> /\ UNCH_D /\ UNCH_ABS_BUT_DROP

DropperRest == DGet \/ DTake \/ DJoin \/ DDrain
DropperStep == DBegin \/ DropperRest

-----------------------------------------------------------------------------
Next == (\E s \in Spawners : SpawnerStep(s)) \/ (\E w \in W : WorkerStep(w)) \/ DropperStep

Spec == Init /\ [][Next]_vars
\* Weak fairness of every thread.  When (whether) the user drops the pool is not the code's business: DBegin is not fair.
FairSpec == Spec /\ (\A s \in Spawners : WF_vars(SpawnerStep(s))) /\ (\A w \in W : WF_vars(WorkerStep(w)))
                 /\ WF_vars(DropperRest)

-----------------------------------------------------------------------------
(* what TLC checks *)
TypeOK ==
    /\ shutdown \in BOOLEAN
    /\ \A w \in W : lst[w] \in {"none", "reg", "notified"}
    /\ \A t \in Tasks : res[t] \in {"pending", "value", "panic", "abandoned"}
    /\ dropSt \in {"no", "started", "done"}

\* every explorer step is a step the judge allows (each disjunct instantiates a disjunct of AbsNext)
JudgeStep ==
    \/ UNCHANGED absvars
    \/ \E s \in Spawners : spc[s] = "call" /\ spc'[s] # "call" /\ Call(TaskOf(s), P(s), TRUE, TaskOf(s) \in PanicTasks)
    \/ \E w \in W : wpc[w] = "w.run" /\ wpc'[w] # "w.run" /\ Run(wtask[w], w, w[1])
    \/ \E w \in W : wpc[w] = "w.start" /\ wpc'[w] # "w.start" /\ WStart(w, w[1])
    \/ \E w \in W : wpc'[w] = "done" /\ wpc[w] # "done" /\ WExit(w)
    \/ dpc = "d.begin" /\ dpc' # dpc /\ DropStart
    \/ dpc # "done" /\ dpc' = "done" /\ DropDone
JudgeAccepts == [][JudgeStep]_vars

\* the channel never holds what the judge would refuse when the handle is awaited
ChannelOk == \A t \in Tasks : res[t] # "pending" => (called[t] /\ OutcomeAllowed(t, res[t]))
\* a task whose result is in the channel is not queued or being run any more (it cannot run again / after being abandoned)
Queued(t) == \E p \in Procs : t \in QueuedIn(p)
NoRunAfterResolve == \A t \in Tasks : res[t] # "pending" => ~Queued(t) /\ \A w \in W : wtask[w] # t

\* NO LOST WAKE-UP: work is queued, every worker of that processor sleeps un-notified, and nobody is about to notify
QNonEmpty(p) == qU[p] # <<>> \/ qR[p] # <<>>
AllAsleep(p) == \A w \in WorkersOf(p) : wpc[w] = "w.wait" /\ lst[w] = "reg"
NotifyPending(p) == \E s \in Spawners : P(s) = p /\ spc[s] = "sp.notify"
NoLostWakeup == \A p \in Procs : (QNonEmpty(p) /\ AllAsleep(p) /\ ~flag[p]) => NotifyPending(p)
\* NO WAKE-UP OF AN IDLE WORKER IS LOST, worker by worker: work is queued, some worker of that processor sleeps un-notified,
\* every other worker of the processor is asleep too or busy inside a task body, and nobody is about to notify
Asleep(w) == wpc[w] = "w.wait" /\ lst[w] = "reg"
NoIdleLost == \A p \in Procs :
    (QNonEmpty(p) /\ ~flag[p] /\ (\E w \in WorkersOf(p) : Asleep(w)) /\ (\A w \in WorkersOf(p) : Asleep(w) \/ wpc[w] = "w.run"))
        => NotifyPending(p)
\* ... and the same for the shutdown signal
NoLostShutdown == \A p \in Procs : (flag[p] /\ \E w \in WorkersOf(p) : wpc[w] = "w.wait" /\ lst[w] = "reg") => NotifyPending(p)

\* liveness (FairSpec)
Resolved(t) == res[t] # "pending"
Resolves == \A t \in Tasks : called[t] ~> Resolved(t)
SpawnReturns == \A s \in Spawners : (spc[s] # "call") ~> (spc[s] = "call")
DropTerminates == (dropSt = "started") ~> (dropSt = "done")
\* once the pool is being dropped, eventually no worker thread is left, for good
WorkersGone == [](dropSt = "started" => <>[](\A w \in W : wpc[w] \in {"unborn", "done"}))

(* Named scenarios of the defects the design phase suspected (DESIGN.md section 7).  While a defect is only *known*
   the liveness properties are checked as  P \/ InKnownScenario;  once it is fixed the switches are TRUE and the
   scenarios are unreachable (checked: NoKnownScenario). *)
\* S8a: a task was put into a queue although the pool had already been shut down: nobody will ever run or drop it
EnqueuedAfterShutdown(t) == Queued(t) /\ shutdown /\ \A w \in WorkersOf(aproc[t]) : wpc[w] \in {"unborn", "done"}
\* S8a': tasks still queued when the workers are gone stay queued as long as any scheduler is alive
StrandedInQueue(t) == Queued(t) /\ dpc = "done"
\* S8b: workers started by a first spawn racing with drop(pool) were never signalled, and the spawner is joining them
WillSignal(p) == dpc = "d.get" /\ dslot <= p
JoiningUnsignalled(s) == spc[s] = "ens.join" /\ ~flag[P(s)] /\ ~WillSignal(P(s))
InKnownScenario == (\E t \in Tasks : EnqueuedAfterShutdown(t) \/ StrandedInQueue(t)) \/ (\E s \in Spawners : JoiningUnsignalled(s))
=============================================================================
