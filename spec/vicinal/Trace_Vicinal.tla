------------------------------ MODULE Trace_Vicinal ------------------------------
(* Judges the ndjson recorded by h_vicinal from the real vicinal pool with VicinalAbs.
   One file holds many scenarios separated by {"ev":"reset"}.  A record the judge cannot accept is reported (REJECT,
   with the scenario header) and the rest of that scenario is skipped, so every offending scenario is listed.
   Ids are small integers chosen by the harness; the bounds come from the environment (MAXT, MAXP, MAXW).        *)
EXTENDS VicinalAbs, TraceLib

VARIABLES l, bad, hdr

tvars == <<l, bad, hdr, absvars>>

MaxT == atoi(IOEnv.MAXT)
MaxP == atoi(IOEnv.MAXP)
MaxW == atoi(IOEnv.MAXW)
TasksDef == 0..MaxT
ProcsDef == 0..MaxP
WorkersDef == 0..MaxW

TraceInit == l = 1 /\ bad = FALSE /\ hdr = 0 /\ AbsInit

Ok(r) ==
    CASE r.ev = "call"       -> CallOk(r.t, r.p)
      [] r.ev = "run"        -> RunOk(r.t, r.w, r.c) /\ r.pinned = r.c
      [] r.ev = "resolved"   -> ResolveOk(r.t, r.o)
      [] r.ev = "wstart"     -> WStartOk(r.w, r.p)
      [] r.ev = "wexit"      -> WExitOk(r.w)
      [] r.ev = "drop_start" -> DropStartOk
      [] r.ev = "drop_done"  -> DropDoneOk
      [] r.ev = "quiesce"    -> QuiesceOk
      \* user code in the destructor of a closure that never ran (abandoned / refused) spawned on the same scheduler:
      \* the call has to terminate by returning (a refused spawn is not an error)
      [] r.ev = "dropspawn"  -> r.ok
      [] r.ev \in {"reset", "scenario"} -> TRUE
      [] OTHER -> FALSE            \* hung, harness_panic, anything unknown

Apply(r) ==
    CASE r.ev = "call"       -> Call(r.t, r.p, r.h, r.x)
      [] r.ev = "run"        -> Run(r.t, r.w, r.c)
      [] r.ev = "resolved"   -> Resolve(r.t, r.o)
      [] r.ev = "wstart"     -> WStart(r.w, r.p)
      [] r.ev = "wexit"      -> WExit(r.w)
      [] r.ev = "drop_start" -> DropStart
      [] r.ev = "drop_done"  -> DropDone
      [] r.ev = "reset"      -> AbsRestart
      [] OTHER -> UNCHANGED absvars

TraceNext ==
    /\ l <= NRec
    /\ l' = l + 1
    /\ LET r == Rec[l] IN
       IF r.ev = "reset" THEN bad' = FALSE /\ hdr' = hdr /\ Apply(r)
       ELSE IF bad THEN UNCHANGED <<bad, hdr, absvars>>
       ELSE IF Ok(r) THEN /\ Apply(r) /\ bad' = FALSE
                          /\ hdr' = IF r.ev = "scenario" THEN l ELSE hdr
       ELSE /\ PrintT(<<"REJECT", ToJson([line |-> l, rec |-> r, scenario |-> IF hdr > 0 THEN Rec[hdr] ELSE r])>>)
            /\ bad' = TRUE
            /\ UNCHANGED <<hdr, absvars>>

TraceSpec == TraceInit /\ [][TraceNext]_tvars
=============================================================================
