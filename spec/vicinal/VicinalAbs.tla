------------------------------ MODULE VicinalAbs ------------------------------
(* Judge for C14: what vicinal::Pool / Scheduler / JoinHandle owe their users, stated on observable events only.

     Call(t, p, h, x)    a thread running on processor p calls spawn / spawn_urgent (h: a join handle is returned) or a
                         fire-and-forget variant (~h) for task t on some scheduler of the pool (the pool itself may be
                         alive, being dropped, or long gone); x: the body of t is going to panic (its author knows)
     Run(t, c)           the body of task t starts on a worker thread; c = the processor that thread is pinned to /
                         observes itself on
     Resolve(t, o)       awaiting t's join handle completed: o = "value" (the task's value), "panic" (its panic,
                         re-raised), "abandoned" (the documented panic "task was abandoned because the pool was shut down")
     WStart(w, p) / WExit(w)   a worker thread of processor p started / returned from its thread function
     DropStart / DropDone      drop(pool) was entered / returned
     Quiesce             the harness' quiescence point: every spawner returned, every handle was awaited, the pool dropped

   The judge says nothing about queues, wake-ups, which worker runs what, or when.  It constrains exactly:
     (1) a task runs at most once, only after it was handed over, on the processor its spawner was on
     (2) value  <=> the task ran and did not panic;  panic <=> it ran and panicked;
         abandoned => it never ran (and never will) and the pool's drop had started
     (3) a handle resolves once
     (4) no task runs on a worker thread that has exited or not started
     (5) at the quiescence point every handle has resolved, drop(pool) has returned and no worker thread is left:
         every worker was joined by someone.  (Not required: that all workers are gone at the very moment drop(pool)
         returns.  By design a first spawn racing with the drop joins the workers it started itself, possibly after
         drop(pool) returned; the explorer found that schedule and the code documents it.)
   Liveness ("awaiting any handle terminates", "drop terminates") shows in a recorded trace as (5) and as the absence
   of `hung` records; on the explorer it is checked by TLC as temporal properties.                                  *)
EXTENDS Naturals, FiniteSets, Sequences

CONSTANTS Tasks,        \* task ids
          Procs,        \* processor ids
          WorkerIds     \* worker thread ids

VARIABLES
    called,     \* called[t]  : BOOLEAN
    aproc,      \* aproc[t]   : processor the spawner was on (meaningful once called)
    hasH,       \* hasH[t]    : a join handle exists
    pans,       \* pans[t]    : the body panics
    runs,       \* runs[t]    : how often the body started
    ranOn,      \* ranOn[t]   : where
    outcome,    \* outcome[t] : "pending" | "value" | "panic" | "abandoned"  -- what awaiting the handle yielded
    alive,      \* worker ids started and not yet exited
    wproc,      \* wproc[w]   : processor a started worker belongs to
    oldw,       \* workers that were alive when drop(pool) was entered
    dropSt      \* "no" | "started" | "done"

absvars == <<called, aproc, hasH, pans, runs, ranOn, outcome, alive, wproc, oldw, dropSt>>

AnyProc == CHOOSE p \in Procs : TRUE

AbsInit ==
    /\ called = [t \in Tasks |-> FALSE]
    /\ aproc = [t \in Tasks |-> AnyProc]
    /\ hasH = [t \in Tasks |-> TRUE]
    /\ pans = [t \in Tasks |-> FALSE]
    /\ runs = [t \in Tasks |-> 0]
    /\ ranOn = [t \in Tasks |-> AnyProc]
    /\ outcome = [t \in Tasks |-> "pending"]
    /\ alive = {}
    /\ wproc = [w \in WorkerIds |-> AnyProc]
    /\ oldw = {}
    /\ dropSt = "no"

\* the same as an action (a trace file holds many scenarios)
AbsRestart ==
    /\ called' = [t \in Tasks |-> FALSE]
    /\ aproc' = [t \in Tasks |-> AnyProc]
    /\ hasH' = [t \in Tasks |-> TRUE]
    /\ pans' = [t \in Tasks |-> FALSE]
    /\ runs' = [t \in Tasks |-> 0]
    /\ ranOn' = [t \in Tasks |-> AnyProc]
    /\ outcome' = [t \in Tasks |-> "pending"]
    /\ alive' = {}
    /\ wproc' = [w \in WorkerIds |-> AnyProc]
    /\ oldw' = {}
    /\ dropSt' = "no"

-----------------------------------------------------------------------------
(* guards (state predicates, reused by the trace judge and by the explorer) and events *)

CallOk(t, p) == t \in Tasks /\ p \in Procs /\ ~called[t]
Call(t, p, h, x) ==
    /\ CallOk(t, p)
    /\ called' = [called EXCEPT ![t] = TRUE]
    /\ aproc' = [aproc EXCEPT ![t] = p]
    /\ hasH' = [hasH EXCEPT ![t] = h]
    /\ pans' = [pans EXCEPT ![t] = x]
    /\ UNCHANGED <<runs, ranOn, outcome, alive, wproc, oldw, dropSt>>

\* (1) + (4): w = the worker thread the body runs on
RunOk(t, w, c) ==
    /\ t \in Tasks /\ called[t]
    /\ runs[t] = 0
    /\ outcome[t] = "pending"
    /\ c = aproc[t]
    /\ w \in alive /\ wproc[w] = c
Run(t, w, c) ==
    /\ RunOk(t, w, c)
    /\ runs' = [runs EXCEPT ![t] = 1]
    /\ ranOn' = [ranOn EXCEPT ![t] = c]
    /\ UNCHANGED <<called, aproc, hasH, pans, outcome, alive, wproc, oldw, dropSt>>

\* (2): is o an outcome the handle of t may yield in this state?
OutcomeAllowed(t, o) ==
    CASE o = "value"     -> runs[t] = 1 /\ ~pans[t]
      [] o = "panic"     -> runs[t] = 1 /\ pans[t]
      [] o = "abandoned" -> runs[t] = 0 /\ dropSt # "no"
      [] OTHER -> FALSE
ResolveOk(t, o) == t \in Tasks /\ called[t] /\ hasH[t] /\ outcome[t] = "pending" /\ OutcomeAllowed(t, o)
Resolve(t, o) ==
    /\ ResolveOk(t, o)
    /\ outcome' = [outcome EXCEPT ![t] = o]
    /\ UNCHANGED <<called, aproc, hasH, pans, runs, ranOn, alive, wproc, oldw, dropSt>>

WStartOk(w, p) == w \in WorkerIds /\ p \in Procs /\ w \notin alive
WStart(w, p) ==
    /\ WStartOk(w, p)
    /\ alive' = alive \cup {w}
    /\ wproc' = [wproc EXCEPT ![w] = p]
    /\ UNCHANGED <<called, aproc, hasH, pans, runs, ranOn, outcome, oldw, dropSt>>

WExitOk(w) == w \in alive
WExit(w) ==
    /\ WExitOk(w)
    /\ alive' = alive \ {w}
    /\ UNCHANGED <<called, aproc, hasH, pans, runs, ranOn, outcome, wproc, oldw, dropSt>>

DropStartOk == dropSt = "no"
DropStart ==
    /\ DropStartOk
    /\ dropSt' = "started"
    /\ oldw' = alive
    /\ UNCHANGED <<called, aproc, hasH, pans, runs, ranOn, outcome, alive, wproc>>

DropDoneOk == dropSt = "started"
DropDone ==
    /\ DropDoneOk
    /\ dropSt' = "done"
    /\ UNCHANGED <<called, aproc, hasH, pans, runs, ranOn, outcome, alive, wproc, oldw>>

\* (5)
QuiesceOk ==
    /\ \A t \in Tasks : (called[t] /\ hasH[t]) => outcome[t] # "pending"
    /\ dropSt = "done"
    /\ alive = {}

AbsNext ==
    \/ \E t \in Tasks, p \in Procs, h \in BOOLEAN, x \in BOOLEAN : Call(t, p, h, x)
    \/ \E t \in Tasks, w \in WorkerIds, c \in Procs : Run(t, w, c)
    \/ \E t \in Tasks, o \in {"value", "panic", "abandoned"} : Resolve(t, o)
    \/ \E w \in WorkerIds, p \in Procs : WStart(w, p)
    \/ \E w \in WorkerIds : WExit(w)
    \/ DropStart
    \/ DropDone

\* state form of (1)/(2) for explorers that keep the channel content instead of the awaited outcome
RunsAtMostOnce == \A t \in Tasks : runs[t] <= 1
RunsOnSpawnersProcessor == \A t \in Tasks : runs[t] = 1 => ranOn[t] = aproc[t]
=============================================================================
