---- MODULE MC_Metrics ----
(* TLC-only: integer instantiation of the value algebra, constant definitions, behaviour generator. *)
EXTENDS Metrics, Json

IntAdd(a, b) == a + b
IntScale(a, n) == a * n
IntLeq(a, b) == a <= b
IntIsNeg(a) == a < 0
IntAbs(a) == IF a < 0 THEN 0 - a ELSE a
IntSumOk(pos, neg, rep) == rep = pos - neg
IntSumBetween(lp, ln, hp, hn, rep) == (ln = 0 /\ hn = 0) => (lp <= rep /\ rep <= hp)

\* model bounds -3, 0, 3, 6: every integer in -4..7 is on or next to exactly one bound; -9 / 9 stand for i64::MIN / MAX
B4 == <<-3, 0, 3, 6>>
CfgPullPush == <<[kind |-> "pull", bounds |-> B4], [kind |-> "push", bounds |-> B4]>>
CfgPush == <<[kind |-> "push", bounds |-> B4]>>
CfgPull == <<[kind |-> "pull", bounds |-> B4]>>
CfgPushPush == <<[kind |-> "push", bounds |-> B4], [kind |-> "push", bounds |-> B4]>>
CfgCounter == <<[kind |-> "push", bounds |-> <<>>], [kind |-> "pull", bounds |-> <<>>]>>
MagsAll == {-9, 9} \cup (-4..7)
MagsOnBound == {-3, 0, 3, 6, 9}
MagsEdge == {-9, -4, -2, 1, 4, 7}
MagsOv == {0, 3, 4, 6, 7}          \* around the dirty-bit overflow index (buckets 2 | 3 | 4 | +inf) and one below
MagsTwo == {0, 6}
B01 == {0, 1}
B12 == {1, 2}
B1 == {1}
B012 == {0, 1, 2}

\* generator: one behaviour per leaf (VIEW hides hist, so one shortest history per distinct state at the bound)
\* GenMod thins the leaves out deterministically (a cheap hash of the history): the check replays a sample anyway
CONSTANT GenMod
HistHash == LET RECURSIVE F(_)
                F(i) == IF i = 0 THEN 0
                        ELSE (i * (hist[i].t + 2 * hist[i].e + 3 * (hist[i].m + 10) + 5 * hist[i].n + (IF hist[i].op = "push" THEN 7 ELSE 0)
                                   + (IF hist[i].op = "exit" THEN 11 ELSE 0)) + F(i - 1)) % 1000003
            IN F(Len(hist))
GenCase == (steps = MaxSteps /\ HistHash % GenMod = 0) => PrintT(<<"MCASE", ToJson([cfg |-> Cfg, h |-> hist])>>)
====
