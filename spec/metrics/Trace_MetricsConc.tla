------------------------------ MODULE Trace_MetricsConc ------------------------------
(* Judges the stamp-ordered log of the concurrent driver (h_metrics conc) with the concurrent part of MetricsAbs:
   every report lies between what had returned when it was invoked and what had been invoked when it returned, and
   successive reports of one reporter never go down.  Exact 64-bit limb arithmetic for the sums (Limbs).

   records (in stamp order)
     {"ev":"cfg","writers":W,"reporters":R,"events":[{"kind":"pull","bounds":[[4 limbs],...]}, ...]}
     {"ev":"inv"|"res","k":"obs","t":w,"e":e,"m":[4 limbs],"n":n}      {"ev":"inv"|"res","k":"push","t":w}
     {"ev":"inv","k":"rep","t":r}      {"ev":"res","k":"rep","t":r,"r":R}     R as in Trace_Metrics
   The verdict on a report never feeds back into the judge's state: rejected reports are printed and skipped.
   REJECT carries "what": stored (count/sum/explicit buckets outside the envelope), monotone, inf-low, inf-high,
   inf-monotone (the synthesized +inf bucket).                                                                  *)
EXTENDS MetricsAbs, Limbs, TraceLib

VARIABLES l, lo, hi, upend, inflight, snap, last

tvars == <<l, lo, hi, upend, inflight, snap, last, cfg, alive, pub, pend>>

C == Rec[1]
Ev == DOMAIN C.events
Bnd(e) == C.events[e].bounds
Nb(e) == Len(Bnd(e))
EB(e) == EmptyBagN(Nb(e))
Ws == 1..C.writers
Rs == 1..C.reporters

Dense(sp, n) ==
    [k \in 1..n |-> LET hits == { i \in DOMAIN sp : sp[i][1] = k }
                    IN IF hits = {} THEN 0 ELSE sp[CHOOSE i \in hits : TRUE][2]]
RepOf(r) == [e \in Ev |-> [c |-> r[e].c, s |-> r[e].s, b |-> Dense(r[e].b, Nb(e) + 1)]]
ZeroRep == [e \in Ev |-> [c |-> 0, s |-> LZero, b |-> [k \in 1..(Nb(e) + 1) |-> 0]]]

TraceInit ==
    /\ l = 2
    /\ AbsInit(<<>>, {})
    /\ lo = [e \in Ev |-> EB(e)] /\ hi = [e \in Ev |-> EB(e)]
    /\ upend = [w \in Ws |-> [e \in Ev |-> EB(e)]]
    /\ inflight = [w \in Ws |-> [e \in Ev |-> EB(e)]]
    /\ snap = [r \in Rs |-> [e \in Ev |-> EB(e)]]
    /\ last = [r \in Rs |-> ZeroRep]

Faults(r, rep) ==
    LET R == RepOf(rep) IN
    { <<e, "stored">> : e \in { e \in Ev : ~EventReportBetween(snap[r][e], hi[e], Nb(e), R[e]) } }
    \cup { <<e, "monotone">> : e \in { e \in Ev : ~EventReportMonotone(last[r][e], R[e], Nb(e)) } }
    \cup { <<e, "inf-low">> : e \in { e \in Ev : ~InfBucketLow(snap[r][e], Nb(e), R[e]) } }
    \cup { <<e, "inf-high">> : e \in { e \in Ev : ~InfBucketHigh(hi[e], Nb(e), R[e]) } }
    \cup { <<e, "inf-monotone">> : e \in { e \in Ev : ~InfBucketMonotone(last[r][e], R[e], Nb(e)) } }
    \cup { <<e, "overflow-exceeds-count">> : e \in { e \in Ev : ~OverflowWithinCount(Nb(e), R[e]) } }

Step(rec) ==
    \/ /\ rec.k = "obs" /\ rec.ev = "inv"
       /\ IF C.events[rec.e].kind = "pull"
          THEN hi' = [hi EXCEPT ![rec.e] = BagAdd(@, ObsBag(Bnd(rec.e), rec.m, rec.n))]
          ELSE hi' = hi
       /\ UNCHANGED <<lo, upend, inflight, snap, last>>
    \/ /\ rec.k = "obs" /\ rec.ev = "res"
       /\ IF C.events[rec.e].kind = "pull"
          THEN lo' = [lo EXCEPT ![rec.e] = BagAdd(@, ObsBag(Bnd(rec.e), rec.m, rec.n))] /\ upend' = upend
          ELSE upend' = [upend EXCEPT ![rec.t][rec.e] = BagAdd(@, ObsBag(Bnd(rec.e), rec.m, rec.n))] /\ lo' = lo
       /\ UNCHANGED <<hi, inflight, snap, last>>
    \/ /\ rec.k = "push" /\ rec.ev = "inv"
       /\ hi' = [e \in Ev |-> IF C.events[e].kind = "push" THEN BagAdd(hi[e], upend[rec.t][e]) ELSE hi[e]]
       /\ inflight' = [inflight EXCEPT ![rec.t] = upend[rec.t]]
       /\ upend' = [upend EXCEPT ![rec.t] = [e \in Ev |-> EB(e)]]
       /\ UNCHANGED <<lo, snap, last>>
    \/ /\ rec.k = "push" /\ rec.ev = "res"
       /\ lo' = [e \in Ev |-> IF C.events[e].kind = "push" THEN BagAdd(lo[e], inflight[rec.t][e]) ELSE lo[e]]
       /\ UNCHANGED <<hi, upend, inflight, snap, last>>
    \/ /\ rec.k = "rep" /\ rec.ev = "inv"
       /\ snap' = [snap EXCEPT ![rec.t] = lo]
       /\ UNCHANGED <<lo, hi, upend, inflight, last>>
    \/ /\ rec.k = "rep" /\ rec.ev = "res"
       /\ LET f == Faults(rec.t, rec.r) IN
          IF f = {} THEN TRUE
          ELSE LET R == RepOf(rec.r)
                   brief(e) == [e |-> e, c |-> R[e].c, inf |-> R[e].b[Nb(e) + 1],
                                lo_c |-> snap[rec.t][e].c, lo_inf |-> snap[rec.t][e].b[Nb(e) + 1],
                                hi_c |-> hi[e].c, hi_inf |-> hi[e].b[Nb(e) + 1],
                                last_c |-> last[rec.t][e].c, last_inf |-> last[rec.t][e].b[Nb(e) + 1]]
               IN PrintT(<<"REJECT", ToJson([line |-> l, what |-> f, reporter |-> rec.t,
                                             events |-> { brief(x[1]) : x \in f }])>>)
       /\ last' = [last EXCEPT ![rec.t] = RepOf(rec.r)]
       /\ UNCHANGED <<lo, hi, upend, inflight, snap>>

TraceNext ==
    /\ l <= NRec
    /\ Step(Rec[l])
    /\ l' = l + 1
    /\ UNCHANGED <<cfg, alive, pub, pend>>

TraceAccepted ==
    LET d == TLCGet("stats").diameter IN
    IF d >= NRec THEN TRUE
    ELSE /\ PrintT(<<"TRACE-REJECTED", "matched", d, "of", NRec>>)
         /\ PrintT(<<"FIRST-UNMATCHED", ToJson(Rec[d + 1])>>)
         /\ FALSE

TraceSpec == TraceInit /\ [][TraceNext]_tvars
=============================================================================
