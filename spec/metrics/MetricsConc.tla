------------------------------ MODULE MetricsConc ------------------------------
(* EXPLORER for the concurrent half of C16: a report taken WHILE other threads observe, push and exit.
   One action per atomic operation of the code (all Relaxed, every field a separate atomic):

     pull observe   ObservationBagSync::insert      count.fetch_add ; sum.fetch_add ; bucket.fetch_add
     push observe   ObservationBag::insert          thread-private, one step
     push()         MetricsPusher::push -> copy_from   count.store ; sum.store ; one store per dirty bucket
     report         Report::collect -> GlobalEventRegistry::inspect  (global READ lock held throughout)
                    for every live thread's bag, then the archive:  count.load ; sum.load ; bucket loads in order
                    then the merge and the synthesized +inf bucket  count.saturating_sub(sum of bucket counts)
     exit           unregister_thread  (global WRITE lock: atomic with respect to reports), merge into the archive

   One event name, one explicit bucket (bound Bound) plus the implicit one, writers W (each owns a pull-model or a
   push-model Event of that name, by Kind), one reporter taking MaxReports reports.

   Ghost state for the judge (MetricsAbs, concurrent part): lo = totals of operations that have returned,
   hi = totals of operations that have been invoked; at report invocation snap = lo; at report return the report must
   lie between snap and hi (EventReportBetween) and not below the previous report (EventReportMonotone).          *)
EXTENDS MetricsAbs, TLC

CONSTANTS W, Kind, Bound, Mags, MaxOps, MaxReports

VARIABLES
    gb,        \* [w -> [c, s, b1]]   the bag registered for writer w (pull: written directly; push: the mirror)
    lb,        \* [w -> [c, s, b1, dirty]]  push writers: local bag
    lastP,     \* [w -> Nat]
    reg,       \* set of writers registered in the global registry (live threads)
    arch,      \* [c, s, b1]
    wpc,       \* [w -> <<kind, magnitude, step>>]  kind: "idle" | "obs" | "push" | "done" | "gone"
    nops,      \* [w -> number of operations started]
    rpc,       \* reporter: "idle" | [src, fld]  (src: sequence of sources still to read, fld: next field)
    acc,       \* reporter: running merge [c, s, b1]
    cur,       \* reporter: partially read snapshot of the current source
    todo,      \* reporter: sources still to read (sequence of writers; 0 = archive)
    nrep,      \* reports completed
    lastRep,   \* previous report [c, s, b] (dense, judge's shape)
    lo, hi, snap,      \* ghost: bags of the judge
    inflight,  \* ghost: [w -> bag] what w's push in progress publishes
    upend,     \* ghost: [w -> bag] what w observed on its push event and has not pushed
    bad        \* set of strings: which envelope / monotonicity clauses a completed report violated

vars == <<gb, lb, lastP, reg, arch, wpc, nops, rpc, acc, cur, todo, nrep, lastRep, lo, hi, snap, inflight, upend, bad,
          cfg, alive, pub, pend>>

Z == [c |-> 0, s |-> 0, b1 |-> 0]
ZL == [c |-> 0, s |-> 0, b1 |-> 0, dirty |-> FALSE]
Bounds == <<Bound>>
E0 == EmptyBagN(1)
InB1(m) == m <= Bound

Init ==
    /\ AbsInit(<<[kind |-> "pull", bounds |-> Bounds]>>, W)      \* the sequential judge variables are not used here
    /\ gb = [w \in W |-> Z] /\ lb = [w \in W |-> ZL] /\ lastP = [w \in W |-> 0]
    /\ reg = W /\ arch = Z
    /\ wpc = [w \in W |-> <<"idle", 0, 0>>] /\ nops = [w \in W |-> 0]
    /\ rpc = "idle" /\ acc = Z /\ cur = Z /\ todo = <<>> /\ nrep = 0
    /\ lastRep = [c |-> 0, s |-> 0, b |-> <<0, 0>>]
    /\ lo = E0 /\ hi = E0 /\ snap = E0
    /\ inflight = [w \in W |-> E0] /\ upend = [w \in W |-> E0]
    /\ bad = {}

abs == <<cfg, alive, pub, pend>>
rvars == <<rpc, acc, cur, todo, nrep, lastRep, snap, bad>>

\* ---- writers
StartObs(w) ==
    /\ wpc[w][1] = "idle" /\ nops[w] < MaxOps
    /\ \E m \in Mags :
          /\ nops' = [nops EXCEPT ![w] = @ + 1]
          /\ IF Kind[w] = "pull"
             THEN /\ wpc' = [wpc EXCEPT ![w] = <<"obs", m, 1>>]
                  /\ hi' = BagAdd(hi, ObsBag(Bounds, m, 1))                       \* invoked
                  /\ UNCHANGED <<lb, upend, lo>>
             ELSE \* thread-private insert: invisible to everybody until pushed
                  /\ lb' = [lb EXCEPT ![w] = [c |-> @.c + 1, s |-> @.s + m, b1 |-> @.b1 + (IF InB1(m) THEN 1 ELSE 0),
                                              dirty |-> @.dirty \/ InB1(m)]]
                  /\ upend' = [upend EXCEPT ![w] = BagAdd(@, ObsBag(Bounds, m, 1))]
                  /\ UNCHANGED <<wpc, hi, lo>>
    /\ UNCHANGED <<gb, lastP, reg, arch, inflight, abs>> /\ UNCHANGED rvars

ObsStep(w) ==
    /\ wpc[w][1] = "obs"
    /\ LET m == wpc[w][2]  st == wpc[w][3] IN
       \/ /\ st = 1 /\ gb' = [gb EXCEPT ![w].c = @ + 1] /\ wpc' = [wpc EXCEPT ![w] = <<"obs", m, 2>>] /\ lo' = lo
       \/ /\ st = 2 /\ gb' = [gb EXCEPT ![w].s = @ + m]
          /\ IF InB1(m) THEN wpc' = [wpc EXCEPT ![w] = <<"obs", m, 3>>] /\ lo' = lo
             ELSE wpc' = [wpc EXCEPT ![w] = <<"idle", 0, 0>>] /\ lo' = BagAdd(lo, ObsBag(Bounds, m, 1))    \* returned
       \/ /\ st = 3 /\ gb' = [gb EXCEPT ![w].b1 = @ + 1] /\ wpc' = [wpc EXCEPT ![w] = <<"idle", 0, 0>>]
          /\ lo' = BagAdd(lo, ObsBag(Bounds, m, 1))
    /\ UNCHANGED <<lb, lastP, reg, arch, nops, hi, inflight, upend, abs>> /\ UNCHANGED rvars

StartPush(w) ==
    /\ wpc[w][1] = "idle" /\ Kind[w] = "push" /\ nops[w] < MaxOps
    /\ nops' = [nops EXCEPT ![w] = @ + 1]
    /\ hi' = BagAdd(hi, upend[w])
    /\ inflight' = [inflight EXCEPT ![w] = upend[w]]
    /\ upend' = [upend EXCEPT ![w] = E0]
    /\ IF lb[w].c = lastP[w]
       THEN wpc' = wpc /\ lo' = BagAdd(lo, upend[w])       \* skipped pair: push returns at once
       ELSE wpc' = [wpc EXCEPT ![w] = <<"push", 0, 1>>] /\ lo' = lo
    /\ UNCHANGED <<gb, lb, lastP, reg, arch, abs>> /\ UNCHANGED rvars

PushStep(w) ==
    /\ wpc[w][1] = "push"
    /\ LET st == wpc[w][3]
           finish == /\ wpc' = [wpc EXCEPT ![w] = <<"idle", 0, 0>>] /\ lastP' = [lastP EXCEPT ![w] = lb[w].c]
                     /\ lo' = BagAdd(lo, inflight[w])
       IN
       \/ /\ st = 1 /\ gb' = [gb EXCEPT ![w].c = lb[w].c] /\ wpc' = [wpc EXCEPT ![w] = <<"push", 0, 2>>]
          /\ UNCHANGED <<lb, lastP, lo>>
       \/ /\ st = 2 /\ gb' = [gb EXCEPT ![w].s = lb[w].s] /\ lb' = [lb EXCEPT ![w].dirty = FALSE]   \* take_dirty_buckets
          /\ IF lb[w].dirty THEN wpc' = [wpc EXCEPT ![w] = <<"push", 0, 3>>] /\ UNCHANGED <<lastP, lo>>
             ELSE finish
       \/ /\ st = 3 /\ gb' = [gb EXCEPT ![w].b1 = lb[w].b1] /\ lb' = lb /\ finish
    /\ UNCHANGED <<reg, arch, nops, hi, inflight, upend, abs>> /\ UNCHANGED rvars

Finish(w) ==
    /\ wpc[w][1] = "idle" /\ wpc' = [wpc EXCEPT ![w] = <<"done", 0, 0>>]
    /\ UNCHANGED <<gb, lb, lastP, reg, arch, nops, lo, hi, inflight, upend, abs>> /\ UNCHANGED rvars

\* thread exit: write lock, so never while a report holds the read lock
Exit(w) ==
    /\ wpc[w][1] = "done" /\ rpc = "idle"
    /\ wpc' = [wpc EXCEPT ![w] = <<"gone", 0, 0>>]
    /\ reg' = reg \ {w}
    /\ arch' = [c |-> arch.c + gb[w].c, s |-> arch.s + gb[w].s, b1 |-> arch.b1 + gb[w].b1]
    /\ UNCHANGED <<gb, lb, lastP, nops, lo, hi, inflight, upend, abs>> /\ UNCHANGED rvars

\* ---- reporter
RECURSIVE SetToSeq(_)
SetToSeq(S) == IF S = {} THEN <<>> ELSE LET x == CHOOSE x \in S : TRUE IN <<x>> \o SetToSeq(S \ {x})

Src(x) == IF x = 0 THEN arch ELSE gb[x]

StartReport ==
    /\ rpc = "idle" /\ nrep < MaxReports
    /\ todo' = SetToSeq(reg) \o <<0>>
    /\ rpc' = "c" /\ acc' = Z /\ cur' = Z /\ snap' = lo
    /\ UNCHANGED <<gb, lb, lastP, reg, arch, wpc, nops, nrep, lastRep, lo, hi, inflight, upend, bad, abs>>

ReadStep ==
    /\ rpc \in {"c", "s", "b"}
    /\ LET x == Src(Head(todo)) IN
       \/ /\ rpc = "c" /\ cur' = [cur EXCEPT !.c = x.c] /\ rpc' = "s" /\ UNCHANGED <<acc, todo>>
       \/ /\ rpc = "s" /\ cur' = [cur EXCEPT !.s = x.s] /\ rpc' = "b" /\ UNCHANGED <<acc, todo>>
       \/ /\ rpc = "b"
          /\ acc' = [c |-> acc.c + cur.c, s |-> acc.s + cur.s, b1 |-> acc.b1 + x.b1]
          /\ todo' = Tail(todo) /\ cur' = Z
          /\ rpc' = IF Len(todo) = 1 THEN "ret" ELSE "c"
    /\ UNCHANGED <<gb, lb, lastP, reg, arch, wpc, nops, nrep, lastRep, snap, lo, hi, inflight, upend, bad, abs>>

EndReport ==
    /\ rpc = "ret"
    /\ LET inf == IF acc.c >= acc.b1 THEN acc.c - acc.b1 ELSE 0
           rep == [c |-> acc.c, s |-> acc.s, b |-> <<acc.b1, inf>>]
       IN /\ lastRep' = rep
          /\ bad' = bad \cup (IF EventReportBetween(snap, hi, 1, rep) THEN {} ELSE {"envelope"})
                        \cup (IF EventReportMonotone(lastRep, rep, 1) /\ lastRep.s <= rep.s THEN {} ELSE {"monotone"})
                        \cup (IF InfBucketLow(snap, 1, rep) THEN {} ELSE {"inf-low"})
                        \cup (IF InfBucketHigh(hi, 1, rep) THEN {} ELSE {"inf-high"})
                        \cup (IF InfBucketMonotone(lastRep, rep, 1) THEN {} ELSE {"inf-monotone"})
                        \cup (IF OverflowWithinCount(1, rep) THEN {} ELSE {"overflow-exceeds-count"})
    /\ rpc' = "idle" /\ nrep' = nrep + 1
    /\ UNCHANGED <<gb, lb, lastP, reg, arch, wpc, nops, acc, cur, todo, snap, lo, hi, inflight, upend, abs>>

Next ==
    \/ \E w \in W : StartObs(w) \/ ObsStep(w) \/ StartPush(w) \/ PushStep(w) \/ Finish(w) \/ Exit(w)
    \/ StartReport \/ ReadStep \/ EndReport

Spec == Init /\ [][Next]_vars

\* stored numbers (count, sum, explicit buckets): envelope and monotone, on every schedule
StoredFieldsOk == "envelope" \notin bad /\ "monotone" \notin bad
\* the synthesized +inf bucket: the same two demands
InfBucketLowOk == "inf-low" \notin bad
InfBucketHighOk == "inf-high" \notin bad
InfBucketMonotoneOk == "inf-monotone" \notin bad
OverflowWithinCountOk == "overflow-exceeds-count" \notin bad
\* a report taken with nobody active is exact (sequential judge on the ghost totals)
QuiescentExact ==
    (rpc = "idle" /\ nrep > 0 /\ lo = hi /\ snap = lo) =>
        (lastRep.c = lo.c /\ lastRep.b[1] = lo.b[1] /\ lastRep.b[2] = lo.b[2] /\ lastRep.s = lo.pos)
=============================================================================
