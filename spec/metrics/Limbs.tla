------------------------------ MODULE Limbs ------------------------------
(* Exact 64-bit arithmetic for TLC (whose integers are 32-bit): numbers as <<a3, a2, a1, a0>>, base 2^16, most
   significant limb first.
     magnitude / reported sum : the two's-complement bit pattern of an i64, every limb in 0..65535
     wide value               : a non-negative exact number; a0..a2 in 0..65535, a3 >= 0 and NOT bounded by 65535
                                (so totals that leave the 64-bit range are still represented exactly, up to ~2^46 * 2^48)
   This is the instantiation of MetricsAbs' value algebra used when real traces are judged.                      *)
EXTENDS Integers, Sequences

B16 == 65536

\* carry / borrow propagation into the unbounded top limb (\div is floor division, % is non-negative)
LNorm(x) ==
    LET a0 == x[4] % B16
        c0 == (x[4] - a0) \div B16
        t1 == x[3] + c0
        a1 == t1 % B16
        c1 == (t1 - a1) \div B16
        t2 == x[2] + c1
        a2 == t2 % B16
        c2 == (t2 - a2) \div B16
    IN <<x[1] + c2, a2, a1, a0>>

LZero == <<0, 0, 0, 0>>
LAdd(x, y) == LNorm(<<x[1] + y[1], x[2] + y[2], x[3] + y[3], x[4] + y[4]>>)
LScale(x, n) == LNorm(<<x[1] * n, x[2] * n, x[3] * n, x[4] * n>>)          \* n <= 32767
LSub(x, y) == LNorm(<<x[1] - y[1], x[2] - y[2], x[3] - y[3], x[4] - y[4]>>) \* requires x >= y

LexLeq(x, y) ==
    \/ x[1] < y[1]
    \/ x[1] = y[1] /\ x[2] < y[2]
    \/ x[1] = y[1] /\ x[2] = y[2] /\ x[3] < y[3]
    \/ x[1] = y[1] /\ x[2] = y[2] /\ x[3] = y[3] /\ x[4] <= y[4]

\* --- magnitudes (bit patterns)
LIsNeg(m) == m[1] >= 32768
LKey(m) == <<(m[1] + 32768) % B16, m[2], m[3], m[4]>>      \* order-preserving map signed -> unsigned
LLeq(m1, m2) == LexLeq(LKey(m1), LKey(m2))
\* two's complement negation of a bit pattern, as a wide value (|i64::MIN| = 2^63 is representable)
LNegBits(m) == LNorm(<<65535 - m[1], 65535 - m[2], 65535 - m[3], 65535 - m[4] + 1>>)
LAbs(m) == IF LIsNeg(m) THEN LNegBits(m) ELSE m

MaxI64 == <<32767, 65535, 65535, 65535>>
AbsMinI64 == <<32768, 0, 0, 0>>

\* the bit pattern of the (representable) number pos - neg
LDiffBits(pos, neg) ==
    IF LexLeq(neg, pos) THEN LSub(pos, neg)
    ELSE LET d == LSub(neg, pos)                      \* 1 .. 2^63
             w == LNegBits(d)                         \* 2^64 - d, computed with top limb possibly 65536 - ...
         IN <<w[1] % B16, w[2], w[3], w[4]>>

\* every partial sum of the observations, in any order, stays inside i64  <=>  pos <= MAX and neg <= |MIN|
LFits(pos, neg) == LexLeq(pos, MaxI64) /\ LexLeq(neg, AbsMinI64)

LSumOk(pos, neg, rep) == LFits(pos, neg) => rep = LDiffBits(pos, neg)

\* concurrent reports: constrained when nothing is negative and everything fits
LSumBetween(lp, ln, hp, hn, rep) ==
    (ln = LZero /\ hn = LZero /\ LexLeq(hp, MaxI64)) => (LexLeq(lp, rep) /\ LexLeq(rep, hp))
=============================================================================
