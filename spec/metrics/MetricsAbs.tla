------------------------------ MODULE MetricsAbs ------------------------------
(* JUDGE for C16: what Report::collect() owes the caller, stated on totals of observations.

   "For every event name, the count, sum and per-bucket counts in a report equal the totals of all observations made
    on all threads through pull-model events, plus everything push-model events had published at their last push,
    including observations from threads that have since exited.  An observation of magnitude m lands in the first
    bucket whose inclusive upper bound is at least m, or in the implicit overflow bucket; batches count as their size."

   Nothing here knows about bags, dirty bits, mirrors, registries or archives.  The abstract state is
       pub[e]      totals a report must show for event e  (pull observations, and pushed observations)
       pend[t][e]  observations thread t made on push-model event e that it has not pushed yet
                   (they become visible at the thread's next push; they are gone if the thread exits first)

   VALUES.  Magnitudes and sums are 64-bit in the code and TLC integers are 32-bit, so the judge is parametric in an
   algebra of values (constant operators below).  The explorer instantiates it with plain integers (small model
   magnitudes), the trace specification with exact 4 x 16-bit limb arithmetic (Limbs.tla), so sums are judged exactly
   on the real i64 magnitudes.  The documentation of nm ("Mathematics policy") makes no promise once values leave
   the i64 range: the judge keeps the positive and the negative part of every sum separately and constrains the
   reported sum only while every partial sum, in any order of aggregation, is representable (VSumOk).

   A bag is  [c |-> count, pos |-> sum of positive magnitudes, neg |-> sum of |negative magnitudes|,
              b |-> <<count per explicit bucket 1..nb, count of the implicit +inf bucket>>].                        *)
EXTENDS Integers, Sequences, FiniteSets

CONSTANTS
    VZero,             \* the value 0
    VAdd(_, _),        \* value + value                       (exact)
    VScale(_, _),      \* value * natural number              (exact)
    VLeq(_, _),        \* magnitude <= magnitude
    VIsNeg(_),         \* magnitude < 0
    VAbs(_),           \* |magnitude| as a value
    VSumOk(_, _, _),   \* VSumOk(pos, neg, reported): "reported" is an acceptable report of the true sum pos - neg
    VSumBetween(_, _, _, _, _)  \* VSumBetween(lopos, loneg, hipos, hineg, reported), concurrent reports

VARIABLES
    cfg,     \* <<[kind |-> "pull" | "push", bounds |-> sequence of bucket upper bounds (may be empty)], ...>>
    alive,   \* [thread -> BOOLEAN]
    pub,     \* [event index -> bag]
    pend     \* [thread -> [event index -> bag]]

absVars == <<cfg, alive, pub, pend>>

Events == DOMAIN cfg
NB(e) == Len(cfg[e].bounds)

SeqSum(s) == LET RECURSIVE F(_) F(i) == IF i = 0 THEN 0 ELSE s[i] + F(i - 1) IN F(Len(s))
MinOf(S) == CHOOSE x \in S : \A y \in S : x <= y

EmptyBagN(nb) == [c |-> 0, pos |-> VZero, neg |-> VZero, b |-> [k \in 1..(nb + 1) |-> 0]]
EmptyBag(e) == EmptyBagN(NB(e))

\* the first bucket whose inclusive upper bound is at least m, else the implicit overflow bucket Len(bounds)+1
RECURSIVE FirstFrom(_, _, _)
FirstFrom(bounds, m, k) ==
    IF k > Len(bounds) THEN Len(bounds) + 1
    ELSE IF VLeq(m, bounds[k]) THEN k ELSE FirstFrom(bounds, m, k + 1)
BucketOf(bounds, m) == FirstFrom(bounds, m, 1)

\* n observations of magnitude m (a batch counts as its size; a batch of 0 is nothing)
ObsBag(bounds, m, n) ==
    LET bk == BucketOf(bounds, m) IN
    [c   |-> n,
     pos |-> IF VIsNeg(m) THEN VZero ELSE VScale(m, n),
     neg |-> IF VIsNeg(m) THEN VScale(VAbs(m), n) ELSE VZero,
     b   |-> [k \in 1..(Len(bounds) + 1) |-> IF k = bk THEN n ELSE 0]]

BagAdd(x, y) ==
    [c |-> x.c + y.c, pos |-> VAdd(x.pos, y.pos), neg |-> VAdd(x.neg, y.neg),
     b |-> [k \in DOMAIN x.b |-> x.b[k] + y.b[k]]]

-----------------------------------------------------------------------------
AbsInit(c, T) ==
    /\ cfg = c
    /\ alive = [t \in T |-> TRUE]
    /\ pub = [e \in DOMAIN c |-> EmptyBagN(Len(c[e].bounds))]
    /\ pend = [t \in T |-> [e \in DOMAIN c |-> EmptyBagN(Len(c[e].bounds))]]

JObserve(t, e, m, n) ==
    /\ alive[t]
    /\ e \in Events
    /\ LET o == ObsBag(cfg[e].bounds, m, n) IN
       IF cfg[e].kind = "pull"
       THEN /\ pub' = [pub EXCEPT ![e] = BagAdd(@, o)]
            /\ pend' = pend
       ELSE /\ pend' = [pend EXCEPT ![t][e] = BagAdd(@, o)]
            /\ pub' = pub
    /\ UNCHANGED <<cfg, alive>>

\* thread t pushes: everything it observed on its push-model events so far becomes visible
JPush(t) ==
    /\ alive[t]
    /\ pub' = [e \in Events |-> IF cfg[e].kind = "push" THEN BagAdd(pub[e], pend[t][e]) ELSE pub[e]]
    /\ pend' = [pend EXCEPT ![t] = [e \in Events |-> EmptyBag(e)]]
    /\ UNCHANGED <<cfg, alive>>

\* thread t exits: what it published stays; what it never pushed was never published
JExit(t) ==
    /\ alive[t]
    /\ alive' = [alive EXCEPT ![t] = FALSE]
    /\ pend' = [pend EXCEPT ![t] = [e \in Events |-> EmptyBag(e)]]
    /\ UNCHANGED <<cfg, pub>>

\* a new thread takes the slot (a fresh thread with fresh events of the same names)
JStart(t) ==
    /\ ~alive[t]
    /\ alive' = [alive EXCEPT ![t] = TRUE]
    /\ UNCHANGED <<cfg, pub, pend>>

-----------------------------------------------------------------------------
(* A quiescent report r: sequence over events of [c |-> count, s |-> reported sum, b |-> dense bucket counts
   1..nb+1 (the last entry is the +inf bucket)].  Events without a histogram (nb = 0) report no buckets. *)
EventReportOk(bag, nb, re) ==
    /\ re.c = bag.c
    /\ VSumOk(bag.pos, bag.neg, re.s)
    /\ nb = 0 \/ \A k \in 1..(nb + 1) : re.b[k] = bag.b[k]

ReportOk(r) == \A e \in Events : EventReportOk(pub[e], NB(e), r[e])

(* Envelope for a report that overlaps observations: every number lies between the total of what had completed
   when the report was invoked (lo) and the total of what had been invoked when it returned (hi). *)
EventReportBetween(lo, hi, nb, re) ==
    /\ lo.c <= re.c /\ re.c <= hi.c
    /\ VSumBetween(lo.pos, lo.neg, hi.pos, hi.neg, re.s)
    /\ nb = 0 \/ \A k \in 1..nb : lo.b[k] <= re.b[k] /\ re.b[k] <= hi.b[k]

\* the implicit bucket is a bucket of the report like any other (Histogram::counts() ends with it)
InfBucketLow(lo, nb, re) == nb = 0 \/ lo.b[nb + 1] <= re.b[nb + 1]
InfBucketHigh(hi, nb, re) == nb = 0 \/ re.b[nb + 1] <= hi.b[nb + 1]
\* whatever the interleaving: the implicit overflow bucket of a report never claims more observations than the event's count
\* IN THE SAME REPORT (it is "what is left after the configured buckets", never negative, never wrapped)
OverflowWithinCount(nb, re) == nb = 0 \/ re.b[nb + 1] <= re.c

\* successive reports of one observer never go down (counts; sums too when no magnitude is negative)
EventReportMonotone(prev, re, nb) ==
    /\ prev.c <= re.c
    /\ nb = 0 \/ \A k \in 1..nb : prev.b[k] <= re.b[k]
InfBucketMonotone(prev, re, nb) == nb = 0 \/ prev.b[nb + 1] <= re.b[nb + 1]
=============================================================================
