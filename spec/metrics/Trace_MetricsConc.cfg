CONSTANTS
  VZero <- LZero  VAdd <- LAdd  VScale <- LScale  VLeq <- LLeq  VIsNeg <- LIsNeg  VAbs <- LAbs
  VSumOk <- LSumOk  VSumBetween <- LSumBetween
SPECIFICATION TraceSpec
POSTCONDITION TraceAccepted
CHECK_DEADLOCK FALSE
