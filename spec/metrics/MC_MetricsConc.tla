---- MODULE MC_MetricsConc ----
EXTENDS MetricsConc
IntAdd(a, b) == a + b
IntScale(a, n) == a * n
IntLeq(a, b) == a <= b
IntIsNeg(a) == a < 0
IntAbs(a) == IF a < 0 THEN 0 - a ELSE a
IntSumOk(pos, neg, rep) == rep = pos - neg
IntSumBetween(lp, ln, hp, hn, rep) == (ln = 0 /\ hn = 0) => (lp <= rep /\ rep <= hp)
W2 == {1, 2}
W1 == {1}
KindPull1 == <<"pull">>
KindPullPull == <<"pull", "pull">>
KindPullPush == <<"pull", "push">>
KindPushPush == <<"push", "push">>
M2 == {5, 7}
====
