------------------------------ MODULE Metrics ------------------------------
(* EXPLORER for C16: mirrors packages/nm_impl/src  observations.rs, pusher.rs, registries.rs, event.rs, reports.rs
   at the granularity of one public call per action (the call sequence is what the harness can replay; the
   field-by-field interleavings of a report with observers are explored separately in MetricsConc.tla).

   Per thread t and event e (every thread builds its own Event of every name when it starts):
     gbag[t][e]   the Arc<ObservationBagSync> registered in the global registry under t's ThreadId
                  (pull event: observations go straight into it; push event: the mirror written by push())
     lbag[t][e]   push events only: the Rc<ObservationBag> (count, sum, bucket counts, dirty bitmap)
     lastPushed[t][e]   LocalGlobalPair::last_pushed_count
     arch[e]      archived_observation_bags[name]: merged at thread exit under the global write lock
   OV is DIRTY_BUCKETS_OVERFLOW_INDEX (63 in the code, 2 here); bucket indices are 1-based in this module, so the
   code's bucket index is k - 1 and its dirty bit is Min(k - 1, OV).

   The judge's variables (MetricsAbs) advance in lock-step with the same operation; the invariant ReportMatches says
   that what Report::collect() would return in this state is what the judge demands.                            *)
EXTENDS MetricsAbs, TLC

CONSTANTS
    NT,         \* thread slots 1..NT
    Cfg,        \* <<[kind, bounds], ...>>  bounds: strictly ascending integers
    OV,         \* dirty-bitmap overflow index (0-based, as in the code)
    Mags,       \* magnitudes to observe
    Batches,    \* batch sizes (1 = plain observe)
    MaxSteps,
    Respawn     \* BOOLEAN: a slot whose thread exited may be taken by a new thread

VARIABLES lbag, gbag, lastPushed, arch, steps, hist

implVars == <<lbag, gbag, lastPushed, arch>>
vars == <<cfg, alive, pub, pend, lbag, gbag, lastPushed, arch, steps, hist>>
View == <<cfg, alive, pub, pend, lbag, gbag, lastPushed, arch, steps>>

Threads == 1..NT
Ev == DOMAIN Cfg
Bnd(e) == Cfg[e].bounds
NBk(e) == Len(Bnd(e))

ZeroG(e) == [c |-> 0, s |-> 0, b |-> [k \in 1..NBk(e) |-> 0]]
ZeroL(e) == [c |-> 0, s |-> 0, b |-> [k \in 1..NBk(e) |-> 0], dirty |-> {}]

\* observations.rs: linear scan, find_map(|(i, &bucket_magnitude)| if magnitude <= bucket_magnitude { Some(i) })
RECURSIVE Scan(_, _, _)
Scan(bounds, m, k) ==
    IF k > Len(bounds) THEN 0                        \* None: magnitude exceeds the largest bucket
    ELSE IF m <= bounds[k] THEN k ELSE Scan(bounds, m, k + 1)

MinN(a, b) == IF a < b THEN a ELSE b

\* ObservationBagSync::insert
GInsert(bag, bounds, m, n) ==
    LET k == Scan(bounds, m, 1)
        b1 == [bag EXCEPT !.c = @ + n, !.s = @ + m * n]
    IN IF Len(bounds) = 0 \/ k = 0 THEN b1 ELSE [b1 EXCEPT !.b[k] = @ + n]

\* ObservationBag::insert (count == 0 returns early; dirty bit = min(index, OVERFLOW_INDEX))
LInsert(bag, bounds, m, n) ==
    IF n = 0 THEN bag
    ELSE LET k == Scan(bounds, m, 1)
             b1 == [bag EXCEPT !.c = @ + n, !.s = @ + m * n]
         IN IF Len(bounds) = 0 \/ k = 0 THEN b1
            ELSE [b1 EXCEPT !.b[k] = @ + n, !.dirty = @ \cup {MinN(k - 1, OV)}]

\* ObservationBagSync::copy_from: count, sum, drain_overflow_buckets, then one store per remaining dirty bit
CopyFrom(g, l) ==
    [c |-> l.c, s |-> l.s,
     b |-> [k \in DOMAIN g.b |->
              IF k - 1 >= OV
              THEN (IF OV \in l.dirty THEN l.b[k] ELSE g.b[k])
              ELSE (IF (k - 1) \in l.dirty THEN l.b[k] ELSE g.b[k])]]

GAdd(x, y) == [c |-> x.c + y.c, s |-> x.s + y.s, b |-> [k \in DOMAIN x.b |-> x.b[k] + y.b[k]]]

-----------------------------------------------------------------------------
Init ==
    /\ AbsInit(Cfg, Threads)
    /\ lbag = [t \in Threads |-> [e \in Ev |-> ZeroL(e)]]
    /\ gbag = [t \in Threads |-> [e \in Ev |-> ZeroG(e)]]
    /\ lastPushed = [t \in Threads |-> [e \in Ev |-> 0]]
    /\ arch = [e \in Ev |-> ZeroG(e)]
    /\ steps = 0
    /\ hist = <<>>

Observe(t, e, m, n) ==
    /\ alive[t]
    /\ IF Cfg[e].kind = "pull"
       THEN /\ gbag' = [gbag EXCEPT ![t][e] = GInsert(@, Bnd(e), m, n)]
            /\ lbag' = lbag
       ELSE /\ lbag' = [lbag EXCEPT ![t][e] = LInsert(@, Bnd(e), m, n)]
            /\ gbag' = gbag
    /\ UNCHANGED <<lastPushed, arch>>
    /\ JObserve(t, e, m, n)
    /\ hist' = Append(hist, [op |-> "obs", t |-> t, e |-> e, m |-> m, n |-> n])

\* MetricsPusher::push: for every registered pair, skip when the local count has not advanced
Push(t) ==
    /\ alive[t]
    /\ LET dirtyPair(e) == Cfg[e].kind = "push" /\ lbag[t][e].c # lastPushed[t][e] IN
       /\ gbag' = [gbag EXCEPT ![t] = [e \in Ev |-> IF dirtyPair(e) THEN CopyFrom(gbag[t][e], lbag[t][e]) ELSE gbag[t][e]]]
       /\ lbag' = [lbag EXCEPT ![t] = [e \in Ev |-> IF dirtyPair(e) THEN [lbag[t][e] EXCEPT !.dirty = {}] ELSE lbag[t][e]]]
       /\ lastPushed' = [lastPushed EXCEPT ![t] = [e \in Ev |-> IF dirtyPair(e) THEN lbag[t][e].c ELSE lastPushed[t][e]]]
    /\ arch' = arch
    /\ JPush(t)
    /\ hist' = Append(hist, [op |-> "push", t |-> t, e |-> 0, m |-> 0, n |-> 0])

\* LocalEventRegistry::drop -> GlobalEventRegistry::unregister_thread: remove the thread's map, merge into the archive
Exit(t) ==
    /\ alive[t]
    /\ arch' = [e \in Ev |-> GAdd(arch[e], gbag[t][e])]
    /\ gbag' = [gbag EXCEPT ![t] = [e \in Ev |-> ZeroG(e)]]
    /\ lbag' = [lbag EXCEPT ![t] = [e \in Ev |-> ZeroL(e)]]
    /\ lastPushed' = [lastPushed EXCEPT ![t] = [e \in Ev |-> 0]]
    /\ JExit(t)
    /\ hist' = Append(hist, [op |-> "exit", t |-> t, e |-> 0, m |-> 0, n |-> 0])

Start(t) ==
    /\ Respawn
    /\ JStart(t)
    /\ UNCHANGED implVars
    /\ hist' = Append(hist, [op |-> "start", t |-> t, e |-> 0, m |-> 0, n |-> 0])

Next ==
    /\ steps < MaxSteps
    /\ steps' = steps + 1
    /\ \E t \in Threads :
          \/ \E e \in Ev, m \in Mags, n \in Batches : Observe(t, e, m, n)
          \/ Push(t)
          \/ Exit(t)
          \/ Start(t)

Spec == Init /\ [][Next]_vars

-----------------------------------------------------------------------------
\* Report::collect(): merge the snapshots of every live thread's bag and of the archive; +inf bucket synthesized
LiveSum(e) ==
    LET RECURSIVE F(_)
        F(t) == IF t = 0 THEN arch[e] ELSE IF alive[t] THEN GAdd(F(t - 1), gbag[t][e]) ELSE F(t - 1)
    IN F(NT)

RepOf(e) ==
    LET tot == LiveSum(e)
        sb == SeqSum(tot.b)
        inf == IF tot.c >= sb THEN tot.c - sb ELSE 0          \* saturating_sub
    IN [c |-> tot.c, s |-> tot.s, b |-> [k \in 1..(NBk(e) + 1) |-> IF k <= NBk(e) THEN tot.b[k] ELSE inf]]

Report == [e \in Ev |-> RepOf(e)]

ReportMatches == ReportOk(Report)

\* exited threads own nothing any more (their slots are clean for a new thread)
DeadIsClean == \A t \in Threads : ~alive[t] => \A e \in Ev : gbag[t][e] = ZeroG(e) /\ lbag[t][e] = ZeroL(e)

TypeOK ==
    /\ steps \in 0..MaxSteps
    /\ \A t \in Threads, e \in Ev : lbag[t][e].dirty \subseteq 0..OV /\ lastPushed[t][e] <= lbag[t][e].c
=============================================================================
