CONSTANTS
  VZero = 0  VAdd <- IntAdd  VScale <- IntScale  VLeq <- IntLeq  VIsNeg <- IntIsNeg  VAbs <- IntAbs
  VSumOk <- IntSumOk  VSumBetween <- IntSumBetween
  NT = 2  OV = 2  MaxSteps = 5  Respawn = TRUE  GenMod = 1
  Cfg <- CfgPullPush  Mags <- MagsOv  Batches <- B12
SPECIFICATION Spec
VIEW View
INVARIANT TypeOK ReportMatches DeadIsClean
CHECK_DEADLOCK FALSE
