------------------------------ MODULE Trace_MetricsTimed ------------------------------
(* Judge for the timed observation routes of nm (harness h_metrics `timed`): Event::observe_duration_millis and
   Event::batch(n).observe_duration_millis record the wall-clock duration of a closure, so the magnitude is not known
   to the harness - but HOW MANY observations each call stands for is: one, or the batch size ("batches count as their
   size").  One record per scenario (a fresh event with one bucket bound far above any duration measured here):
       {"ev":"timed","kind":"pull"|"push","n":<observations the calls stand for>,"c":<reported count>,
        "b1":<first bucket>,"inf":<overflow bucket>,"neg":<sum is negative>,"panic":""}
   Every observation is counted once and lands in exactly one bucket; durations are never negative.                *)
EXTENDS TraceLib, Integers

VARIABLE l

Ok(r) == /\ r.panic = ""
         /\ r.c = r.n
         /\ r.b1 + r.inf = r.n
         /\ r.neg = 0

TraceInit == l = 1
TraceNext ==
    /\ l <= NRec
    /\ l' = l + 1
    /\ Ok(Rec[l]) \/ PrintT(<<"REJECT", ToJson([line |-> l, rec |-> Rec[l]])>>)
TraceSpec == TraceInit /\ [][TraceNext]_l
=============================================================================
