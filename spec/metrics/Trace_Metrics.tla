------------------------------ MODULE Trace_Metrics ------------------------------
(* Judges what the real nm crate reported (harness h_metrics replay / random) with MetricsAbs over exact 64-bit
   limb arithmetic.  The judge's state is driven by the logged OPERATIONS only (what the harness did); every record
   carries the Report::collect() taken right after the operation, which is compared with what the judge demands.
   A wrong report does not corrupt the judge's state, so rejected records are reported (REJECT) and skipped.

   records   {"ev":"tables","tables":[ [bound, ...], ... ]}             first line: bound tables, bound = 4 limbs
             {"ev":"cfg","id":n,"nt":2,"events":[{"kind":"pull","tab":k,"nb":71}, ...],"r":R}   starts a behaviour
             {"ev":"obs","t":1,"e":1,"m":[4 limbs],"n":2,"r":R}   {"ev":"push","t":1,"r":R}
             {"ev":"exit","t":1,"r":R}   {"ev":"start","t":1,"r":R}
   R = [ {"c":count,"s":[4 limbs],"b":[[k,count,[4 limbs]], ...]} per event ]   b lists the non-zero buckets of the
   histogram (k = 1-based position in Histogram::buckets(), the last position is the +inf bucket) with their bound. *)
EXTENDS MetricsAbs, Limbs, TraceLib

VARIABLE l

Tables == Rec[1].tables

CfgOf(r) == [e \in DOMAIN r.events |->
                [kind |-> r.events[e].kind,
                 bounds |-> IF r.events[e].nb = 0 THEN <<>> ELSE Tables[r.events[e].tab]]]

\* sparse bucket list -> dense function; WellFormed: indices in range and distinct, bounds as configured
Dense(sp, n) ==
    [k \in 1..n |-> LET hits == { i \in DOMAIN sp : sp[i][1] = k }
                    IN IF hits = {} THEN 0 ELSE sp[CHOOSE i \in hits : TRUE][2]]

SparseOk(sp, bounds) ==
    LET n == Len(bounds) + 1 IN
    /\ \A i \in DOMAIN sp : sp[i][1] \in 1..n
    /\ \A i, j \in DOMAIN sp : i # j => sp[i][1] # sp[j][1]
    /\ \A i \in DOMAIN sp : sp[i][3] = (IF sp[i][1] = n THEN MaxI64 ELSE bounds[sp[i][1]])

\* the report logged in rec, judged against the state AFTER the operation (pubN, cfgN = primed judge variables)
JudgeReport(rec, line, cfgN, pubN) ==
    LET E == DOMAIN cfgN
        nb(e) == Len(cfgN[e].bounds)
        ok == /\ DOMAIN rec.r = E
              /\ \A e \in E : nb(e) = 0 \/ SparseOk(rec.r[e].b, cfgN[e].bounds)
              /\ \A e \in E : EventReportOk(pubN[e], nb(e),
                                             [c |-> rec.r[e].c, s |-> rec.r[e].s, b |-> Dense(rec.r[e].b, nb(e) + 1)])
    IN IF ok THEN TRUE
       ELSE PrintT(<<"REJECT", ToJson([line |-> line, rec |-> rec,
                         expect |-> [e \in E |-> [c |-> pubN[e].c, pos |-> pubN[e].pos, neg |-> pubN[e].neg,
                                                  b |-> { <<k, pubN[e].b[k]>> : k \in { j \in DOMAIN pubN[e].b : pubN[e].b[j] # 0 } }]]])>>)

TraceInit ==
    /\ l = 2
    /\ cfg = <<>> /\ alive = <<>> /\ pub = <<>> /\ pend = <<>>

Step(rec) ==
    \/ /\ rec.ev = "cfg"
       /\ cfg' = CfgOf(rec)
       /\ alive' = [t \in 1..rec.nt |-> TRUE]
       /\ pub' = [e \in DOMAIN rec.events |-> EmptyBagN(rec.events[e].nb)]
       /\ pend' = [t \in 1..rec.nt |-> [e \in DOMAIN rec.events |-> EmptyBagN(rec.events[e].nb)]]
    \/ /\ rec.ev = "obs"  /\ JObserve(rec.t, rec.e, rec.m, rec.n)
    \/ /\ rec.ev = "push" /\ JPush(rec.t)
    \/ /\ rec.ev = "exit" /\ JExit(rec.t)
    \/ /\ rec.ev = "start" /\ JStart(rec.t)

TraceNext ==
    /\ l <= NRec
    /\ Step(Rec[l])
    /\ JudgeReport(Rec[l], l, cfg', pub')
    /\ l' = l + 1

\* the first record (tables) is not a step: acceptance = every other record consumed
TraceAccepted ==
    LET d == TLCGet("stats").diameter IN
    IF d >= NRec THEN TRUE
    ELSE /\ PrintT(<<"TRACE-REJECTED", "matched", d, "of", NRec>>)
         /\ PrintT(<<"FIRST-UNMATCHED", ToJson(Rec[d + 1])>>)
         /\ FALSE

TraceSpec == TraceInit /\ [][TraceNext]_<<l, cfg, alive, pub, pend>>
=============================================================================
