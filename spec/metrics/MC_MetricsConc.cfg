CONSTANTS
  VZero = 0  VAdd <- IntAdd  VScale <- IntScale  VLeq <- IntLeq  VIsNeg <- IntIsNeg  VAbs <- IntAbs
  VSumOk <- IntSumOk  VSumBetween <- IntSumBetween
  W <- W2  Kind <- KindPullPush  Bound = 5  Mags <- M2  MaxOps = 2  MaxReports = 2
SPECIFICATION Spec
INVARIANT StoredFieldsOk QuiescentExact OverflowWithinCountOk
CHECK_DEADLOCK FALSE
