------------------------------ MODULE PoolMTAbs ------------------------------
(* JUDGE for C03-A: a thread-safe pool, its clones and its handles used from many threads at once.

   Input: the events of one run in their global order. Every record carries a sequence number drawn from one atomic
   counter; for the events that change the pool ("lin", "dtor") the number is taken INSIDE the raw pool's mutator /
   the object's destructor, i.e. under the pool's mutex (hook H1's event callback), so their order is the order in
   which the changes took effect. "inv" / "resp" bracket what a thread asked for and what it got.

   The judge keeps the abstract pool (which object sits in which slot of which raw pool, how many handles are still
   alive) and one pending operation per thread, and accepts a record only if a correct pool could have produced it:

     ONCE       an object's destructor runs at most once, only inside a drop of one of its handles, and only when every
                handle of the object has begun dropping (never while a handle is still usable)
     NOT-LATER  when the drop of a handle returns and no handle of the object is left or dropping, the object is gone
     EXCLUSIVE  an insert takes a slot no live object occupies; a remove frees the slot of exactly the object dropped
     ACCOUNT    the len reported under the lock equals the number of objects in that raw pool; len()/with_iter()
                return a value the abstract len had at some point between invocation and response; at quiescence
                len = live objects
     ORDER      per thread: invocation, its linearization events, response (program order)
     HEALTHY    no operation panics, no canary is damaged

   Not required: which slot or slab an insert uses, which of two racing droppers removes the object, fairness.   *)
EXTENDS Naturals, Sequences, FiniteSets, TLC

CONSTANTS MaxT        \* thread ids are 0..MaxT (0 = main)

VARIABLES
    slots,     \* set of [pool, slab, slot, obj] : occupied slots
    live,      \* objects in the pool
    dead,      \* objects destroyed
    gone,      \* objects moved out (into_inner): never destroyed by the pool
    hc,        \* obj -> handles that have not begun dropping
    known,     \* objects ever inserted (domain bookkeeping)
    pend       \* thread -> pending operation

mvars == <<slots, live, dead, gone, hc, known, pend>>

IdleOp == [op |-> "-", obj |-> 0, lins |-> 0, dtor |-> FALSE, cands |-> {}]
Thr == 0..MaxT

MInit ==
    /\ slots = {} /\ live = {} /\ dead = {} /\ gone = {} /\ known = {}
    /\ hc = [o \in {} |-> 0]
    /\ pend = [t \in Thr |-> IdleOp]

NLive == Cardinality(live)
LenOf(p) == Cardinality({ s \in slots : s.pool = p })
HC(o) == IF o \in DOMAIN hc THEN hc[o] ELSE 0
SetHC(o, n) == [x \in (DOMAIN hc) \cup {o} |-> IF x = o THEN n ELSE hc[x]]

\* every pending len()/with_iter() may linearize after this change as well
Offer(p, newlen) ==
    [t \in Thr |-> IF p[t].op \in {"len", "iter"} THEN [p[t] EXCEPT !.cands = @ \cup {newlen}] ELSE p[t]]

MInv(r) ==
    /\ r.ev = "inv" /\ pend[r.t].op = "-"
    /\ CASE r.op \in {"insert", "insert_with"} ->
              /\ r.obj \notin known
              /\ pend' = [pend EXCEPT ![r.t] = [IdleOp EXCEPT !.op = "insert", !.obj = r.obj]]
              /\ UNCHANGED <<slots, live, dead, gone, hc, known>>
         [] r.op = "drop" ->
              /\ HC(r.obj) >= 1                                  \* the handle being dropped was alive
              /\ hc' = SetHC(r.obj, HC(r.obj) - 1)
              /\ pend' = [pend EXCEPT ![r.t] = [IdleOp EXCEPT !.op = "drop", !.obj = r.obj]]
              /\ UNCHANGED <<slots, live, dead, gone, known>>
         [] r.op = "into_inner" ->
              /\ HC(r.obj) = 1                                   \* unique handle
              /\ hc' = SetHC(r.obj, 0)
              /\ pend' = [pend EXCEPT ![r.t] = [IdleOp EXCEPT !.op = "into_inner", !.obj = r.obj]]
              /\ UNCHANGED <<slots, live, dead, gone, known>>
         [] r.op \in {"len", "iter"} ->
              /\ pend' = [pend EXCEPT ![r.t] = [IdleOp EXCEPT !.op = r.op, !.cands = {NLive}]]
              /\ UNCHANGED <<slots, live, dead, gone, hc, known>>
         [] r.op \in {"reserve", "shrink"} ->
              /\ pend' = [pend EXCEPT ![r.t] = [IdleOp EXCEPT !.op = r.op]]
              /\ UNCHANGED <<slots, live, dead, gone, hc, known>>
         [] OTHER -> FALSE

MLin(r) ==
    /\ r.ev = "lin"
    /\ LET p == pend[r.t] IN
       CASE r.op = "Insert" ->
              /\ p.op = "insert" /\ p.lins = 0                                        \* ORDER
              /\ ~\E s \in slots : s.pool = r.pool /\ s.slab = r.slab /\ s.slot = r.slot   \* EXCLUSIVE
              /\ slots' = slots \cup {[pool |-> r.pool, slab |-> r.slab, slot |-> r.slot, obj |-> p.obj]}
              /\ live' = live \cup {p.obj} /\ known' = known \cup {p.obj}
              /\ hc' = SetHC(p.obj, 1)
              /\ r.v = LenOf(r.pool) + 1                                              \* ACCOUNT
              /\ pend' = Offer([pend EXCEPT ![r.t].lins = 1], NLive + 1)
              /\ UNCHANGED <<dead, gone>>
         [] r.op = "Remove" ->
              /\ p.op = "drop" /\ p.lins = 0 /\ p.dtor                                \* ORDER: destructor, then bookkeeping done
              /\ [pool |-> r.pool, slab |-> r.slab, slot |-> r.slot, obj |-> p.obj] \in slots  \* EXCLUSIVE: that object's slot
              /\ slots' = slots \ {[pool |-> r.pool, slab |-> r.slab, slot |-> r.slot, obj |-> p.obj]}
              /\ r.v = LenOf(r.pool) - 1
              /\ pend' = Offer([pend EXCEPT ![r.t].lins = 1], NLive)
              /\ UNCHANGED <<live, dead, gone, hc, known>>
         [] r.op = "RemoveUnpin" ->
              /\ p.op = "into_inner" /\ p.lins = 0 /\ p.obj \in live
              /\ [pool |-> r.pool, slab |-> r.slab, slot |-> r.slot, obj |-> p.obj] \in slots
              /\ slots' = slots \ {[pool |-> r.pool, slab |-> r.slab, slot |-> r.slot, obj |-> p.obj]}
              /\ live' = live \ {p.obj} /\ gone' = gone \cup {p.obj}
              /\ r.v = LenOf(r.pool) - 1
              /\ pend' = Offer([pend EXCEPT ![r.t].lins = 1], NLive - 1)
              /\ UNCHANGED <<dead, hc, known>>
         [] r.op \in {"Reserve", "ShrinkToFit"} ->
              \* blind pools shrink every inner pool (several events); reserve exactly one
              /\ p.op = (IF r.op = "Reserve" THEN "reserve" ELSE "shrink")
              /\ r.v = LenOf(r.pool)
              /\ pend' = [pend EXCEPT ![r.t].lins = @ + 1]
              /\ UNCHANGED <<slots, live, dead, gone, hc, known>>
         [] OTHER -> FALSE

\* the destructor of an object: runs inside remove, under the lock, before remove's bookkeeping event
MDtor(r) ==
    /\ r.ev = "dtor"
    /\ LET p == pend[r.t] IN
       /\ p.op = "drop" /\ p.obj = r.obj /\ ~p.dtor                 \* ONCE: inside a drop of this object's handle
       /\ r.obj \in live                                            \* ONCE: exists, not destroyed before, not moved out
       /\ HC(r.obj) = 0                                             \* ONCE: no handle is still usable
    /\ live' = live \ {r.obj} /\ dead' = dead \cup {r.obj}
    /\ pend' = [pend EXCEPT ![r.t].dtor = TRUE]
    /\ UNCHANGED <<slots, gone, hc, known>>

OthersDropping(t, o) == \E u \in Thr \ {t} : pend[u].op = "drop" /\ pend[u].obj = o /\ ~pend[u].dtor

MResp(r) ==
    /\ r.ev = "resp"
    /\ LET p == pend[r.t] IN
       /\ p.op # "-"
       /\ CASE p.op = "insert" -> p.lins = 1
            [] p.op = "drop" -> /\ p.dtor <=> (p.lins = 1)
                                \* NOT-LATER: nobody left to destroy it => it is destroyed
                                /\ (HC(p.obj) = 0 /\ ~OthersDropping(r.t, p.obj)) => p.obj \in dead
            [] p.op = "into_inner" -> p.lins = 1 /\ r.v = 1       \* v = 1: the value moved out is intact
            [] p.op \in {"len", "iter"} -> r.v \in p.cands          \* ACCOUNT
            [] p.op = "reserve" -> p.lins = 1
            [] p.op = "shrink" -> p.lins >= 0
            [] OTHER -> FALSE
    /\ pend' = [pend EXCEPT ![r.t] = IdleOp]
    /\ UNCHANGED <<slots, live, dead, gone, hc, known>>

\* clone of a shared handle / conversion unique -> shared: one record at its response
MClone(r) ==
    /\ r.ev = "clone" /\ pend[r.t].op = "-"
    /\ HC(r.obj) >= 1 /\ r.obj \in live
    /\ hc' = SetHC(r.obj, HC(r.obj) + 1)
    /\ UNCHANGED <<slots, live, dead, gone, known, pend>>

\* a handle was dereferenced and the canary read; v = 1 iff intact. Only alive objects can be read.
MRead(r) ==
    /\ r.ev = "read"
    /\ r.v = 1 /\ r.obj \in live /\ HC(r.obj) >= 1                  \* HEALTHY
    /\ UNCHANGED mvars

\* all threads joined: quiescent. v = len() if a pool value still exists, else 0 with op = "nopool"
MQuiet(r) ==
    /\ r.ev = "quiet"
    /\ \A t \in Thr : pend[t].op = "-"
    /\ r.op = "len" => r.v = NLive                                    \* ACCOUNT at quiescence
    /\ \A o \in known : (HC(o) = 0 /\ o \notin gone) => o \in dead       \* NOT-LATER, globally
    /\ \A o \in live : HC(o) >= 1
    /\ UNCHANGED mvars

\* one round of `h_poolmt mt-burst`: n threads inserted their first object (of one so far unseen layout) into a fresh pool at
\* the same instant and hold the handles: every object is alive and intact, none has been destroyed, len = n; after the
\* drops every object was destroyed exactly once and the pool is empty
MBurst(r) ==
    /\ r.ev = "burst"
    /\ r.len = r.n /\ r.intact = r.n /\ r.early = 0
    /\ r.after = 0 /\ r.dtors = r.n
    /\ ~r.stuck                                   \* no thread hung or is still inside the pool after 8 s
    /\ UNCHANGED mvars

MStep(r) == MInv(r) \/ MLin(r) \/ MDtor(r) \/ MResp(r) \/ MClone(r) \/ MRead(r) \/ MQuiet(r) \/ MBurst(r)

MWhy(r) ==
    CASE r.ev = "oppanic" -> "operation-panicked"
      [] r.ev = "burst" -> "concurrent-first-inserts-lost-or-destroyed-an-object"
      [] r.ev = "dtor" /\ r.obj \in dead -> "destroyed-twice"
      [] r.ev = "dtor" /\ HC(r.obj) > 0 -> "destroyed-while-handle-alive"
      [] r.ev = "dtor" -> "destructor-outside-drop"
      [] r.ev = "lin" /\ r.op = "Insert" -> "insert-into-occupied-slot-or-bad-len"
      [] r.ev = "lin" -> "bad-" \o r.op
      [] r.ev = "resp" /\ pend[r.t].op \in {"len", "iter"} -> "len-not-linearizable"
      [] r.ev = "resp" /\ pend[r.t].op = "drop" -> "object-not-destroyed-at-last-drop"
      [] r.ev = "resp" -> "bad-response-" \o pend[r.t].op
      [] r.ev = "read" -> "canary-or-read-after-destroy"
      [] r.ev = "quiet" -> "quiescent-len-or-leak"
      [] r.ev = "clone" -> "clone-of-dead-object"
      [] OTHER -> "protocol"
=============================================================================
