------------------------------ MODULE Trace_PoolMT ------------------------------
(* Validates the linearized multi-thread traces of `h_poolmt mt` against the judge PoolMTAbs. One file holds many runs,
   each started by a {"ev":"reset"} record; the first unacceptable record of a run is reported and the rest of that
   run skipped.                                                                                                    *)
EXTENDS PoolMTAbs, TraceLib

VARIABLES l, jmode, jidx

TraceInit == l = 1 /\ jmode = "run" /\ jidx = 0 /\ MInit

TraceNext ==
    /\ l <= NRec
    /\ l' = l + 1
    /\ LET r == Rec[l] IN
       IF r.ev = "reset"
       THEN /\ jmode' = "run" /\ jidx' = r.idx
            /\ slots' = {} /\ live' = {} /\ dead' = {} /\ gone' = {} /\ known' = {}
            /\ hc' = [o \in {} |-> 0]
            /\ pend' = [t \in Thr |-> IdleOp]
       ELSE IF jmode = "skip"
       THEN UNCHANGED <<jmode, jidx>> /\ UNCHANGED mvars
       ELSE IF ENABLED MStep(r)
       THEN MStep(r) /\ UNCHANGED <<jmode, jidx>>
       ELSE /\ PrintT(<<"REJECT", ToJson([line |-> l, idx |-> jidx, why |-> MWhy(r), rec |-> r])>>)
            /\ jmode' = "skip"
            /\ UNCHANGED jidx /\ UNCHANGED mvars

TraceSpec == TraceInit /\ [][TraceNext]_<<l, jmode, jidx, mvars>>
=============================================================================
