CONSTANTS NT = 3  MaxOps = 2  MaxObj = 2  CloneSharesRemover = TRUE
SPECIFICATION Spec
INVARIANT TypeOK DropOnce NotBefore StorageValid AccountingUnderLock NotLater ArcCount
CHECK_DEADLOCK FALSE
