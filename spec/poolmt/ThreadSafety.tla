------------------------------ MODULE ThreadSafety ------------------------------
(* C03-B: Rust's thread-safety contract over the MEASURED trait table of infinity_pool's handle types.

   What is modelled is the language rule, not the crate:
       a value moves to another thread            iff  its type is Send
       a shared borrow &v reaches another thread  iff  its type is Sync      (&T : Send  <=>  T : Sync)
       an exclusive borrow &mut v reaches another thread iff its type is Send (&mut T : Send <=> T : Send)
       clone needs Clone and any access to the value
   plus what a handle lets its holder do with the pooled object (the "payload"):
       read path    &handle -> &payload     Deref (managed, local handles: safe code) or the raw handles' unsafe
                                             `as_ref`, whose documented safety contract is liveness only, so the auto
                                             traits are the only gate against cross-thread use ("contract" access)
       write path   &mut handle -> &mut payload  (unique handles: DerefMut / as_pin_mut / as_mut)
       drop of the last managed handle destroys the payload on the dropping thread; into_inner moves it out there.

   The table Rows (one record per handle type x payload shape, with send/sync/clone/deref/derefmut) and Classes (the
   payload classes with their own Send/Sync) are produced by `h_poolmt probe`, i.e. by rustc, and written into a
   generated MC module by checks/c03.py. TLC explores every distribution of <= 2 handle instances and their borrows
   over 2 threads reachable by those rules, for every row and every payload class that can actually be behind it.

   Invariants = the property:
       SharedRefNeedsSync   the payload is readable from two threads only if it is Sync
       MutExclusive         a thread with write access excludes every other access
       ForeignNeedsSend     write access, destruction or move-out on a thread other than the creating one only if Send *)
EXTENDS Naturals, FiniteSets, TLC

CONSTANTS Rows, Classes

Threads == {1, 2}
Home == 1               \* the thread that inserted the object
H == {1, 2}             \* handle instances

VARIABLES
    row,        \* the handle type under test (a record of Rows)
    pay,        \* the class of the object actually behind the handle
    own,        \* H -> 0 (no such instance) | owning thread
    shr,        \* H -> set of threads holding &instance
    mt,         \* H -> 0 | thread holding &mut instance
    droppedOn,  \* 0 | thread on which the payload was destroyed by the last managed handle
    movedTo     \* 0 | thread on which the payload was moved out (into_inner)

vars == <<row, pay, own, shr, mt, droppedOn, movedTo>>

HasMarkers(r, c) ==
    CASE r.shape = "dyn+Send" -> c.ps
      [] r.shape = "dyn+Sync" -> c.py
      [] r.shape = "dyn+Send+Sync" -> c.ps /\ c.py
      [] OTHER -> TRUE

\* can an object of class c be behind a handle of row r at all?
Feasible(r, c) ==
    /\ r.shape = "sized" => r.pc = c.name
    /\ HasMarkers(r, c)                   \* a cast to dyn Tr + M needs T : M
    /\ r.fam = "managed" => c.ps          \* OpaquePool/PinnedPool/BlindPool::insert demand T : Send (signature)

HandleRows == { r \in Rows : r.fam \in {"managed", "raw", "local"} /\ r.shape # "pool" }

Access == CASE row.shape = "erased" -> "none"
            [] row.fam = "raw" -> "contract"
            [] row.deref -> "safe"
            [] OTHER -> "none"
Unique == ~row.clone
ReadPath == Access # "none"
WritePath == Access # "none" /\ Unique

Exists(h) == own[h] # 0
CanUse(x, h) == Exists(h) /\ ((own[h] = x /\ mt[h] = 0) \/ x \in shr[h] \/ mt[h] = x)
CanUseMut(x, h) == Exists(h) /\ ((own[h] = x /\ mt[h] = 0 /\ shr[h] = {}) \/ mt[h] = x)
CanRead(x) == ReadPath /\ \E h \in H : CanUse(x, h)
CanWrite(x) == WritePath /\ \E h \in H : CanUseMut(x, h)

Init ==
    /\ row \in HandleRows
    /\ pay \in { c \in Classes : Feasible(row, c) }
    /\ own = [h \in H |-> IF h = 1 THEN Home ELSE 0]
    /\ shr = [h \in H |-> {}]
    /\ mt = [h \in H |-> 0]
    /\ droppedOn = 0 /\ movedTo = 0

Clone(x, h, h2) ==
    /\ row.clone /\ CanUse(x, h) /\ ~Exists(h2)
    /\ own' = [own EXCEPT ![h2] = x]
    /\ UNCHANGED <<row, pay, shr, mt, droppedOn, movedTo>>

Move(h, u) ==
    /\ Exists(h) /\ own[h] # u /\ shr[h] = {} /\ mt[h] = 0
    /\ row.send
    /\ own' = [own EXCEPT ![h] = u]
    /\ UNCHANGED <<row, pay, shr, mt, droppedOn, movedTo>>

Share(h, u) ==
    /\ Exists(h) /\ u # own[h] /\ u \notin shr[h] /\ mt[h] = 0
    /\ row.sync
    /\ shr' = [shr EXCEPT ![h] = @ \cup {u}]
    /\ UNCHANGED <<row, pay, own, mt, droppedOn, movedTo>>

LendMut(h, u) ==
    /\ Exists(h) /\ u # own[h] /\ shr[h] = {} /\ mt[h] = 0
    /\ row.send
    /\ mt' = [mt EXCEPT ![h] = u]
    /\ UNCHANGED <<row, pay, own, shr, droppedOn, movedTo>>

Unshare(h, u) ==
    /\ u \in shr[h]
    /\ shr' = [shr EXCEPT ![h] = @ \ {u}]
    /\ UNCHANGED <<row, pay, own, mt, droppedOn, movedTo>>

Unlend(h) ==
    /\ mt[h] # 0
    /\ mt' = [mt EXCEPT ![h] = 0]
    /\ UNCHANGED <<row, pay, own, shr, droppedOn, movedTo>>

DropHandle(h) ==
    /\ Exists(h) /\ shr[h] = {} /\ mt[h] = 0
    /\ own' = [own EXCEPT ![h] = 0]
    \* the last managed handle removes the object from the pool: its destructor runs here
    /\ droppedOn' = IF row.fam = "managed" /\ \A g \in H \ {h} : ~Exists(g) THEN own[h] ELSE droppedOn
    /\ UNCHANGED <<row, pay, shr, mt, movedTo>>

IntoInner(h) ==
    /\ Exists(h) /\ shr[h] = {} /\ mt[h] = 0
    /\ Unique /\ row.fam \in {"managed", "local"} /\ row.shape = "sized"
    /\ own' = [own EXCEPT ![h] = 0]
    /\ movedTo' = own[h]
    /\ UNCHANGED <<row, pay, shr, mt, droppedOn>>

Next ==
    \/ \E x \in Threads, h \in H, h2 \in H : Clone(x, h, h2)
    \/ \E h \in H, u \in Threads : Move(h, u) \/ Share(h, u) \/ LendMut(h, u) \/ Unshare(h, u)
    \/ \E h \in H : Unlend(h) \/ DropHandle(h) \/ IntoInner(h)

Spec == Init /\ [][Next]_vars

-----------------------------------------------------------------------------------------------------------
TypeOK ==
    /\ own \in [H -> 0..2] /\ shr \in [H -> SUBSET Threads] /\ mt \in [H -> 0..2]
    /\ droppedOn \in 0..2 /\ movedTo \in 0..2

SharedRefNeedsSync == Cardinality({ x \in Threads : CanRead(x) }) >= 2 => pay.py

MutExclusive == \A x \in Threads : CanWrite(x) => \A y \in Threads \ {x} : ~CanRead(y) /\ ~CanWrite(y)

ForeignNeedsSend == (\E x \in Threads \ {Home} : CanWrite(x) \/ droppedOn = x \/ movedTo = x) => pay.ps

Violated ==
    CASE ~SharedRefNeedsSync -> "shared-ref-two-threads"
      [] ~MutExclusive -> "mut-not-exclusive"
      [] ~ForeignNeedsSend -> "payload-on-foreign-thread"
      [] OTHER -> "ok"

\* sanity of the measurement itself: the payload classes are what their names say
ClassesAsNamed ==
    \A c \in Classes : CASE c.name = "SS" -> c.ps /\ c.py [] c.name = "SN" -> c.ps /\ ~c.py
                         [] c.name = "NS" -> ~c.ps /\ c.py [] c.name = "NN" -> ~c.ps /\ ~c.py [] OTHER -> FALSE

\* pools: a pool value that can move to (Send) or be used from (Sync: insert/drop through &pool for the managed ones)
\* another thread must only ever hold Send objects. accepts(r) = classes the pool's insert accepts (signature).
PoolRows == { r \in Rows : r.shape = "pool" }
PoolAccepts(r, c) == IF r.fam = "managed" THEN c.ps ELSE (r.pc = "-" \/ r.pc = c.name)
PoolsOk == \A r \in PoolRows : \A c \in Classes :
              (PoolAccepts(r, c) /\ (r.send \/ (r.sync /\ r.fam = "managed"))) => c.ps
=============================================================================
