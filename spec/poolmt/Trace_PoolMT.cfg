CONSTANTS MaxT = 16
SPECIFICATION TraceSpec
POSTCONDITION Accepted
CHECK_DEADLOCK FALSE
