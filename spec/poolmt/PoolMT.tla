------------------------------ MODULE PoolMT ------------------------------
(* EXPLORER for C03-A: the structure of the thread-safe pools (OpaquePool / PinnedPool / BlindPool):

     pool value            = Arc<Mutex<raw pool>>                       (opaque/pool_managed.rs OpaquePool::inner)
     unique handle         = raw handle + Arc<Mutex<raw pool>>          (handles/managed_mut.rs)
     shared handle family  = raw handle + Arc<Remover>, Remover = raw handle + Arc<Mutex<raw pool>>   (handles/managed.rs)

   Every pool method is ONE action, at its lock acquisition (everything it does happens under the one mutex). What is
   NOT one action, and is therefore split here:
     insert            critical section; then Arc::clone(&inner) for the new handle
     drop(unique)      critical section (remove, destructor inside); then the handle's Arc<Mutex> is released
     drop(shared)      Arc<Remover> fetch_sub; only the thread that saw 1: critical section (remove); then Arc<Mutex> released
     into_inner        critical section (remove_unpin); then Arc<Mutex> released
   The raw pool is freed when the last Arc<Mutex> goes. TLC explores all interleavings of NT threads x MaxOps operations
   from every initial distribution of one object's handles and of pool values over the threads.

   Checked (C02's invariants under concurrency): every object destroyed at most once, never while a handle exists,
   at the latest when the drop of the last handle returns; storage alive while any handle or pool value exists; len
   observed under the lock = abstract pool; quiescent len = live objects.
   CloneSharesRemover = TRUE is the code; FALSE is a seeded model mutation (Clone creates a fresh Arc<Remover>) that
   must violate DropOnce -- used to show the invariants are not vacuous.                                          *)
EXTENDS Naturals, FiniteSets, Sequences, TLC

CONSTANTS NT, MaxOps, MaxObj, CloneSharesRemover

Thr == 1..NT
Obj == 1..MaxObj
NoObj == 0

VARIABLES
    arc,        \* strong count of Arc<Mutex<raw pool>>
    alive,      \* the raw pool (storage) has not been freed
    lock,       \* 0 | thread inside a critical section (critical sections are single actions, so always 0 between steps)
    st,         \* Obj -> "none" | "live" | "dead" | "out"
    length,     \* RawOpaquePool::length
    hs,         \* set of handle instances [id, o, t, kind ("u"|"s"), fam]   (fam = remover family of a shared handle)
    rem,        \* family -> strong count of that Arc<Remover>
    pv,         \* Thr -> BOOLEAN : the thread holds a pool value
    pc,         \* Thr -> [op, step, o, fam]  pending multi-step operation
    done,       \* Thr -> operations completed
    dropCount,  \* Obj -> destructor runs
    uaf,        \* the freed raw pool was touched
    abs,        \* abstract pool: set of live objects (updated at the linearization points)
    nextId, nextFam

vars == <<arc, alive, lock, st, length, hs, rem, pv, pc, done, dropCount, uaf, abs, nextId, nextFam>>

Idle == [op |-> "-", step |-> 0, o |-> NoObj, fam |-> 0]

\* initial distributions: object 1 may exist with a unique handle at one thread, or a shared family with clones at
\* any non-empty set of threads; any non-empty... set of threads holds a pool value (possibly none: all dropped)
InitConfigs ==
    { [kind |-> k, holders |-> H, pools |-> P] :
        k \in {"none", "u", "s"}, H \in SUBSET Thr, P \in SUBSET Thr }

ValidCfg(c) ==
    /\ c.kind = "none" => c.holders = {}
    /\ c.kind = "u" => Cardinality(c.holders) = 1
    /\ c.kind = "s" => c.holders # {}
    /\ (c.kind = "none") => c.pools # {}          \* somebody must be able to do something

Init ==
    \E c \in { c \in InitConfigs : ValidCfg(c) } :
        /\ st = [o \in Obj |-> IF o = 1 /\ c.kind # "none" THEN "live" ELSE "none"]
        /\ length = IF c.kind = "none" THEN 0 ELSE 1
        /\ abs = IF c.kind = "none" THEN {} ELSE {1}
        /\ hs = { [id |-> t, o |-> 1, t |-> t, kind |-> c.kind, fam |-> IF c.kind = "s" THEN 1 ELSE 0] : t \in c.holders }
        /\ rem = [f \in 1..(MaxObj + NT * MaxOps + 1) |-> IF f = 1 /\ c.kind = "s" THEN Cardinality(c.holders) ELSE 0]
        /\ pv = [t \in Thr |-> t \in c.pools]
        \* one Arc per pool value, per unique handle, per remover family
        /\ arc = Cardinality(c.pools) + (IF c.kind = "none" THEN 0 ELSE 1)
        /\ alive = TRUE /\ lock = 0
        /\ pc = [t \in Thr |-> Idle] /\ done = [t \in Thr |-> 0]
        /\ dropCount = [o \in Obj |-> 0] /\ uaf = FALSE
        /\ nextId = NT + 1 /\ nextFam = 2

CanStart(t) == pc[t].op = "-" /\ done[t] < MaxOps
Finish(t) == /\ pc' = [pc EXCEPT ![t] = Idle] /\ done' = [done EXCEPT ![t] = @ + 1]

\* touching the raw pool (lock + body) when it was freed is a use after free
Touch == uaf' = (uaf \/ ~alive)

ReleaseArc == /\ arc' = arc - 1 /\ alive' = (alive /\ arc - 1 > 0)

-----------------------------------------------------------------------------------------------------------
InsertCS(t) ==
    /\ CanStart(t) /\ pv[t]
    /\ \E o \in Obj :
        /\ st[o] = "none" /\ \A p \in Obj : p < o => st[p] # "none"
        /\ st' = [st EXCEPT ![o] = "live"] /\ length' = length + 1 /\ abs' = abs \cup {o}
        /\ pc' = [pc EXCEPT ![t] = [op |-> "insert", step |-> 2, o |-> o, fam |-> 0]]
    /\ Touch
    /\ UNCHANGED <<arc, alive, lock, hs, rem, pv, done, dropCount, nextId, nextFam>>

InsertArc(t) ==
    /\ pc[t].op = "insert" /\ pc[t].step = 2
    /\ arc' = arc + 1
    /\ hs' = hs \cup {[id |-> nextId, o |-> pc[t].o, t |-> t, kind |-> "u", fam |-> 0]}
    /\ nextId' = nextId + 1
    /\ Finish(t)
    /\ UNCHANGED <<alive, lock, st, length, rem, pv, dropCount, uaf, abs, nextFam>>

\* critical section of a removal by thread t of object o (destructor inside, then bookkeeping)
RemoveCS(t, o) ==
    /\ dropCount' = [dropCount EXCEPT ![o] = @ + 1]
    /\ st' = [st EXCEPT ![o] = "dead"]
    /\ length' = length - 1 /\ abs' = abs \ {o}
    /\ Touch

DropUnique(t) ==
    /\ CanStart(t)
    /\ \E h \in hs :
        /\ h.t = t /\ h.kind = "u"
        /\ hs' = hs \ {h}
        /\ RemoveCS(t, h.o)
        /\ pc' = [pc EXCEPT ![t] = [op |-> "dropu", step |-> 2, o |-> h.o, fam |-> 0]]
    /\ UNCHANGED <<arc, alive, lock, rem, pv, done, nextId, nextFam>>

IntoInner(t) ==
    /\ CanStart(t)
    /\ \E h \in hs :
        /\ h.t = t /\ h.kind = "u"
        /\ hs' = hs \ {h}
        /\ st' = [st EXCEPT ![h.o] = "out"] /\ length' = length - 1 /\ abs' = abs \ {h.o}
        /\ Touch
        /\ pc' = [pc EXCEPT ![t] = [op |-> "inner", step |-> 2, o |-> h.o, fam |-> 0]]
    /\ UNCHANGED <<arc, alive, lock, rem, pv, done, dropCount, nextId, nextFam>>

ReleaseStep(t) ==      \* the Arc<Mutex> of a unique handle / remover goes
    /\ pc[t].op \in {"dropu", "inner", "drops"} /\ pc[t].step = 2
    /\ ReleaseArc
    /\ Finish(t)
    /\ UNCHANGED <<lock, st, length, hs, rem, pv, dropCount, uaf, abs, nextId, nextFam>>

IntoShared(t) ==
    /\ CanStart(t)
    /\ \E h \in hs :
        /\ h.t = t /\ h.kind = "u"
        /\ hs' = (hs \ {h}) \cup {[h EXCEPT !.kind = "s", !.fam = nextFam]}
        /\ rem' = [rem EXCEPT ![nextFam] = 1]
        /\ nextFam' = nextFam + 1
    /\ done' = [done EXCEPT ![t] = @ + 1]
    /\ UNCHANGED <<arc, alive, lock, st, length, pv, pc, dropCount, uaf, abs, nextId>>

CloneShared(t) ==
    /\ CanStart(t)
    /\ \E h \in hs :
        /\ h.t = t /\ h.kind = "s"
        /\ IF CloneSharesRemover
           THEN /\ rem' = [rem EXCEPT ![h.fam] = @ + 1]
                /\ hs' = hs \cup {[h EXCEPT !.id = nextId]}
                /\ UNCHANGED <<nextFam, arc>>
           ELSE /\ rem' = [rem EXCEPT ![nextFam] = 1]         \* seeded mutation: a second remover for the same object
                /\ hs' = hs \cup {[h EXCEPT !.id = nextId, !.fam = nextFam]}
                /\ nextFam' = nextFam + 1 /\ arc' = arc + 1
    /\ nextId' = nextId + 1
    /\ done' = [done EXCEPT ![t] = @ + 1]
    /\ UNCHANGED <<alive, lock, st, length, pv, pc, dropCount, uaf, abs>>

\* a shared handle moves to another thread (channel / exchange): no pool effect
Give(t) ==
    /\ CanStart(t)
    /\ \E h \in hs, u \in Thr \ {t} :
        /\ h.t = t
        /\ hs' = (hs \ {h}) \cup {[h EXCEPT !.t = u]}
    /\ done' = [done EXCEPT ![t] = @ + 1]
    /\ UNCHANGED <<arc, alive, lock, st, length, rem, pv, pc, dropCount, uaf, abs, nextId, nextFam>>

DropSharedDec(t) ==      \* Arc<Remover>::drop: fetch_sub
    /\ CanStart(t)
    /\ \E h \in hs :
        /\ h.t = t /\ h.kind = "s"
        /\ hs' = hs \ {h}
        /\ rem' = [rem EXCEPT ![h.fam] = @ - 1]
        /\ IF rem[h.fam] = 1
           THEN pc' = [pc EXCEPT ![t] = [op |-> "drops", step |-> 1, o |-> h.o, fam |-> h.fam]] /\ UNCHANGED done
           ELSE Finish(t)
    /\ UNCHANGED <<arc, alive, lock, st, length, pv, dropCount, uaf, abs, nextId, nextFam>>

DropSharedCS(t) ==       \* Remover::drop: lock, remove
    /\ pc[t].op = "drops" /\ pc[t].step = 1
    /\ RemoveCS(t, pc[t].o)
    /\ pc' = [pc EXCEPT ![t].step = 2]
    /\ UNCHANGED <<arc, alive, lock, hs, rem, pv, done, nextId, nextFam>>

LenOp(t) ==
    /\ CanStart(t) /\ pv[t]
    /\ Touch
    /\ done' = [done EXCEPT ![t] = @ + 1]
    /\ UNCHANGED <<arc, alive, lock, st, length, hs, rem, pv, pc, dropCount, abs, nextId, nextFam>>

DropPool(t) ==
    /\ CanStart(t) /\ pv[t]
    /\ pv' = [pv EXCEPT ![t] = FALSE]
    /\ ReleaseArc
    /\ done' = [done EXCEPT ![t] = @ + 1]
    /\ UNCHANGED <<lock, st, length, hs, rem, pc, dropCount, uaf, abs, nextId, nextFam>>

Next ==
    \E t \in Thr :
        \/ InsertCS(t) \/ InsertArc(t) \/ DropUnique(t) \/ IntoInner(t) \/ ReleaseStep(t) \/ IntoShared(t)
        \/ CloneShared(t) \/ Give(t) \/ DropSharedDec(t) \/ DropSharedCS(t) \/ LenOp(t) \/ DropPool(t)

Spec == Init /\ [][Next]_vars

-----------------------------------------------------------------------------------------------------------
TypeOK ==
    /\ arc \in 0..(NT + MaxObj + NT * MaxOps + 2) /\ alive \in BOOLEAN /\ lock = 0
    /\ st \in [Obj -> {"none", "live", "dead", "out"}] /\ length \in 0..MaxObj
    /\ pv \in [Thr -> BOOLEAN] /\ done \in [Thr -> 0..MaxOps] /\ uaf \in BOOLEAN

DropOnce == \A o \in Obj : dropCount[o] <= 1
\* never destroyed (or moved out) while a handle exists
NotBefore == \A h \in hs : st[h.o] = "live"
\* storage stays valid while any handle / pool value / pending operation holds an Arc
StorageValid == ~uaf /\ ((hs # {} \/ \E t \in Thr : pv[t] \/ pc[t].op # "-") => alive)
AccountingUnderLock == length = Cardinality(abs) /\ abs = { o \in Obj : st[o] = "live" }
Quiescent == \A t \in Thr : pc[t].op = "-"
\* nobody is in the middle of dropping: every live object is held, everything else is gone (no leak, not later)
NotLater == Quiescent => \A o \in Obj : st[o] = "live" => \E h \in hs : h.o = o
ArcCount == alive => arc = Cardinality({ t \in Thr : pv[t] }) + Cardinality({ h \in hs : h.kind = "u" })
                          + Cardinality({ f \in DOMAIN rem : rem[f] > 0 })
                          + Cardinality({ t \in Thr : pc[t].op \in {"dropu", "inner"} \/ (pc[t].op = "drops") })
=============================================================================
