CONSTANTS NT = 3  MaxOps = 2  MaxObj = 2  CloneSharesRemover = FALSE
SPECIFICATION Spec
INVARIANT TypeOK DropOnce NotBefore StorageValid
CHECK_DEADLOCK FALSE
