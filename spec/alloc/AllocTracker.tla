------------------------------ MODULE AllocTracker ------------------------------
(* EXPLORER for C18: mirrors packages/alloc_tracker/src  allocator.rs, thread_span.rs, process_span.rs, operation.rs,
   operation_metrics.rs, report.rs, session.rs, one public call per action.

     REGISTRY            reg: sequence of per-thread counters [bytes, count]; entries are never removed
     TLS_COUNTER_PTR     tls[t]: index into reg, 0 = not initialised (get_or_init_thread_counters registers lazily:
                         at the thread's first tracked call or first thread span)
     Allocator<A>        alloc / alloc_zeroed: track_allocation(layout.size()) then delegate; realloc:
                         track_allocation(new_size) then delegate; dealloc: delegate only
     ThreadSpan          start snapshot of the creating thread's counters; drop: current - start -> add_span
     ProcessSpan         start snapshot = allocation_totals() (sum over the registry); drop likewise
     OperationMetrics    total_iterations / total_bytes / total_count, per session and operation name
     inner allocator     hands out fresh pointer ids; realloc may move or not; the tracker returns its answers

   The judge (AllocTrackerAbs) advances in lock-step on the same operation.  Invariants: what a report of any session
   would show is what the judge demands; the inner allocator saw exactly the outer call sequence.                  *)
EXTENDS AllocTrackerAbs, TLC

CONSTANTS
    Threads,      \* thread ids 1..n
    Sizes,        \* request sizes
    Methods,      \* which of "alloc", "alloc_zeroed" the behaviours use
    Sessions, OpNames,
    MaxCalls, MaxSpans, MaxSteps,
    Iters         \* iteration counts given to spans

VARIABLES reg, tls, live, spanState, metrics, outerLog, innerLog, ncalls, nspans, steps, hist

implVars == <<reg, tls, live, spanState, metrics, outerLog, innerLog>>
vars == <<tot, open, ops, reg, tls, live, spanState, metrics, outerLog, innerLog, ncalls, nspans, steps, hist>>
View == <<tot, open, ops, reg, tls, live, spanState, metrics, outerLog, innerLog, ncalls, nspans, steps>>

Init ==
    /\ AbsInit
    /\ reg = <<>> /\ tls = [t \in Threads |-> 0]
    /\ live = <<>>                         \* live allocations: ptr id -> size
    /\ spanState = <<>>                    \* span id -> [kind, t, s, o, sb, sc]
    /\ metrics = [s \in Sessions |-> [o \in OpNames |-> [bytes |-> 0, count |-> 0, iters |-> 0, spans |-> 0]]]
    /\ outerLog = <<>> /\ innerLog = <<>>
    /\ ncalls = 0 /\ nspans = 0 /\ steps = 0 /\ hist = <<>>

\* the inner allocator hands out the smallest pointer id not in use (ids stand for addresses, which are reused too)
nextPtr == CHOOSE p \in 1..(Cardinality(DOMAIN live) + 1) : p \notin DOMAIN live /\ \A q \in 1..(p - 1) : q \in DOMAIN live

\* get_or_init_thread_counters: registry after the call and the thread's index
RegAfterInit(t) == IF tls[t] = 0 THEN Append(reg, [bytes |-> 0, count |-> 0]) ELSE reg
IdxAfterInit(t) == IF tls[t] = 0 THEN Len(reg) + 1 ELSE tls[t]

\* track_allocation(size) on thread t
Track(t, size) ==
    LET r == RegAfterInit(t)  i == IdxAfterInit(t) IN
    /\ reg' = [r EXCEPT ![i] = [bytes |-> @.bytes + size, count |-> @.count + 1]]
    /\ tls' = [tls EXCEPT ![t] = i]

\* outerLog / innerLog hold the LAST call only (what the caller passed and got / what the inner allocator received and
\* answered): the inner allocator receives the same request and its answer is returned
Log(entry) ==
    /\ outerLog' = <<entry>>
    /\ innerLog' = <<entry>>

Alloc(t, m, size) ==
    /\ ncalls < MaxCalls
    /\ Track(t, size)
    /\ live' = [x \in DOMAIN live \cup {nextPtr} |-> IF x = nextPtr THEN size ELSE live[x]]
    /\ Log([m |-> m, size |-> size, ptr |-> 0, nsize |-> 0, ret |-> nextPtr])
    /\ JCall(t, m, size)
    /\ ncalls' = ncalls + 1
    /\ hist' = Append(hist, [op |-> "call", t |-> t, m |-> m, p |-> nextPtr, size |-> size, q |-> 0, id |-> 0, kind |-> "", s |-> 0, o |-> "", iters |-> 0])
    /\ UNCHANGED <<spanState, metrics, nspans>>

\* realloc(ptr, layout, new_size): moved \in BOOLEAN is the inner allocator's choice
Realloc(t, p, nsize, moved) ==
    /\ ncalls < MaxCalls
    /\ p \in DOMAIN live
    /\ Track(t, nsize)
    /\ LET q == IF moved THEN nextPtr ELSE p IN
       /\ live' = [x \in (DOMAIN live \ {p}) \cup {q} |-> IF x = q THEN nsize ELSE live[x]]
       /\ Log([m |-> "realloc", size |-> live[p], ptr |-> p, nsize |-> nsize, ret |-> q])
       /\ hist' = Append(hist, [op |-> "call", t |-> t, m |-> "realloc", p |-> p, size |-> nsize, q |-> q, id |-> 0, kind |-> "", s |-> 0, o |-> "", iters |-> 0])
    /\ JCall(t, "realloc", nsize)
    /\ ncalls' = ncalls + 1
    /\ UNCHANGED <<spanState, metrics, nspans>>

Dealloc(t, p) ==
    /\ ncalls < MaxCalls
    /\ p \in DOMAIN live
    /\ live' = [x \in DOMAIN live \ {p} |-> live[x]]
    /\ Log([m |-> "dealloc", size |-> live[p], ptr |-> p, nsize |-> 0, ret |-> 0])
    /\ JCall(t, "dealloc", live[p])
    /\ ncalls' = ncalls + 1
    /\ hist' = Append(hist, [op |-> "call", t |-> t, m |-> "dealloc", p |-> p, size |-> live[p], q |-> 0, id |-> 0, kind |-> "", s |-> 0, o |-> "", iters |-> 0])
    /\ UNCHANGED <<reg, tls, spanState, metrics, nspans>>

RegBytes(r) == LET RECURSIVE F(_) F(i) == IF i = 0 THEN 0 ELSE r[i].bytes + F(i - 1) IN F(Len(r))
RegCount(r) == LET RECURSIVE F(_) F(i) == IF i = 0 THEN 0 ELSE r[i].count + F(i - 1) IN F(Len(r))

SpanStart(t, kind, s, o) ==
    /\ nspans < MaxSpans
    /\ LET id == nspans + 1 IN
       /\ IF kind = "thread"
          THEN \* ThreadSpan::new: get_or_init_thread_counters(), then read bytes and count
               /\ reg' = RegAfterInit(t) /\ tls' = [tls EXCEPT ![t] = IdxAfterInit(t)]
               /\ spanState' = [x \in DOMAIN spanState \cup {id} |-> IF x = id
                                  THEN [kind |-> kind, t |-> t, s |-> s, o |-> o,
                                        sb |-> RegAfterInit(t)[IdxAfterInit(t)].bytes, sc |-> RegAfterInit(t)[IdxAfterInit(t)].count]
                                  ELSE spanState[x]]
          ELSE \* ProcessSpan::new: allocation_totals()
               /\ UNCHANGED <<reg, tls>>
               /\ spanState' = [x \in DOMAIN spanState \cup {id} |-> IF x = id
                                  THEN [kind |-> kind, t |-> t, s |-> s, o |-> o, sb |-> RegBytes(reg), sc |-> RegCount(reg)]
                                  ELSE spanState[x]]
       /\ JSpanStart(id, t, kind, s, o)
       /\ hist' = Append(hist, [op |-> "span_start", t |-> t, m |-> "", p |-> 0, size |-> 0, q |-> 0, id |-> id, kind |-> kind, s |-> s, o |-> o, iters |-> 0])
    /\ nspans' = nspans + 1
    /\ UNCHANGED <<live, metrics, outerLog, innerLog, ncalls>>

\* Drop for ThreadSpan / ProcessSpan: deltas, then OperationMetrics::add_span
SpanEnd(t, id, iters) ==
    /\ id \in DOMAIN spanState
    /\ LET sp == spanState[id] IN
       /\ sp.kind = "thread" => sp.t = t           \* ThreadSpan is !Send
       /\ LET r == IF sp.kind = "thread" THEN RegAfterInit(t) ELSE reg
              db == (IF sp.kind = "thread" THEN r[IdxAfterInit(t)].bytes ELSE RegBytes(reg)) - sp.sb
              dc == (IF sp.kind = "thread" THEN r[IdxAfterInit(t)].count ELSE RegCount(reg)) - sp.sc
          IN /\ metrics' = [metrics EXCEPT ![sp.s][sp.o] =
                              [bytes |-> @.bytes + db, count |-> @.count + dc, iters |-> @.iters + iters, spans |-> @.spans + 1]]
             /\ reg' = r
             /\ tls' = IF sp.kind = "thread" THEN [tls EXCEPT ![t] = IdxAfterInit(t)] ELSE tls
    /\ spanState' = [x \in DOMAIN spanState \ {id} |-> spanState[x]]
    /\ JSpanEnd(id, t, iters)
    /\ hist' = Append(hist, [op |-> "span_end", t |-> t, m |-> "", p |-> 0, size |-> 0, q |-> 0, id |-> id, kind |-> "", s |-> 0, o |-> "", iters |-> iters])
    /\ UNCHANGED <<live, outerLog, innerLog, ncalls, nspans>>

Next ==
    /\ steps < MaxSteps
    /\ steps' = steps + 1
    /\ \E t \in Threads :
          \/ \E m \in Methods, size \in Sizes : Alloc(t, m, size)
          \/ \E p \in DOMAIN live, size \in Sizes, mv \in BOOLEAN : Realloc(t, p, size, mv)
          \/ \E p \in DOMAIN live : Dealloc(t, p)
          \/ \E kind \in {"thread", "process"}, s \in Sessions, o \in OpNames : SpanStart(t, kind, s, o)
          \/ \E id \in DOMAIN spanState, it \in Iters : SpanEnd(t, id, it)

Spec == Init /\ [][Next]_vars

-----------------------------------------------------------------------------
\* Session::to_report(): every operation of the session with its totals
ReportOf(s) ==
    LET RECURSIVE ToSeq(_)
        ToSeq(S) == IF S = {} THEN <<>> ELSE LET o == CHOOSE o \in S : TRUE IN
                      <<[o |-> o, bytes |-> metrics[s][o].bytes, count |-> metrics[s][o].count, iters |-> metrics[s][o].iters]>> \o ToSeq(S \ {o})
    IN ToSeq(OpNames)

ReportsMatch == \A s \in Sessions : ReportOk(s, ReportOf(s))
MergedMatch == \A s1, s2 \in Sessions :
    LET r1 == ReportOf(s1)
        r2 == ReportOf(s2)
        m == [i \in 1..Len(r1) |->
                 LET y == Lookup(r2, r1[i].o) IN
                 [o |-> r1[i].o, bytes |-> r1[i].bytes + y.bytes, count |-> r1[i].count + y.count, iters |-> r1[i].iters + y.iters]]
    IN MergeOk(r1, r2, m)
Transparent == innerLog = outerLog
\* the registry only grows and every initialised thread points at its own entry
RegistryOk == /\ \A t \in Threads : tls[t] \in 0..Len(reg)
              /\ \A t1, t2 \in Threads : (t1 # t2 /\ tls[t1] # 0) => tls[t1] # tls[t2]
\* the counters are the judge's totals
CountersMatch == \A t \in Threads : (IF tls[t] = 0 THEN [bytes |-> 0, count |-> 0] ELSE reg[tls[t]]) = TotOf(t)
=============================================================================
