------------------------------ MODULE AllocTrackerAbs ------------------------------
(* JUDGE for C18: what alloc_tracker owes the caller, stated on the history of allocator calls.

   "A thread span reports exactly the number of allocation calls and the sum of requested sizes made by that thread
    between its start and end (one call and the full new size per reallocation, nothing for frees); a process span
    reports the same totals over all threads; reports are the sums of their spans per operation.  The tracking allocator
    returns exactly what the wrapped allocator returns and forwards every request and release to it unchanged."

   Abstract state
     tot[t]      [bytes, count]: requested bytes / number of alloc, alloc_zeroed and realloc calls made BY thread t so far
     open[id]    open spans: [kind |-> "thread" | "process", t |-> owner, s |-> session, o |-> operation, b, c |-> totals at start]
     ops[s][o]   per session and operation: [bytes, count, iters, spans] = sums over the spans that ended
   Nothing here knows about per-thread atomic counters, registries, thread-locals or re-entrancy guards.             *)
EXTENDS Integers, Sequences, FiniteSets

VARIABLES tot, open, ops

absVars == <<tot, open, ops>>

Z2 == [bytes |-> 0, count |-> 0]
ZOp == [bytes |-> 0, count |-> 0, iters |-> 0, spans |-> 0]

TotOf(t) == IF t \in DOMAIN tot THEN tot[t] ELSE Z2

SumOver(S, F(_)) ==
    LET RECURSIVE G(_)
        G(R) == IF R = {} THEN 0 ELSE LET x == CHOOSE x \in R : TRUE IN F(x) + G(R \ {x})
    IN G(S)

AllBytes == LET f(t) == tot[t].bytes IN SumOver(DOMAIN tot, f)
AllCount == LET f(t) == tot[t].count IN SumOver(DOMAIN tot, f)

OpOf(s, o) == IF s \in DOMAIN ops /\ o \in DOMAIN ops[s] THEN ops[s][o] ELSE ZOp

AbsInit ==
    /\ tot = <<>>      \* function with empty domain
    /\ open = <<>>
    /\ ops = <<>>

Counted == {"alloc", "alloc_zeroed", "realloc"}

\* thread t calls method m of the tracking allocator; size = layout.size() (alloc, alloc_zeroed) or new_size (realloc)
JCall(t, m, size) ==
    /\ IF m \in Counted
       THEN tot' = [x \in DOMAIN tot \cup {t} |-> IF x = t THEN [bytes |-> TotOf(t).bytes + size, count |-> TotOf(t).count + 1]
                                                  ELSE tot[x]]
       ELSE tot' = tot                                   \* dealloc counts nothing
    /\ UNCHANGED <<open, ops>>

JSpanStart(id, t, kind, s, o) ==
    /\ id \notin DOMAIN open
    /\ open' = [x \in DOMAIN open \cup {id} |->
                  IF x = id THEN [kind |-> kind, t |-> t, s |-> s, o |-> o,
                                  b |-> IF kind = "thread" THEN TotOf(t).bytes ELSE AllBytes,
                                  c |-> IF kind = "thread" THEN TotOf(t).count ELSE AllCount]
                  ELSE open[x]]
    /\ UNCHANGED <<tot, ops>>

\* the span ends (is dropped) on thread t with its iteration count; a thread span lives and dies on its own thread
JSpanEnd(id, t, iters) ==
    /\ id \in DOMAIN open
    /\ LET sp == open[id]
           db == (IF sp.kind = "thread" THEN TotOf(sp.t).bytes ELSE AllBytes) - sp.b
           dc == (IF sp.kind = "thread" THEN TotOf(sp.t).count ELSE AllCount) - sp.c
           old == OpOf(sp.s, sp.o)
           new == [bytes |-> old.bytes + db, count |-> old.count + dc, iters |-> old.iters + iters, spans |-> old.spans + 1]
           sOps == IF sp.s \in DOMAIN ops THEN ops[sp.s] ELSE <<>>
       IN /\ sp.kind = "thread" => sp.t = t
          /\ ops' = [x \in DOMAIN ops \cup {sp.s} |->
                        IF x = sp.s THEN [y \in DOMAIN sOps \cup {sp.o} |-> IF y = sp.o THEN new ELSE sOps[y]]
                        ELSE ops[x]]
    /\ open' = [x \in DOMAIN open \ {id} |-> open[x]]
    /\ UNCHANGED tot

-----------------------------------------------------------------------------
(* A report of session s: rep = sequence of [o |-> name, bytes, count, iters].  Every listed operation shows the sums
   of its ended spans; every operation that has ended spans is listed; no operation is listed twice. *)
ReportOk(s, rep) ==
    /\ \A i \in DOMAIN rep : LET e == OpOf(s, rep[i].o) IN
                              rep[i].bytes = e.bytes /\ rep[i].count = e.count /\ rep[i].iters = e.iters
    /\ \A i, j \in DOMAIN rep : i # j => rep[i].o # rep[j].o
    /\ s \in DOMAIN ops => \A o \in DOMAIN ops[s] : \E i \in DOMAIN rep : rep[i].o = o

\* Report::merge(a, b): per operation the sum of both sides
Lookup(rep, o) == LET I == { i \in DOMAIN rep : rep[i].o = o } IN
                  IF I = {} THEN ZOp ELSE LET i == CHOOSE i \in I : TRUE IN
                                          [bytes |-> rep[i].bytes, count |-> rep[i].count, iters |-> rep[i].iters, spans |-> 0]
NamesOf(rep) == { rep[i].o : i \in DOMAIN rep }
MergeOk(a, b, m) ==
    /\ NamesOf(m) = NamesOf(a) \cup NamesOf(b)
    /\ \A i, j \in DOMAIN m : i # j => m[i].o # m[j].o
    /\ \A i \in DOMAIN m : LET x == Lookup(a, m[i].o)  y == Lookup(b, m[i].o) IN
                            /\ m[i].bytes = x.bytes + y.bytes
                            /\ m[i].count = x.count + y.count
                            /\ m[i].iters = x.iters + y.iters

-----------------------------------------------------------------------------
(* Transparency of one call: outer = what the caller passed to / got from the tracking allocator, inner = the calls the
   wrapped allocator received while the outer call was in progress (same thread).  Exactly one inner call, the same
   method, the same layout, pointer and new size, and the caller gets the wrapped allocator's return value. *)
TransparentOk(outer, inner) ==
    /\ Len(inner) = 1
    /\ inner[1].m = outer.m
    /\ inner[1].size = outer.size /\ inner[1].align = outer.align
    /\ inner[1].ptr = outer.ptr /\ inner[1].nsize = outer.nsize
    /\ inner[1].ret = outer.ret
=============================================================================
