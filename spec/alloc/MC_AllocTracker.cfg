CONSTANTS Threads <- T2  Sizes <- SzAB  Sessions <- S1  OpNames <- OpsA  MaxCalls = 3  MaxSpans = 2  MaxSteps = 6  Iters <- It1  GenMod = 1  Methods <- MBoth
SPECIFICATION Spec
VIEW View
INVARIANT ReportsMatch MergedMatch Transparent RegistryOk CountersMatch
CHECK_DEADLOCK FALSE
