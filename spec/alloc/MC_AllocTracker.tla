---- MODULE MC_AllocTracker ----
EXTENDS AllocTracker, Json
T2 == {1, 2}
T1 == {1}
S12 == {1, 2}
S1 == {1}
SzAB == {1, 2}
SzA == {1}
OpsAB == {"a", "b"}
OpsA == {"a"}
MBoth == {"alloc", "alloc_zeroed"}
MAlloc == {"alloc"}
MZeroed == {"alloc_zeroed"}
It12 == {1, 2}
It1 == {1}
It02 == {0, 2}
\* generator: leaf behaviours; GenMod thins them out deterministically (a cheap hash of the history) so that TLC does not
\* spend its time printing hundreds of thousands of behaviours of which the check replays a sample
CONSTANT GenMod
HistHash == LET RECURSIVE F(_)
                F(i) == IF i = 0 THEN 0 ELSE (i * (hist[i].t + 2 * hist[i].size + 3 * hist[i].id + 5 * hist[i].p + 7 * hist[i].iters
                                                 + (IF hist[i].m = "realloc" THEN 11 ELSE 0) + (IF hist[i].kind = "process" THEN 13 ELSE 0))
                                             + F(i - 1)) % 1000003
            IN F(Len(hist))
GenCase == (steps = MaxSteps /\ HistHash % GenMod = 0) => PrintT(<<"ACASE", ToJson([h |-> hist])>>)
====
