------------------------------ MODULE Trace_AllocTracker ------------------------------
(* Judges what the real alloc_tracker did (harness h_alloc: a recording inner allocator wrapped in
   alloc_tracker::Allocator::new, whose GlobalAlloc methods are called directly; Session / Operation / spans / reports
   through the public API) with AllocTrackerAbs.  The judge's state follows the logged OPERATIONS; the reports and the
   inner allocator's log carried by the records are outputs that are compared and never fed back, so rejected records are
   reported (REJECT) and skipped.

   records   {"ev":"reset","id":n}                                         a new behaviour (fresh threads, sessions)
             {"ev":"call","t":1,"m":"alloc"|"alloc_zeroed"|"realloc"|"dealloc","size":s,"align":a,"ptr":p,"nsize":n,
              "ret":r,"inner":[{"m","size","align","ptr","nsize","ret"}, ...]}        pointers are small ids, 0 = null
             {"ev":"span_start","id":k,"t":1,"kind":"thread"|"process","s":1,"o":"a"}
             {"ev":"span_end","id":k,"t":1,"iters":2}
             {"ev":"merge","a":R,"b":R,"m":R}        R = [{"o":name,"bytes":..,"count":..,"iters":..}, ...]
   optional on every record: "rep": [R of session 1, R of session 2, ...] taken right after the operation.       *)
EXTENDS AllocTrackerAbs, TraceLib

VARIABLE l

Reject(line, why, rec) == PrintT(<<"REJECT", ToJson([line |-> line, why |-> why, rec |-> rec])>>)

\* outputs carried by rec, judged against the judge's state after the operation (totN, opsN)
OutputsOk(rec, line, opsN) ==
    LET repsOk == (~Has(rec, "rep")) \/
                  \A s \in DOMAIN rec.rep :
                      LET rep == rec.rep[s] IN
                      /\ \A i \in DOMAIN rep : LET e == (IF s \in DOMAIN opsN /\ rep[i].o \in DOMAIN opsN[s] THEN opsN[s][rep[i].o] ELSE ZOp) IN
                                                rep[i].bytes = e.bytes /\ rep[i].count = e.count /\ rep[i].iters = e.iters
                      /\ \A i, j \in DOMAIN rep : i # j => rep[i].o # rep[j].o
                      /\ s \in DOMAIN opsN => \A o \in DOMAIN opsN[s] : \E i \in DOMAIN rep : rep[i].o = o
        transOk == rec.ev # "call" \/
                   TransparentOk([m |-> rec.m, size |-> rec.size, align |-> rec.align, ptr |-> rec.ptr, nsize |-> rec.nsize, ret |-> rec.ret],
                                 rec.inner)
        mergeOk == rec.ev # "merge" \/ MergeOk(rec.a, rec.b, rec.m)
        noPanic == ~Has(rec, "panic")
    IN IF noPanic /\ repsOk /\ transOk /\ mergeOk THEN TRUE
       ELSE Reject(line, (IF ~noPanic THEN <<"panic">> ELSE <<>>) \o (IF ~repsOk THEN <<"report">> ELSE <<>>)
                         \o (IF ~transOk THEN <<"transparency">> ELSE <<>>) \o (IF ~mergeOk THEN <<"merge">> ELSE <<>>), rec)

TraceInit == l = 1 /\ AbsInit

Step(rec) ==
    \/ rec.ev = "reset" /\ tot' = <<>> /\ open' = <<>> /\ ops' = <<>>
    \/ rec.ev = "call" /\ JCall(rec.t, rec.m, IF rec.m = "realloc" THEN rec.nsize ELSE rec.size)
    \/ rec.ev = "span_start" /\ JSpanStart(rec.id, rec.t, rec.kind, rec.s, rec.o)
    \/ rec.ev = "span_end" /\ JSpanEnd(rec.id, rec.t, rec.iters)
    \/ rec.ev = "merge" /\ UNCHANGED absVars

TraceNext ==
    /\ l <= NRec
    /\ Step(Rec[l])
    /\ OutputsOk(Rec[l], l, ops')
    /\ l' = l + 1

TraceSpec == TraceInit /\ [][TraceNext]_<<l, tot, open, ops>>
=============================================================================
