---- MODULE RegionScenarios ----
(* TLC-only: program sets (scenarios) for the region explorers.  An operation is [k |-> "r" | "w", g |-> region];
   a scenario is [prog |-> thread -> sequence of operations, pin |-> thread -> BOOLEAN], padded with idle threads to
   the NT of the configuration that uses it.  A scenario set is a sequence of scenarios; the explorer picks one in its
   initial state, so one TLC run covers the whole set.                                                            *)
EXTENDS Naturals, Sequences, TLC
R(g) == [k |-> "r", g |-> g]
W(g) == [k |-> "w", g |-> g]
Sc(n, progs, pins) == [prog |-> [t \in 0..n-1 |-> IF t + 1 <= Len(progs) THEN progs[t + 1] ELSE <<>>],
                       pin  |-> [t \in 0..n-1 |-> IF t + 1 <= Len(pins) THEN pins[t + 1] ELSE FALSE]]

\* A: a pinned writer reading back its writes, a second pinned reader in the same region
A(n) == Sc(n, << <<W(0), R(0), W(0), R(0)>>, <<R(0), R(0)>> >>, <<TRUE, TRUE>>)
\* B: a writer in region 0, a pinned reader in region 1 reading three times
B(n) == Sc(n, << <<W(0), W(0)>>, <<R(1), R(1), R(1)>> >>, <<TRUE, TRUE>>)
\* C: a writer of three values, a reader that may stall, a pinned observer - all in one region
C(n) == Sc(n, << <<W(0), W(0), W(0)>>, <<R(0)>>, <<R(0), R(0)>> >>, <<TRUE, TRUE, TRUE>>)
\* D: two writers in different regions, each reading back; an unpinned reader visiting both regions
D(n) == Sc(n, << <<W(0), R(0)>>, <<W(1), R(1)>>, <<R(0), R(1)>> >>, <<TRUE, TRUE, FALSE>>)
\* E: 2 writers x 2 writes, 2 readers, 2 regions, pinned and unpinned
E(n) == Sc(n, << <<W(0), W(0)>>, <<W(1), W(1)>>, <<R(0), R(0)>>, <<R(1), R(0)>> >>, <<TRUE, TRUE, TRUE, FALSE>>)
\* F: an unpinned writer moving between regions and reading back, a pinned reader
F(n) == Sc(n, << <<W(0), R(1), W(1), R(1)>>, <<R(1), R(1)>> >>, <<FALSE, TRUE>>)
\* G: two writers racing in one region, each reading back
G(n) == Sc(n, << <<W(0), R(0)>>, <<W(0), R(0)>> >>, <<TRUE, TRUE>>)
\* H: one writer, two readers of the same region racing to initialise it (waiter path)
H(n) == Sc(n, << <<W(1)>>, <<R(1), R(1)>>, <<R(1)>> >>, <<TRUE, TRUE, TRUE>>)

Two == <<A(2), B(2), F(2), G(2)>>            \* every 2-thread scenario
ThreeC == <<C(3)>>
ThreeD == <<D(3)>>
ThreeH == <<H(3)>>
Three == <<C(3), D(3), H(3)>>
Four == <<E(4)>>
TwoThree == <<A(3), B(3), F(3), G(3), C(3), D(3), H(3)>>
====
