------------------------------ MODULE RegionLocal ------------------------------
(* EXPLORER for C13, region_local: with_local / set_local of packages/region_local/src/region_local.rs, one action per
   shared-memory step, named by the yield point of hook H6 the thread is resumed from.

   State: per region slot = empty | init(owner) | ready(value) [ArcSwapOption<RegionalValue>]; no global value, the
   initial value comes from an initialiser function (tag (0, 0)).

     read    op:r           begin
             rl.try_read    load the slot: ready -> return its value
             rl.init.load   load the slot: empty -> rl.init.cas | init -> rl.init.wait | ready -> rl.try_read
             rl.init.wait   blocked until the marker's owner has signalled -> rl.try_read
             rl.init.cas    CAS empty -> init(me): failed -> rl.init.load; then the initialiser function runs (local)
             rl.init.store  Variant = "fixed": CAS init(me) -> ready(initial value) - a concurrent set() wins;
                            Variant = "orig" (before the fix for finding S7b): STORE ready(initial value);  signal
     write   op:w           begin
             rl.set         store slot := ready(value)                                                            *)
EXTENDS RegionAbs

CONSTANTS NT, NR, Scenarios, Variant, Hist

Threads == 0 .. NT - 1
Regions == 0 .. NR - 1
Empty == [st |-> "empty", w |-> 0, k |-> 0, owner |-> NT]

VARIABLES sc, slot, pc, opi, wo, att, nw, j, hist
vars == <<sc, slot, pc, opi, wo, att, nw, j, hist>>
View == <<sc, slot, pc, opi, wo, att, nw, j>>

Init ==
    /\ sc \in 1..Len(Scenarios)
    /\ slot = [g \in Regions |-> Empty]
    /\ pc = [t \in Threads |-> IF Len(Scenarios[sc].prog[t]) = 0 THEN "done" ELSE "start"]
    /\ opi = [t \in Threads |-> 1]
    /\ wo = [t \in Threads |-> <<NT, 0>>]
    /\ att = [t \in Threads |-> 0]
    /\ nw = [t \in Threads |-> 0]
    /\ j = JStep(JInit, [ev |-> "reset", mode |-> "local"])
    /\ hist = <<>>

Prog == Scenarios[sc].prog       \* the scenario (programs, pinning) is picked in the initial state
Pin == Scenarios[sc].pin
Op(t) == Prog[t][opi[t]]
G(t) == Op(t).g
Log(t, p) == hist' = IF Hist THEN Append(hist, <<t, p>>) ELSE hist
NextOpPc(t) == IF opi[t] < Len(Prog[t]) THEN "op:" \o Prog[t][opi[t] + 1].k ELSE "done"
EndOp(t) == /\ pc' = [pc EXCEPT ![t] = NextOpPc(t)]
            /\ opi' = [opi EXCEPT ![t] = @ + 1]

Start(t) ==
    /\ pc[t] = "start" /\ Log(t, "start")
    /\ pc' = [pc EXCEPT ![t] = IF Len(Prog[t]) > 0 THEN "op:" \o Prog[t][1].k ELSE "done"]
    /\ UNCHANGED <<sc, slot, opi, wo, att, nw, j>>

OpRead(t) ==
    /\ pc[t] = "op:r" /\ Log(t, "op:r")
    /\ j' = JStep(j, [ev |-> "rb", t |-> t, g |-> G(t), pin |-> Pin[t]])
    /\ pc' = [pc EXCEPT ![t] = "rl.try_read"]
    /\ UNCHANGED <<sc, slot, opi, wo, att, nw>>

TryRead(t) ==
    /\ pc[t] = "rl.try_read" /\ Log(t, "rl.try_read")
    /\ IF slot[G(t)].st = "ready"
       THEN j' = JStep(j, [ev |-> "re", t |-> t, w |-> slot[G(t)].w, k |-> slot[G(t)].k]) /\ EndOp(t)
       ELSE pc' = [pc EXCEPT ![t] = "rl.init.load"] /\ UNCHANGED <<sc, opi, j>>
    /\ UNCHANGED <<sc, slot, wo, att, nw>>

InitLoad(t) ==
    /\ pc[t] = "rl.init.load" /\ Log(t, "rl.init.load")
    /\ LET s == slot[G(t)] IN
       CASE s.st = "ready" -> pc' = [pc EXCEPT ![t] = "rl.try_read"] /\ UNCHANGED wo
         [] s.st = "init" -> wo' = [wo EXCEPT ![t] = <<s.owner, att[s.owner]>>] /\ pc' = [pc EXCEPT ![t] = "rl.init.wait"]
         [] OTHER -> pc' = [pc EXCEPT ![t] = "rl.init.cas"] /\ UNCHANGED wo
    /\ UNCHANGED <<sc, slot, opi, att, nw, j>>

Signalled(o, n) == att[o] > n \/ pc[o] # "rl.init.store"

InitWait(t) ==
    /\ pc[t] = "rl.init.wait"
    /\ Signalled(wo[t][1], wo[t][2])
    /\ Log(t, "rl.init.wait")
    /\ pc' = [pc EXCEPT ![t] = "rl.try_read"]
    /\ UNCHANGED <<sc, slot, opi, wo, att, nw, j>>

InitCas(t) ==
    /\ pc[t] = "rl.init.cas" /\ Log(t, "rl.init.cas")
    /\ IF slot[G(t)].st = "empty"
       THEN /\ slot' = [slot EXCEPT ![G(t)] = [Empty EXCEPT !.st = "init", !.owner = t]]
            /\ att' = [att EXCEPT ![t] = @ + 1]
            /\ pc' = [pc EXCEPT ![t] = "rl.init.store"]
       ELSE pc' = [pc EXCEPT ![t] = "rl.init.load"] /\ UNCHANGED <<sc, slot, att>>
    /\ UNCHANGED <<sc, opi, wo, nw, j>>

InitStore(t) ==
    /\ pc[t] = "rl.init.store" /\ Log(t, "rl.init.store")
    /\ slot' = IF Variant = "orig" \/ (slot[G(t)].st = "init" /\ slot[G(t)].owner = t)
               THEN [slot EXCEPT ![G(t)] = [st |-> "ready", w |-> 0, k |-> 0, owner |-> NT]]
               ELSE slot
    /\ pc' = [pc EXCEPT ![t] = "rl.try_read"]
    /\ UNCHANGED <<sc, opi, wo, att, nw, j>>

OpWrite(t) ==
    /\ pc[t] = "op:w" /\ Log(t, "op:w")
    /\ j' = JStep(j, [ev |-> "wb", t |-> t, w |-> t + 1, k |-> nw[t] + 1, g |-> G(t), pin |-> Pin[t]])
    /\ nw' = [nw EXCEPT ![t] = @ + 1]
    /\ pc' = [pc EXCEPT ![t] = "rl.set"]
    /\ UNCHANGED <<sc, slot, opi, wo, att>>

Set(t) ==
    /\ pc[t] = "rl.set" /\ Log(t, "rl.set")
    /\ slot' = [slot EXCEPT ![G(t)] = [st |-> "ready", w |-> t + 1, k |-> nw[t], owner |-> NT]]
    /\ j' = JStep(j, [ev |-> "we", t |-> t])
    /\ EndOp(t)
    /\ UNCHANGED <<sc, wo, att, nw>>

Step(t) == Start(t) \/ OpRead(t) \/ TryRead(t) \/ InitLoad(t) \/ InitWait(t) \/ InitCas(t) \/ InitStore(t) \/ OpWrite(t) \/ Set(t)

Done == \A t \in Threads : pc[t] = "done"
NextNoStutter == \E t \in Threads : Step(t)
Next == NextNoStutter \/ (Done /\ UNCHANGED vars)
Spec == Init /\ [][Next]_vars
FairSpec == Spec /\ WF_vars(NextNoStutter)

ProbeVal(g) == IF slot[g].st = "ready" THEN <<slot[g].w, slot[g].k>> ELSE <<0, 0>>
RECURSIVE Probe(_, _)
Probe(jj, g) == IF g = NR THEN jj
                ELSE Probe(JStep(JStep(jj, [ev |-> "rb", t |-> NT, g |-> g, pin |-> FALSE]),
                                 [ev |-> "re", t |-> NT, w |-> ProbeVal(g)[1], k |-> ProbeVal(g)[2]]), g + 1)

JudgeOk == j.ok
EndOk == Done => JStep(Probe(j, 0), [ev |-> "end", outcome |-> "completed"]).ok
Terminates == <>Done
NoStuck == Done \/ ENABLED NextNoStutter
=============================================================================
