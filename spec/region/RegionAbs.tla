------------------------------ MODULE RegionAbs ------------------------------
(* JUDGE for C13 (region values: own writes visible, ordered, never persistently stale).

   A deterministic monitor over API-level events; JStep(j, e) is the judge state after event e, j.ok = FALSE (with j.why)
   once the property is violated.  Explorers feed it the events of their actions, Trace_Region the events recorded from
   the real crates.  Values are tags (w, k) = (writer, sequence number of that writer's write); (0, 0) is the initial value.

     reset  mode            "cached" (region_cached: one value for all regions) | "local" (region_local: one per region)
     wb  t w k g pin        thread t (currently in region g; pin: its RegionCached/RegionLocal instance holds the region) begins
                            set_global / set_local of (w, k)            we  t        it returned
     rb  t g pin            begins with_cached / with_local             re  t w k    it returned (w, k)

   R0  a read returns the initial value or a value whose write has begun.
   R1  OWN WRITE: a pinned thread that wrote v and then reads, in the same region, returns v - unless another thread's
       write (local: in that region) was in progress when its write began or began before the read returned.
   R2  ORDER: within one region no reader sees one writer's values out of order, nor the initial value after a written
       one.  (Reads a migrating, unpinned thread makes in different regions are not compared: the crates document that
       migration "invalidates any causal link"; within each region they are.)
   R3  NOT PERSISTENTLY STALE: a read that begins after a moment at which no write and no read was in flight, with no
       write beginning before it returns, returns a last value written: the value of a write that no other write
       (local: in the reader's region) began after the end of (with none at all: the initial value); cached: all such
       reads of one quiet period return the same value.                                                          *)
EXTENDS Naturals, Sequences, FiniteSets, TLC

NoFn == [x \in {} |-> 0]
Init0 == <<0, 0>>

JInit == [ok |-> TRUE, why |-> "", skip |-> FALSE, mode |-> "cached",
          wip |-> NoFn,              \* thread -> [v, g]           writes in progress
          rip |-> NoFn,              \* thread -> [g, pin, q, e]   reads in progress; q: began quiet; e: write epoch then
          own |-> NoFn,              \* pinned thread -> [v, g, clean]  its last write
          seen |-> NoFn,             \* <<t, g, w>> -> highest k returned to t in region g for writer w
          begun |-> {Init0},         \* values whose write has begun
          cands |-> NoFn,            \* region (cached: region 0 stands for all) -> last-written candidates; absent = {Init0}
          wepoch |-> 0,              \* number of writes begun
          qepoch |-> 0,              \* value of wepoch at the last moment nothing was in flight
          qval |-> <<>>]             \* cached: value the quiescent reads of the current quiet period agreed on

Bad(j, why) == [j EXCEPT !.ok = FALSE, !.why = why]
Put(f, x, v) == (x :> v) @@ f
Del(f, x) == [y \in DOMAIN f \ {x} |-> f[y]]
Reg(j, g) == IF j.mode = "cached" THEN 0 ELSE g
CandsOf(j, g) == IF Reg(j, g) \in DOMAIN j.cands THEN j.cands[Reg(j, g)] ELSE {Init0}
Interferes(j, g1, g2) == j.mode = "cached" \/ g1 = g2
\* nothing in flight after this event: remember the write epoch
Settle(j) == IF DOMAIN j.wip = {} /\ DOMAIN j.rip = {} THEN [j EXCEPT !.qepoch = j.wepoch] ELSE j

JStep(j, e) ==
  IF e.ev = "reset" THEN [JInit EXCEPT !.mode = e.mode]
  ELSE IF j.skip \/ ~j.ok THEN j
  ELSE CASE e.ev = "wb" ->
              IF e.t \in DOMAIN j.wip \/ e.t \in DOMAIN j.rip THEN Bad(j, "operation begun inside another one of the same thread")
              ELSE LET v == <<e.w, e.k>>
                       others == { j.wip[u].v : u \in { u \in DOMAIN j.wip : Interferes(j, j.wip[u].g, e.g) } }
                       dirty == [t \in DOMAIN j.own |-> IF t # e.t /\ Interferes(j, j.own[t].g, e.g)
                                                        THEN [j.own[t] EXCEPT !.clean = FALSE] ELSE j.own[t]] IN
                   [j EXCEPT !.wip = Put(@, e.t, [v |-> v, g |-> e.g]),
                             !.begun = @ \cup {v},
                             !.own = IF e.pin THEN Put(dirty, e.t, [v |-> v, g |-> e.g, clean |-> others = {}]) ELSE Del(dirty, e.t),
                             !.cands = Put(@, Reg(j, e.g), others \cup {v}),
                             !.wepoch = @ + 1, !.qval = <<>>]
         [] e.ev = "we" ->
              IF e.t \notin DOMAIN j.wip THEN Bad(j, "write returned without having begun")
              ELSE Settle([j EXCEPT !.wip = Del(@, e.t)])
         [] e.ev = "rb" ->
              IF e.t \in DOMAIN j.wip \/ e.t \in DOMAIN j.rip THEN Bad(j, "operation begun inside another one of the same thread")
              ELSE [j EXCEPT !.rip = Put(@, e.t, [g |-> e.g, pin |-> e.pin, q |-> j.qepoch = j.wepoch, e |-> j.wepoch])]
         [] e.ev = "re" ->
              IF e.t \notin DOMAIN j.rip THEN Bad(j, "read returned without having begun")
              ELSE LET v == <<e.w, e.k>>
                       r == j.rip[e.t]
                       n == Settle([j EXCEPT !.rip = Del(@, e.t)])
                       quiescent == r.q /\ r.e = j.wepoch
                       older == { x \in DOMAIN j.seen : x[1] = e.t /\ x[2] = r.g } IN
                   IF v \notin j.begun THEN Bad(n, "read returned a value nobody wrote")
                   ELSE IF r.pin /\ e.t \in DOMAIN j.own /\ j.own[e.t].g = r.g /\ j.own[e.t].clean /\ v # j.own[e.t].v
                        THEN Bad(n, "pinned thread does not read its own write")
                   ELSE IF v = Init0 /\ older # {} THEN Bad(n, "initial value served after a written value")
                   ELSE IF v # Init0 /\ <<e.t, r.g, e.w>> \in DOMAIN j.seen /\ j.seen[<<e.t, r.g, e.w>>] > e.k
                        THEN Bad(n, "one writer's values seen out of order")
                   ELSE IF quiescent /\ v \notin CandsOf(j, r.g) THEN Bad(n, "stale value served at quiescence")
                   ELSE IF quiescent /\ j.mode = "cached" /\ j.qval # <<>> /\ j.qval # v THEN Bad(n, "regions disagree at quiescence")
                   ELSE [n EXCEPT !.seen = IF v = Init0 THEN @ ELSE Put(@, <<e.t, r.g, e.w>>, e.k),
                                  !.qval = IF quiescent /\ j.mode = "cached" THEN v ELSE @]
         [] e.ev = "panic" -> Bad(j, "panic")
         [] e.ev = "end" ->
              IF e.outcome # "completed" THEN Bad(j, "run did not terminate")
              ELSE IF DOMAIN j.wip # {} \/ DOMAIN j.rip # {} THEN Bad(j, "operation pending at the end")
              ELSE j
         [] OTHER -> Bad(j, "unknown event")

RECURSIVE JFold(_, _)
JFold(j, es) == IF es = <<>> THEN j ELSE JFold(JStep(j, Head(es)), Tail(es))
=============================================================================
