---- MODULE MC_RegionLocal ----
EXTENDS RegionLocal, RegionScenarios, Json
\* Generator: one witness behaviour per distinct terminal state (hist is hidden from the fingerprint by VIEW).
Used == { t \in Threads : Len(Prog[t]) > 0 }
Beh == ToJson([progs |-> [i \in 1..Cardinality(Used) |-> [n \in 1..Len(Prog[i - 1]) |-> <<Prog[i - 1][n].k, Prog[i - 1][n].g>>]],
                                          pin |-> [i \in 1..Cardinality(Used) |-> Pin[i - 1]], script |-> hist])
GenBeh == Done => PrintT(<<"BEH", Beh>>)
\* printed before TLC reports the violation (list it first among the invariants): the counterexample as a stimulus
CexBeh == (~JudgeOk \/ ~EndOk \/ ~NoStuck) => PrintT(<<"CEX", Beh>>)
CexBehSafe == (~JudgeOk \/ ~EndOk) => PrintT(<<"CEX", Beh>>)
====
