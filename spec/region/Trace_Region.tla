------------------------------ MODULE Trace_Region ------------------------------
(* Trace validation for C13: the events recorded by harness h_region from the real region_cached / region_local crates
   are fed, in the total order the deterministic scheduler produced, to the judge RegionAbs!JStep.  Many stimuli are
   concatenated; each starts with a "reset" record (carrying the mode).  A stimulus the judge rejects is reported
   (REJECT) and skipped up to the next reset.                                                                     *)
EXTENDS RegionAbs, TraceLib

VARIABLES l, j, hdr

TraceInit == l = 1 /\ j = JInit /\ hdr = [stim |-> 0]

TraceNext ==
    /\ l <= NRec
    /\ LET e == Rec[l]
           n == JStep(j, e) IN
       /\ hdr' = IF e.ev = "reset" THEN e ELSE hdr
       /\ IF n.ok THEN j' = n
          ELSE /\ PrintT(<<"REJECT", ToJson([line |-> l, why |-> n.why, rec |-> e, stim |-> hdr])>>)
               /\ j' = [JInit EXCEPT !.skip = TRUE]
    /\ l' = l + 1

TraceSpec == TraceInit /\ [][TraceNext]_<<l, j, hdr>>
=============================================================================
