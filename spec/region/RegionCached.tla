------------------------------ MODULE RegionCached ------------------------------
(* EXPLORER for C13, region_cached: with_cached / set_global of packages/region_cached/src/region_cached.rs, one action
   per shared-memory step; the action is named by the yield point of hook H6 (or the harness operation point) the thread
   is resumed from.

   State: latest = (value, generation) [ArcSwap], nextGen [AtomicU64], per region slot = empty | init(owner) |
   ready(value, generation) [ArcSwapOption<RegionalValue>]; an init marker carries the event its owner signals.

     read    op:r          begin (the thread is in region g: pinned, or moved there by the harness)
             rc.try_read   load the slot: ready -> return its value
       Variant = "fixed" (the code as it is now)
             rc.init.load     load the slot: ready -> back to rc.try_read | init -> rc.init.wait | empty -> rc.init.cas
             rc.init.wait     blocked until the marker's owner has signalled -> rc.init.load
             rc.init.cas      CAS empty -> init(me): failed -> rc.init.load
             rc.init.latest   load latest  (only now, with the marker in place)
             rc.init.install  CAS init(me) -> ready(latest loaded): fails if a writer invalidated meanwhile; signal
       Variant = "orig" (before the fix for finding S7a)
             rc.load_latest   load latest (before the marker exists)
             rc.init.load / rc.init.wait / rc.init.cas as above (ready -> compare generations)
             rc.init.store    STORE ready(value loaded earlier), unconditionally; signal
             compare the generation installed/found with the generation loaded: equal -> rc.try_read, else
             rc.inv:0 .. rc.inv:NR-1 (invalidate every region) and again from rc.load_latest
     write   op:w          begin; fetch_add on the generation counter
             rc.set.latest store latest := (value, generation)
             rc.inv:i      for every region in index order: slot := empty

   Prog[t] is thread t's sequence of operations [k |-> "r" | "w", g |-> region]; Pin[t] says whether the thread's
   instance is pinned to its (then constant) region.  When all threads are done a probe reads every region once
   (atomically: nothing else is running) - the quiescent reads of rule R3.                                        *)
EXTENDS RegionAbs

CONSTANTS NT, NR, Scenarios, Variant, Hist

Threads == 0 .. NT - 1
Regions == 0 .. NR - 1
Empty == [st |-> "empty", w |-> 0, k |-> 0, gen |-> 0, owner |-> NT]

VARIABLES sc, latest, nextGen, slot, pc, opi, exp, idx, wo, att, nw, j, hist
vars == <<sc, latest, nextGen, slot, pc, opi, exp, idx, wo, att, nw, j, hist>>
View == <<sc, latest, nextGen, slot, pc, opi, exp, idx, wo, att, nw, j>>

Init ==
    /\ sc \in 1..Len(Scenarios)
    /\ latest = [w |-> 0, k |-> 0, gen |-> 0]
    /\ nextGen = 1
    /\ slot = [g \in Regions |-> Empty]
    /\ pc = [t \in Threads |-> IF Len(Scenarios[sc].prog[t]) = 0 THEN "done" ELSE "start"]
    /\ opi = [t \in Threads |-> 1]                 \* index of the current / next operation
    /\ exp = [t \in Threads |-> [w |-> 0, k |-> 0, gen |-> 0]]   \* value loaded from latest / write in progress
    /\ idx = [t \in Threads |-> 0]                 \* position in the invalidation loop
    /\ wo = [t \in Threads |-> <<NT, 0>>]          \* marker waited for: <<owner, attempt>>
    /\ att = [t \in Threads |-> 0]                 \* attempts (markers) started by the thread
    /\ nw = [t \in Threads |-> 0]                  \* writes begun by the thread
    /\ j = JStep(JInit, [ev |-> "reset", mode |-> "cached"])
    /\ hist = <<>>

Prog == Scenarios[sc].prog       \* the scenario (programs, pinning) is picked in the initial state
Pin == Scenarios[sc].pin
Op(t) == Prog[t][opi[t]]
G(t) == Op(t).g
Log(t, p) == hist' = IF Hist THEN Append(hist, <<t, p>>) ELSE hist
InAttempt(p) == p \in {"rc.init.latest", "rc.init.install", "rc.init.store"}

\* the thread's current operation is over: next operation point, or done
NextOpPc(t) == IF opi[t] < Len(Prog[t]) THEN "op:" \o Prog[t][opi[t] + 1].k ELSE "done"
EndOp(t) == /\ pc' = [pc EXCEPT ![t] = NextOpPc(t)]
            /\ opi' = [opi EXCEPT ![t] = @ + 1]

Start(t) ==
    /\ pc[t] = "start" /\ Log(t, "start")
    /\ pc' = [pc EXCEPT ![t] = IF Len(Prog[t]) > 0 THEN "op:" \o Prog[t][1].k ELSE "done"]
    /\ UNCHANGED <<sc, latest, nextGen, slot, opi, exp, idx, wo, att, nw, j>>

OpRead(t) ==
    /\ pc[t] = "op:r" /\ Log(t, "op:r")
    /\ j' = JStep(j, [ev |-> "rb", t |-> t, g |-> G(t), pin |-> Pin[t]])
    /\ pc' = [pc EXCEPT ![t] = "rc.try_read"]
    /\ UNCHANGED <<sc, latest, nextGen, slot, opi, exp, idx, wo, att, nw>>

TryRead(t) ==
    /\ pc[t] = "rc.try_read" /\ Log(t, "rc.try_read")
    /\ IF slot[G(t)].st = "ready"
       THEN /\ j' = JStep(j, [ev |-> "re", t |-> t, w |-> slot[G(t)].w, k |-> slot[G(t)].k])
            /\ EndOp(t)
       ELSE /\ pc' = [pc EXCEPT ![t] = IF Variant = "orig" THEN "rc.load_latest" ELSE "rc.init.load"]
            /\ UNCHANGED <<sc, opi, j>>
    /\ UNCHANGED <<sc, latest, nextGen, slot, exp, idx, wo, att, nw>>

LoadLatestOrig(t) ==
    /\ Variant = "orig" /\ pc[t] = "rc.load_latest" /\ Log(t, "rc.load_latest")
    /\ exp' = [exp EXCEPT ![t] = latest]
    /\ pc' = [pc EXCEPT ![t] = "rc.init.load"]
    /\ UNCHANGED <<sc, latest, nextGen, slot, opi, idx, wo, att, nw, j>>

\* orig: what with_in_region does with the generation initialize() returned
Compare(t, actual) ==
    IF exp[t].gen = actual THEN pc' = [pc EXCEPT ![t] = "rc.try_read"] /\ UNCHANGED idx
    ELSE pc' = [pc EXCEPT ![t] = "rc.inv:0"] /\ idx' = [idx EXCEPT ![t] = 0]

InitLoad(t) ==
    /\ pc[t] = "rc.init.load" /\ Log(t, "rc.init.load")
    /\ LET s == slot[G(t)] IN
       CASE s.st = "ready" ->
              /\ IF Variant = "orig" THEN Compare(t, s.gen) ELSE pc' = [pc EXCEPT ![t] = "rc.try_read"] /\ UNCHANGED idx
              /\ UNCHANGED wo
         [] s.st = "init" ->
              /\ wo' = [wo EXCEPT ![t] = <<s.owner, att[s.owner]>>]
              /\ pc' = [pc EXCEPT ![t] = "rc.init.wait"]
              /\ UNCHANGED idx
         [] OTHER -> pc' = [pc EXCEPT ![t] = "rc.init.cas"] /\ UNCHANGED <<sc, idx, wo>>
    /\ UNCHANGED <<sc, latest, nextGen, slot, opi, exp, att, nw, j>>

Signalled(o, n) == att[o] > n \/ ~InAttempt(pc[o])

InitWait(t) ==
    /\ pc[t] = "rc.init.wait"
    /\ Signalled(wo[t][1], wo[t][2])
    /\ Log(t, "rc.init.wait")
    /\ pc' = [pc EXCEPT ![t] = "rc.init.load"]
    /\ UNCHANGED <<sc, latest, nextGen, slot, opi, exp, idx, wo, att, nw, j>>

InitCas(t) ==
    /\ pc[t] = "rc.init.cas" /\ Log(t, "rc.init.cas")
    /\ IF slot[G(t)].st = "empty"
       THEN /\ slot' = [slot EXCEPT ![G(t)] = [Empty EXCEPT !.st = "init", !.owner = t]]
            /\ att' = [att EXCEPT ![t] = @ + 1]
            /\ pc' = [pc EXCEPT ![t] = IF Variant = "orig" THEN "rc.init.store" ELSE "rc.init.latest"]
       ELSE /\ pc' = [pc EXCEPT ![t] = "rc.init.load"]
            /\ UNCHANGED <<sc, slot, att>>
    /\ UNCHANGED <<sc, latest, nextGen, opi, exp, idx, wo, nw, j>>

InitStoreOrig(t) ==
    /\ Variant = "orig" /\ pc[t] = "rc.init.store" /\ Log(t, "rc.init.store")
    /\ slot' = [slot EXCEPT ![G(t)] = [st |-> "ready", w |-> exp[t].w, k |-> exp[t].k, gen |-> exp[t].gen, owner |-> NT]]
    /\ pc' = [pc EXCEPT ![t] = "rc.try_read"]        \* the generation installed is the generation loaded
    /\ UNCHANGED <<sc, latest, nextGen, opi, exp, idx, wo, att, nw, j>>

InitLatest(t) ==
    /\ Variant = "fixed" /\ pc[t] = "rc.init.latest" /\ Log(t, "rc.init.latest")
    /\ exp' = [exp EXCEPT ![t] = latest]
    /\ pc' = [pc EXCEPT ![t] = "rc.init.install"]
    /\ UNCHANGED <<sc, latest, nextGen, slot, opi, idx, wo, att, nw, j>>

InitInstall(t) ==
    /\ Variant = "fixed" /\ pc[t] = "rc.init.install" /\ Log(t, "rc.init.install")
    /\ slot' = IF slot[G(t)].st = "init" /\ slot[G(t)].owner = t
               THEN [slot EXCEPT ![G(t)] = [st |-> "ready", w |-> exp[t].w, k |-> exp[t].k, gen |-> exp[t].gen, owner |-> NT]]
               ELSE slot
    /\ pc' = [pc EXCEPT ![t] = "rc.try_read"]
    /\ UNCHANGED <<sc, latest, nextGen, opi, exp, idx, wo, att, nw, j>>

OpWrite(t) ==
    /\ pc[t] = "op:w" /\ Log(t, "op:w")
    /\ j' = JStep(j, [ev |-> "wb", t |-> t, w |-> t + 1, k |-> nw[t] + 1, g |-> G(t), pin |-> Pin[t]])
    /\ nw' = [nw EXCEPT ![t] = @ + 1]
    /\ exp' = [exp EXCEPT ![t] = [w |-> t + 1, k |-> nw[t] + 1, gen |-> nextGen]]
    /\ nextGen' = nextGen + 1
    /\ pc' = [pc EXCEPT ![t] = "rc.set.latest"]
    /\ UNCHANGED <<sc, latest, slot, opi, idx, wo, att>>

SetLatest(t) ==
    /\ pc[t] = "rc.set.latest" /\ Log(t, "rc.set.latest")
    /\ latest' = exp[t]
    /\ pc' = [pc EXCEPT ![t] = "rc.inv:0"]
    /\ idx' = [idx EXCEPT ![t] = 0]
    /\ UNCHANGED <<sc, nextGen, slot, opi, exp, wo, att, nw, j>>


Invalidate(t) ==
    /\ pc[t] = "rc.inv:" \o ToString(idx[t])
    /\ Log(t, pc[t])
    /\ slot' = [slot EXCEPT ![idx[t]] = Empty]
    /\ IF idx[t] + 1 < NR
       THEN /\ idx' = [idx EXCEPT ![t] = @ + 1]
            /\ pc' = [pc EXCEPT ![t] = "rc.inv:" \o ToString(idx[t] + 1)]
            /\ UNCHANGED <<sc, opi, j>>
       ELSE /\ UNCHANGED idx
            /\ IF Op(t).k = "w"
               THEN j' = JStep(j, [ev |-> "we", t |-> t]) /\ EndOp(t)
               ELSE pc' = [pc EXCEPT ![t] = "rc.load_latest"] /\ UNCHANGED <<sc, opi, j>>     \* orig: reader retries
    /\ UNCHANGED <<sc, latest, nextGen, exp, wo, att, nw>>

Step(t) == Start(t) \/ OpRead(t) \/ TryRead(t) \/ LoadLatestOrig(t) \/ InitLoad(t) \/ InitWait(t) \/ InitCas(t)
           \/ InitStoreOrig(t) \/ InitLatest(t) \/ InitInstall(t) \/ OpWrite(t) \/ SetLatest(t) \/ Invalidate(t)

Done == \A t \in Threads : pc[t] = "done"
NextNoStutter == \E t \in Threads : Step(t)
Next == NextNoStutter \/ (Done /\ UNCHANGED vars)
Spec == Init /\ [][Next]_vars
FairSpec == Spec /\ WF_vars(NextNoStutter)

\* the probe: with nothing running, a read of region g returns the slot's value, or initialises it from latest
ProbeVal(g) == IF slot[g].st = "ready" THEN <<slot[g].w, slot[g].k>> ELSE <<latest.w, latest.k>>
RECURSIVE Probe(_, _)
Probe(jj, g) == IF g = NR THEN jj
                ELSE Probe(JStep(JStep(jj, [ev |-> "rb", t |-> NT, g |-> g, pin |-> FALSE]),
                                 [ev |-> "re", t |-> NT, w |-> ProbeVal(g)[1], k |-> ProbeVal(g)[2]]), g + 1)

JudgeOk == j.ok
EndOk == Done => JStep(Probe(j, 0), [ev |-> "end", outcome |-> "completed"]).ok
Terminates == <>Done
NoStuck == Done \/ ENABLED NextNoStutter
=============================================================================
