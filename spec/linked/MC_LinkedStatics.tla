---- MODULE MC_LinkedStatics ----
EXTENDS LinkedStatics, Json
\* Generator: one witness behaviour per distinct terminal state (hist is hidden from the fingerprint by VIEW).
Beh == ToJson([deps |-> deps, progs |-> [i \in 1..NT |-> prog0[i - 1]], script |-> hist])
GenBeh == Done => PrintT(<<"BEH", Beh>>)
CexBeh == (~JudgeOk \/ ~EndOk \/ ~NoStuck) => PrintT(<<"CEX", Beh>>)
CexBehSafe == (~JudgeOk \/ ~EndOk) => PrintT(<<"CEX", Beh>>)
====
