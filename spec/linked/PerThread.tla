------------------------------ MODULE PerThread ------------------------------
(* EXPLORER for C12, per-thread wrappers: InstancePerThreadSync / RefSync of
   packages/linked/src/instance_per_thread_sync.rs (and, with AllowMove = FALSE and Variant = "orig", the structurally
   identical InstancePerThread / Ref of instance_per_thread.rs, whose references cannot leave their thread).

   State: the `thread id -> instance` map under its RwLock, the instances with their Arc strong counts (derived: one per
   reference wherever it is - held, in a mailbox, being dropped - one for the map entry, one for a freshly created
   Arc not yet inserted), references with their ORIGIN (the thread whose instance they are aligned to).

   Programs are not fixed in advance: at every operation boundary a thread picks any operation that is possible
   (acquire, clone a held reference, send a held reference to another thread, receive one, drop one, finish), within
   MaxOps operations per thread and MaxRefs references overall; at the budget only drop / receive / finish remain.
   The picks are recorded, so every behaviour is a set of programs plus a schedule script for the real code.

   Named yield points (hook H5) and the harness-level operation points; an action is named by the point the thread
   is resumed from; points that are thread-local are merged into the action that reaches them (see LinkedStatics):

     acquire   op:acq [local] -> pts.lookup (read lock: entry of the current thread? clone it : pts.create [local]:
               create the instance with no lock held) -> pts.insert (write lock: insert, or use the occupant)
     acquire with a RE-ENTRANT FACTORY ("acqr"): creating the instance runs user code (the factory captured by
               linked::new!), which may itself call acquire() on the same wrapper on the same thread and KEEP the
               reference: op:acq -> pts.lookup (miss) -> pts.create [local]: factory -> nested pts.lookup (miss) ->
               pts.create [local] -> nested pts.insert (inserts, returns the peer reference) -> back in the outer call
               pts.insert finds the entry OCCUPIED: the outer instance is discarded and the occupant returned.
     clone     op:cln [local] -> pts.clone (Arc::clone)
     send      op:snd (move a held reference into another thread's mailbox)        receive   op:rcv
     drop, Variant = "orig"  (the code before the fix for finding S6b)
               op:drp -> pts.drop.count (strong count != 2 ? return) -> pts.drop.clear (write lock: remove the entry
               OF THE DROPPING THREAD) -> the reference's own Arc is released
     drop, Variant = "fixed" (the code as it is now)
               op:drp: the reference's Arc is released first -> pts.drop.clear (write lock: if the entry of the
               reference's ORIGIN thread is the only owner of its instance, remove it; the instance is destroyed)  *)
EXTENDS LinkedAbs

CONSTANTS NT, MaxOps, MaxRefs, AllowMove, Variant, Hist, Reenter

Threads == 0 .. NT - 1
Fam == 7

VARIABLES st, hist
vars == <<st, hist>>
View == st

NoRef == [ref |-> 0, inst |-> 0]

Init ==
    /\ st = [map |-> [t \in Threads |-> 0],
             insts |-> NoFn,                                 \* inst id -> [born, alive]
             held |-> [t \in Threads |-> <<>>],              \* sequences of [ref, inst]
             mail |-> [t \in Threads |-> <<>>],
             pc |-> [t \in Threads |-> "start"],
             cur |-> [t \in Threads |-> NoRef],              \* reference the current operation works on
             arg |-> [t \in Threads |-> 0],                  \* send target / origin thread of the dropped reference
             hold |-> [t \in Threads |-> 0],                 \* instance whose Arc the thread holds outside held/mail
             hold2 |-> [t \in Threads |-> 0],                \* the same for the nested acquire of a re-entrant factory
             re |-> [t \in Threads |-> FALSE],               \* the acquire in progress has a re-entrant factory
             nref |-> 0, ninst |-> 0, nops |-> [t \in Threads |-> 0],
             j |-> JStep(JInit, [ev |-> "wrapper", fam |-> Fam]),
             log |-> <<>>,                                   \* yield points passed by the current action
             progs |-> [t \in Threads |-> <<>>]]             \* operations picked so far (recorded only if Hist)
    /\ hist = <<>>

RECURSIVE CountIn(_, _)
CountIn(seq, i) == IF seq = <<>> THEN 0 ELSE (IF Head(seq).inst = i THEN 1 ELSE 0) + CountIn(Tail(seq), i)
RECURSIVE SumOver(_, _, _)
SumOver(S, f, T) == IF T = {} THEN 0 ELSE LET t == CHOOSE x \in T : TRUE IN
                    CountIn(f[t], S) + SumOver(S, f, T \ {t})
\* Arc strong count of instance i
Count(S, i) == SumOver(i, S.held, Threads) + SumOver(i, S.mail, Threads)
               + Cardinality({ t \in Threads : S.hold[t] = i }) + Cardinality({ t \in Threads : S.hold2[t] = i })
               + Cardinality({ t \in Threads : S.map[t] = i })

Ev(S, e) == [S EXCEPT !.j = JStep(@, e)]
Lg(S, p) == [S EXCEPT !.log = Append(@, p)]
Remove(seq, i) == SubSeq(seq, 1, i - 1) \o SubSeq(seq, i + 1, Len(seq))

\* release one Arc of instance i that the caller no longer counts (held/hold already updated): destroy at zero
Released(S, t, i) ==
    IF i # 0 /\ Count(S, i) = 0 /\ S.insts[i].alive
    THEN Ev([S EXCEPT !.insts[i].alive = FALSE], [ev |-> "destroy", t |-> t, inst |-> i])
    ELSE S

Op(S, t, o) == IF Hist THEN [S EXCEPT !.progs[t] = Append(@, o), !.nops[t] = @ + 1] ELSE [S EXCEPT !.nops[t] = @ + 1]

\* every way thread t can continue once an operation has finished (S is the state after it)
After(S, t) ==
    LET budget == S.nops[t] < MaxOps
        more == S.nref < MaxRefs
        n == Len(S.held[t]) IN
    { Lg(Op([S EXCEPT !.pc[t] = "pts.lookup", !.re[t] = FALSE], t, <<"acq">>), "op:acq") : x \in IF budget /\ more THEN {1} ELSE {} }
    \cup { Lg(Op([S EXCEPT !.pc[t] = "pts.lookup", !.re[t] = TRUE], t, <<"acqr">>), "op:acq") :
           x \in IF Reenter /\ budget /\ S.nref + 2 <= MaxRefs THEN {1} ELSE {} }
    \cup { Lg(Op([S EXCEPT !.pc[t] = "pts.clone", !.cur[t] = S.held[t][i]], t, <<"cln", i - 1>>), "op:cln") :
           i \in IF budget /\ more THEN 1..n ELSE {} }
    \cup { Op([S EXCEPT !.pc[t] = "op:snd", !.cur[t] = S.held[t][i], !.arg[t] = to], t, <<"snd", i - 1, to>>) :
           <<i, to>> \in IF budget /\ AllowMove THEN (1..n) \X { u \in Threads : u # t /\ S.pc[u] # "done" } ELSE {} }
    \cup { Op([S EXCEPT !.pc[t] = "op:rcv"], t, <<"rcv">>) :       \* only when something is, or is about to be, in the mailbox
           x \in IF S.mail[t] # <<>> \/ \E u \in Threads : S.pc[u] = "op:snd" /\ S.arg[u] = t THEN {1} ELSE {} }
    \cup { Op([S EXCEPT !.pc[t] = "op:drp", !.cur[t] = S.held[t][i]], t, <<"drp", i - 1>>) :
           i \in IF budget THEN 1..n ELSE (IF n > 0 THEN {1} ELSE {}) }
    \cup { [S EXCEPT !.pc[t] = "done"] :
           x \in IF n = 0 /\ S.mail[t] = <<>> /\ ~\E u \in Threads : S.pc[u] = "op:snd" /\ S.arg[u] = t THEN {1} ELSE {} }

Install(S, t) ==
    /\ st' = [S EXCEPT !.log = <<>>]
    /\ hist' = IF Hist THEN hist \o [i \in 1..Len(S.log) |-> <<t, S.log[i]>>] ELSE hist

Finish(S, t) == \E S2 \in After(S, t) : Install(S2, t)

S0(t, p) == [st EXCEPT !.log = <<p>>]

NewRef(S, t, i, e) ==       \* thread t obtains a new reference to instance i; e = the event (without the ref id)
    LET r == S.nref + 1 IN
    Ev([S EXCEPT !.nref = r, !.held[t] = Append(@, [ref |-> r, inst |-> i])], e @@ [ref |-> r])

Begin(t) == st.pc[t] = "start" /\ Finish(S0(t, "start"), t)

Lookup(t) ==
    /\ st.pc[t] = "pts.lookup"
    /\ LET S == S0(t, "pts.lookup") IN
       IF S.map[t] # 0
       THEN Finish(NewRef(S, t, S.map[t], [ev |-> "acquire", t |-> t, inst |-> S.map[t], born |-> S.insts[S.map[t]].born, fam |-> Fam]), t)
       ELSE LET i == S.ninst + 1 IN
            Install(Ev(Lg([S EXCEPT !.ninst = i, !.insts = (i :> [born |-> t, alive |-> TRUE]) @@ @, !.hold[t] = i,
                                         !.pc[t] = IF S.re[t] THEN "ptsn.lookup" ELSE "pts.insert"],
                          "pts.create"),
                       [ev |-> "create", t |-> t, inst |-> i, fam |-> Fam]), t)

Insert(t) ==
    /\ st.pc[t] = "pts.insert"
    /\ LET S == S0(t, "pts.insert")
           i == S.hold[t] IN
       IF S.map[t] = 0
       THEN Finish(NewRef([S EXCEPT !.map[t] = i, !.hold[t] = 0], t, i,
                          [ev |-> "acquire", t |-> t, inst |-> i, born |-> S.insts[i].born, fam |-> Fam]), t)
       ELSE LET k == S.map[t] IN     \* occupied: use the occupant, the new instance is discarded
            Finish(Released(NewRef([S EXCEPT !.hold[t] = 0], t, k,
                                   [ev |-> "acquire", t |-> t, inst |-> k, born |-> S.insts[k].born, fam |-> Fam]), t, i), t)

\* the factory of the instance being created re-enters acquire() on the same wrapper: nested lookup (a miss: only the
\* thread itself ever fills its own entry) and creation of a second instance ...
NLookup(t) ==
    /\ st.pc[t] = "ptsn.lookup"
    /\ LET S == S0(t, "pts.lookup")
           i == S.ninst + 1 IN
       IF S.map[t] # 0
       THEN Install(NewRef([S EXCEPT !.pc[t] = "pts.insert"], t, S.map[t],
                           [ev |-> "acquire", t |-> t, inst |-> S.map[t], born |-> S.insts[S.map[t]].born, fam |-> Fam]), t)
       ELSE Install(Ev(Lg([S EXCEPT !.ninst = i, !.insts = (i :> [born |-> t, alive |-> TRUE]) @@ @, !.hold2[t] = i, !.pc[t] = "ptsn.insert"],
                          "pts.create"),
                       [ev |-> "create", t |-> t, inst |-> i, fam |-> Fam]), t)

\* ... which is inserted and returned to the factory, which keeps the reference (the thread holds it from now on)
NInsert(t) ==
    /\ st.pc[t] = "ptsn.insert"
    /\ LET S == S0(t, "pts.insert")
           i == S.hold2[t] IN
       IF S.map[t] = 0
       THEN Install(NewRef([S EXCEPT !.map[t] = i, !.hold2[t] = 0, !.pc[t] = "pts.insert"], t, i,
                           [ev |-> "acquire", t |-> t, inst |-> i, born |-> S.insts[i].born, fam |-> Fam]), t)
       ELSE LET k == S.map[t] IN
            Install(Released(NewRef([S EXCEPT !.hold2[t] = 0, !.pc[t] = "pts.insert"], t, k,
                                    [ev |-> "acquire", t |-> t, inst |-> k, born |-> S.insts[k].born, fam |-> Fam]), t, i), t)

Clone(t) ==
    /\ st.pc[t] = "pts.clone"
    /\ LET S == S0(t, "pts.clone") IN
       Finish(NewRef(S, t, S.cur[t].inst, [ev |-> "clone", t |-> t, src |-> S.cur[t].ref, inst |-> S.cur[t].inst]), t)

IndexOf(seq, r) == CHOOSE i \in 1..Len(seq) : seq[i].ref = r

Send(t) ==
    /\ st.pc[t] = "op:snd"
    /\ LET S == S0(t, "op:snd")
           r == S.cur[t] IN
       Finish(Ev([S EXCEPT !.held[t] = Remove(@, IndexOf(@, r.ref)), !.mail[S.arg[t]] = Append(@, r)],
                 [ev |-> "send", t |-> t, ref |-> r.ref, to |-> S.arg[t]]), t)

Recv(t) ==
    /\ st.pc[t] = "op:rcv"
    /\ st.mail[t] # <<>>
    /\ LET S == S0(t, "op:rcv")
           r == Head(S.mail[t]) IN
       Finish(Ev([S EXCEPT !.mail[t] = Tail(@), !.held[t] = Append(@, r)], [ev |-> "recv", t |-> t, ref |-> r.ref]), t)

DropBegin(t) ==
    /\ st.pc[t] = "op:drp"
    /\ LET S == S0(t, "op:drp")
           r == S.cur[t]
           S1 == Ev([S EXCEPT !.held[t] = Remove(@, IndexOf(@, r.ref))], [ev |-> "drop_begin", t |-> t, ref |-> r.ref]) IN
       IF Variant = "orig"
       THEN Install([S1 EXCEPT !.hold[t] = r.inst, !.pc[t] = "pts.drop.count"], t)
       ELSE \* fixed: the reference's own Arc goes first; the map still owns the instance unless its entry is gone
            Install(Released([S1 EXCEPT !.arg[t] = S.insts[r.inst].born, !.pc[t] = "pts.drop.clear"], t, r.inst), t)

DropEnd(S, t) == Finish(Ev([S EXCEPT !.cur[t] = NoRef], [ev |-> "drop_end", t |-> t, ref |-> S.cur[t].ref]), t)

DropCount(t) ==
    /\ st.pc[t] = "pts.drop.count"
    /\ LET S == S0(t, "pts.drop.count")
           i == S.hold[t] IN
       IF Count(S, i) # 2
       THEN DropEnd(Released([S EXCEPT !.hold[t] = 0], t, i), t)
       ELSE Install([S EXCEPT !.pc[t] = "pts.drop.clear"], t)

DropClear(t) ==
    /\ st.pc[t] = "pts.drop.clear"
    /\ LET S == S0(t, "pts.drop.clear") IN
       IF Variant = "orig"
       THEN LET i == S.hold[t]
                k == S.map[t]                                      \* the entry of the DROPPING thread
                S1 == Released([S EXCEPT !.map[t] = 0], t, k)      \* the removed entry's Arc goes (under the lock)
                S2 == Released([S1 EXCEPT !.hold[t] = 0], t, i) IN \* then the reference's own Arc
            DropEnd(S2, t)
       ELSE LET o == S.arg[t]
                k == S.map[o] IN       \* the entry of the reference's ORIGIN thread
            IF k # 0 /\ Count(S, k) = 1
            THEN DropEnd(Released([S EXCEPT !.map[o] = 0], t, k), t)
            ELSE DropEnd(S, t)

Step(t) == Begin(t) \/ Lookup(t) \/ NLookup(t) \/ NInsert(t) \/ Insert(t) \/ Clone(t) \/ Send(t) \/ Recv(t) \/ DropBegin(t) \/ DropCount(t) \/ DropClear(t)

Done == \A t \in Threads : st.pc[t] = "done"
NextNoStutter == \E t \in Threads : Step(t)
Next == NextNoStutter \/ (Done /\ UNCHANGED vars)
Spec == Init /\ [][Next]_vars
FairSpec == Spec /\ WF_vars(NextNoStutter)

JudgeOk == st.j.ok
EndOk == Done => JStep(st.j, [ev |-> "end", outcome |-> "completed"]).ok
Terminates == <>Done
NoStuck == Done \/ ENABLED NextNoStutter
=============================================================================
