------------------------------ MODULE LinkedStatics ------------------------------
(* EXPLORER for C12, linked statics: StaticInstances::get() of packages/linked/src/static_instances.rs as its real
   steps.  The named yield points of hook H5 are

     Variant = "fixed" (the code as it is now: the registry holds one cell - an Arc<OnceLock<Family>> - per static)
       static.local   look up the thread-local registry; hit: make the instance, return              [thread-local]
       static.rcheck  read lock: does the static's cell exist?                                       [shared]
       static.wlock   write lock: insert an empty cell if there is none; unlock                      [shared]
       static.once    OnceLock::get_or_init on the cell: set -> go on; being initialised by another
                      thread -> blocked; empty -> this thread becomes the cell's initialiser         [shared]
       static.init    RUN THE INITIALISER holding only the cell - it may call get() on other statics [thread-local]
       static.set     the cell is set to the family of the instance the initialiser produced         [shared]
       static.rlock   read lock; clone the family; unlock; cache it thread-locally; make the instance [shared]
     Variant = "orig" (the code before the fix for finding S6a; kept to show what the machinery reports on it)
       static.local / static.wlock (write lock; vacant?) / static.init (initialiser runs UNDER the write lock) /
       static.insert (insert; unlock) / static.rlock

   One action = one shared step followed by every thread-local step up to the next shared step (partial-order
   reduction: thread-local steps read and write only the thread's own registry and stack, and the judge's bookkeeping
   they touch is per thread or order-insensitive, so they commute with every step of other threads).  The action
   records every yield point it passes in `hist`, so a behaviour is a complete schedule script for the real code.

   std::sync::RwLock is not re-entrant: a thread that requests the lock while it holds the write lock never gets it.
   The write lock is the only lock state that spans actions (read locks are taken and released inside one action).
   Initialisers call get() on the statics in deps[s] in ascending order; deps ranges over every acyclic graph (every
   DAG is, up to renaming, one whose edges go from lower to higher numbers); prog0[t] over every non-empty sequence
   of at most MaxProg statics (threads are interchangeable: only assignments sorted by thread are generated).    *)
EXTENDS LinkedAbs

CONSTANTS NT, NS, MaxProg, Variant, Hist

Threads == 0 .. NT - 1
Statics == 1 .. NS
NoThread == NT

VARIABLES deps, prog0, prog, tl, stack, wr, registry, cell, cache, nfam, j, hist
vars == <<deps, prog0, prog, tl, stack, wr, registry, cell, cache, nfam, j, hist>>
View == <<deps, prog0, prog, tl, stack, wr, registry, cell, cache, nfam, j>>

Progs == UNION { [1..n -> Statics] : n \in 1..MaxProg }
Min(S) == CHOOSE x \in S : \A y \in S : x <= y
RECURSIVE Code(_)
Code(p) == IF p = <<>> THEN 0 ELSE Head(p) + (NS + 1) * Code(Tail(p))

Init ==
    /\ deps \in { d \in [Statics -> SUBSET Statics] : \A s \in Statics : \A x \in d[s] : x > s }
    /\ prog0 \in { p \in [Threads -> Progs] : \A t \in Threads : t + 1 \in Threads => Code(p[t]) <= Code(p[t + 1]) }
    /\ prog = prog0
    /\ tl = [t \in Threads |-> "start"]
    /\ stack = [t \in Threads |-> <<>>]
    /\ wr = NoThread
    /\ registry = [s \in Statics |-> 0]           \* family registered / held by the set cell (0: none)
    /\ cell = [s \in Statics |-> "absent"]      \* fixed: absent | empty | running | set
    /\ cache = [t \in Threads |-> [s \in Statics |-> 0]]
    /\ nfam = [s \in Statics |-> 0]
    /\ j = JInit
    /\ hist = <<>>

SetTop(stk, f) == [stk EXCEPT ![Len(stk)] = f]
Pop(stk) == SubSeq(stk, 1, Len(stk) - 1)
FirstShared == IF Variant = "orig" THEN "wlock" ELSE "rcheck"
AfterInit == IF Variant = "orig" THEN "insert" ELSE "set"

(* Thread-local computation.  L = [stack, prog, cache, j, nfam, log, done] is thread t's private view; the operators
   run t forward to its next shared step.                                                                         *)
RECURSIVE Enter(_, _, _), Return(_, _), ContinueInit(_, _)

\* t calls get(s): the thread-local lookup
Enter(t, L, s) ==
    LET L1 == [L EXCEPT !.j = JStep(@, [ev |-> "get_begin", t |-> t, s |-> s]), !.log = Append(@, "static.local")] IN
    IF L.cache[s] # 0
    THEN Return(t, [L1 EXCEPT !.j = JStep(@, [ev |-> "get_end", t |-> t, s |-> s, fam |-> L.cache[s]])])
    ELSE [L1 EXCEPT !.stack = Append(@, [s |-> s, pc |-> FirstShared, todo |-> {}, fam |-> 0])]

\* a get() returned to its caller: the initialiser of the frame below, or the thread's program
Return(t, L) ==
    IF L.stack # <<>> THEN ContinueInit(t, L)
    ELSE IF Len(L.prog) = 1 THEN [L EXCEPT !.prog = <<>>, !.done = TRUE]
    ELSE Enter(t, [L EXCEPT !.prog = Tail(@), !.log = Append(@, "op:get")], L.prog[2])

\* the top frame is running its initialiser: next dependency, or the initialiser's result
ContinueInit(t, L) ==
    LET c == L.stack[Len(L.stack)] IN
    IF c.todo # {}
    THEN LET d == Min(c.todo) IN Enter(t, [L EXCEPT !.stack = SetTop(@, [c EXCEPT !.todo = @ \ {d}, !.pc = "initdeps"])], d)
    ELSE LET f == 10 * c.s + L.nfam[c.s] + 1 IN      \* family tag: static and number of the initialiser run
         [L EXCEPT !.stack = SetTop(@, [c EXCEPT !.pc = AfterInit, !.fam = f]),
                   !.j = JStep(@, [ev |-> "init_run", t |-> t, s |-> c.s, fam |-> f]),
                   !.nfam[c.s] = @ + 1]

Local(t, log) == [stack |-> stack[t], prog |-> prog[t], cache |-> cache[t], j |-> j, nfam |-> nfam, log |-> log, done |-> FALSE]

Commit(t, L) ==
    /\ stack' = [stack EXCEPT ![t] = L.stack]
    /\ prog' = [prog EXCEPT ![t] = L.prog]
    /\ cache' = [cache EXCEPT ![t] = L.cache]
    /\ j' = L.j
    /\ nfam' = L.nfam
    /\ tl' = [tl EXCEPT ![t] = IF L.done THEN "done" ELSE "in"]
    /\ hist' = IF Hist THEN hist \o [i \in 1..Len(L.log) |-> <<t, L.log[i]>>] ELSE hist

Top(t) == stack[t][Len(stack[t])]
At(t, p) == tl[t] = "in" /\ stack[t] # <<>> /\ Top(t).pc = p
WithTop(L, f) == [L EXCEPT !.stack = SetTop(@, f)]

\* the thread starts: runs to the first shared step of its first get()
Begin(t) ==
    /\ tl[t] = "start"
    /\ Commit(t, Enter(t, Local(t, <<"start", "op:get">>), Head(prog[t])))
    /\ UNCHANGED <<deps, prog0, wr, registry, cell>>

\* orig: write lock; occupied: unlock at once; vacant: the initialiser runs holding it
WLockOrig(t) ==
    /\ Variant = "orig" /\ At(t, "wlock")
    /\ wr = NoThread
    /\ IF registry[Top(t).s] # 0
       THEN /\ Commit(t, WithTop(Local(t, <<"static.wlock">>), [Top(t) EXCEPT !.pc = "rlock"]))
            /\ UNCHANGED wr
       ELSE /\ Commit(t, ContinueInit(t, WithTop(Local(t, <<"static.wlock", "static.init">>), [Top(t) EXCEPT !.todo = deps[Top(t).s]])))
            /\ wr' = t
    /\ UNCHANGED <<deps, prog0, registry, cell>>

InsertOrig(t) ==
    /\ Variant = "orig" /\ At(t, "insert")
    /\ registry' = [registry EXCEPT ![Top(t).s] = Top(t).fam]
    /\ wr' = NoThread
    /\ Commit(t, WithTop(Local(t, <<"static.insert">>), [Top(t) EXCEPT !.pc = "rlock"]))
    /\ UNCHANGED <<deps, prog0, cell>>

\* fixed: read lock: is there a cell for the static?
RCheck(t) ==
    /\ Variant = "fixed" /\ At(t, "rcheck")
    /\ Commit(t, WithTop(Local(t, <<"static.rcheck">>), [Top(t) EXCEPT !.pc = IF cell[Top(t).s] = "absent" THEN "wlock" ELSE "once"]))
    /\ UNCHANGED <<deps, prog0, wr, registry, cell>>

\* fixed: write lock; insert an empty cell unless somebody did; unlock (one critical section, no user code inside)
WLockFixed(t) ==
    /\ Variant = "fixed" /\ At(t, "wlock")
    /\ cell' = IF cell[Top(t).s] = "absent" THEN [cell EXCEPT ![Top(t).s] = "empty"] ELSE cell
    /\ Commit(t, WithTop(Local(t, <<"static.wlock">>), [Top(t) EXCEPT !.pc = "once"]))
    /\ UNCHANGED <<deps, prog0, wr, registry>>

\* fixed: OnceLock::get_or_init - blocked while another thread (or, in a cycle, this one) runs the initialiser
Once(t) ==
    /\ Variant = "fixed" /\ At(t, "once")
    /\ cell[Top(t).s] # "running"
    /\ IF cell[Top(t).s] = "set"
       THEN /\ Commit(t, WithTop(Local(t, <<"static.once">>), [Top(t) EXCEPT !.pc = "rlock"]))
            /\ UNCHANGED cell
       ELSE /\ Commit(t, ContinueInit(t, WithTop(Local(t, <<"static.once", "static.init">>), [Top(t) EXCEPT !.todo = deps[Top(t).s]])))
            /\ cell' = [cell EXCEPT ![Top(t).s] = "running"]
    /\ UNCHANGED <<deps, prog0, wr, registry>>

\* fixed: the initialiser is done, the cell is set
SetCell(t) ==
    /\ Variant = "fixed" /\ At(t, "set")
    /\ registry' = [registry EXCEPT ![Top(t).s] = Top(t).fam]
    /\ cell' = [cell EXCEPT ![Top(t).s] = "set"]
    /\ Commit(t, WithTop(Local(t, <<"static.set">>), [Top(t) EXCEPT !.pc = "rlock"]))
    /\ UNCHANGED <<deps, prog0, wr>>

\* read lock; clone the family; unlock; cache; make the instance; return
RLock(t) ==
    /\ At(t, "rlock")
    /\ wr = NoThread
    /\ registry[Top(t).s] # 0
    /\ LET s == Top(t).s
           f == registry[s]
           L == Local(t, <<"static.rlock">>) IN
       Commit(t, Return(t, [L EXCEPT !.stack = Pop(@), !.cache[s] = f,
                                     !.j = JStep(@, [ev |-> "get_end", t |-> t, s |-> s, fam |-> f])]))
    /\ UNCHANGED <<deps, prog0, wr, registry, cell>>

Step(t) == Begin(t) \/ WLockOrig(t) \/ InsertOrig(t) \/ RCheck(t) \/ WLockFixed(t) \/ Once(t) \/ SetCell(t) \/ RLock(t)

Done == \A t \in Threads : tl[t] = "done"

NextNoStutter == \E t \in Threads : Step(t)
Next == NextNoStutter \/ (Done /\ UNCHANGED vars)

Spec == Init /\ [][Next]_vars
FairSpec == Spec /\ WF_vars(NextNoStutter)

JudgeOk == j.ok
EndOk == Done => JStep(j, [ev |-> "end", outcome |-> "completed"]).ok
Terminates == <>Done
NoStuck == Done \/ ENABLED NextNoStutter
=============================================================================
