------------------------------ MODULE Trace_Linked ------------------------------
(* Trace validation for C12: the events recorded by harness h_linked from the real `linked` crate are fed, in the total
   order the deterministic scheduler produced, to the judge LinkedAbs!JStep.  Many stimuli are concatenated; each starts
   with a "reset" record.  A stimulus the judge rejects is reported (REJECT: line, reason, the record, the stimulus
   header) and skipped up to the next reset, so one run reports every rejected stimulus.                           *)
EXTENDS LinkedAbs, TraceLib

VARIABLES l, j, hdr

TraceInit == l = 1 /\ j = JInit /\ hdr = [stim |-> 0]

TraceNext ==
    /\ l <= NRec
    /\ LET e == Rec[l]
           n == JStep(j, e) IN
       /\ hdr' = IF e.ev = "reset" THEN e ELSE hdr
       /\ IF n.ok THEN j' = n
          ELSE /\ PrintT(<<"REJECT", ToJson([line |-> l, why |-> n.why, rec |-> e, stim |-> hdr])>>)
               /\ j' = [JInit EXCEPT !.skip = TRUE]
    /\ l' = l + 1

TraceSpec == TraceInit /\ [][TraceNext]_<<l, j, hdr>>
=============================================================================
