---- MODULE MC_PerThread ----
EXTENDS PerThread, Json
\* Generator: one witness behaviour per distinct terminal state (hist is hidden from the fingerprint by VIEW).
GenBeh == Done => PrintT(<<"BEH", ToJson([progs |-> [i \in 1..NT |-> st.progs[i - 1]], script |-> hist])>>)
====
