---- MODULE MC_PerThread ----
EXTENDS PerThread, Json
\* Generator: one witness behaviour per distinct terminal state (hist is hidden from the fingerprint by VIEW).
Beh == ToJson([progs |-> [i \in 1..NT |-> st.progs[i - 1]], script |-> hist])
GenBeh == Done => PrintT(<<"BEH", Beh>>)
CexBeh == (~JudgeOk \/ ~EndOk \/ ~NoStuck) => PrintT(<<"CEX", Beh>>)
CexBehSafe == (~JudgeOk \/ ~EndOk) => PrintT(<<"CEX", Beh>>)
====
