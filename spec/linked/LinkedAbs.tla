------------------------------ MODULE LinkedAbs ------------------------------
(* JUDGE for C12 (linked objects: one family, one instance per thread, each confined to its thread).

   The judge is a deterministic monitor over API-level events: JStep(j, e) is the judge state after event e, with
   j.ok = FALSE (and j.why) as soon as the property is violated.  The explorers (LinkedStatics, PerThread) feed it the
   events their actions produce and TLC checks the invariant j.ok over every interleaving; Trace_Linked feeds it the
   events recorded from the real crate.  It constrains nothing but the property:

   linked statics (events get_begin / init_run / get_end / end)
     S1  every instance a get() returns carries a family that some initialiser run of that static produced;
     S2  all instances ever returned for one static carry the same family (exactly one initialiser result is exposed;
         how many initialisers ran, on which thread, under which lock is free);
     S3  first access terminates: the run ends "completed" with no get() pending (a deadlock/hang is an "end" event
         with another outcome), and no panic.

   per-thread wrappers (events wrapper / create / destroy / acquire / clone / send / recv / drop_begin / drop_end / end)
     P1  acquire on thread t returns a live instance created on t, of the wrapper's family;
     P2  at most one live exposed instance per thread (an instance is exposed once an acquire returned it; instances
         the implementation creates and discards without exposing them are its own business);
     P3  an exposed instance is not destroyed while a reference aligned to it is live;
     P4  when the last reference aligned to an instance has been dropped - on whichever thread - the instance has been
         destroyed (checked when that drop returns; references whose drop is in progress count as not yet dropped);
     P5  clone yields a reference aligned to the same instance.                                                    *)
EXTENDS Naturals, Sequences, FiniteSets, TLC

NoFn == [x \in {} |-> 0]

JInit == [ok |-> TRUE, why |-> "", skip |-> FALSE,
          runs |-> {}, exposed |-> {}, open |-> {},
          wfam |-> 0, insts |-> NoFn, refs |-> NoFn]

Bad(j, why) == [j EXCEPT !.ok = FALSE, !.why = why]


\* references (live or being dropped) aligned to instance i
RefsOf(j, i) == { r \in DOMAIN j.refs : j.refs[r].inst = i /\ j.refs[r].st # "gone" }
LiveRefsOf(j, i) == { r \in DOMAIN j.refs : j.refs[r].inst = i /\ j.refs[r].st = "live" }
IsLiveRef(j, r) == r \in DOMAIN j.refs /\ j.refs[r].st = "live"
IsAlive(j, i) == i \in DOMAIN j.insts /\ j.insts[i].alive

JStep(j, e) ==
  IF e.ev = "reset" THEN JInit
  ELSE IF j.skip \/ ~j.ok THEN j
  ELSE CASE e.ev = "get_begin" ->
              IF <<e.t, e.s>> \in j.open THEN Bad(j, "get() of a static re-entered on the same thread")
              ELSE [j EXCEPT !.open = @ \cup {<<e.t, e.s>>}]
         [] e.ev = "init_run" -> [j EXCEPT !.runs = @ \cup {<<e.s, e.fam>>}]
         [] e.ev = "get_end" ->
              IF <<e.t, e.s>> \notin j.open THEN Bad(j, "get() returned without having been called")
              ELSE IF <<e.s, e.fam>> \notin j.runs THEN Bad(j, "returned instance is of a family no initialiser of this static produced")
              ELSE IF \E x \in j.exposed : x[1] = e.s /\ x[2] # e.fam THEN Bad(j, "two initialiser results exposed for one static")
              ELSE [j EXCEPT !.open = @ \ {<<e.t, e.s>>}, !.exposed = @ \cup {<<e.s, e.fam>>}]
         [] e.ev = "wrapper" -> [j EXCEPT !.wfam = e.fam]
         \* summary of a free-running run (h_linked ptrace): the owner thread acquired e.pairs pairs of references, the first
         \* alive while the second was acquired, while its previous only reference was dropped on another thread
         [] e.ev = "ptrace" ->
              IF e.two_live # 0 THEN Bad(j, "second live instance on one thread")
              ELSE IF e.created # e.destroyed THEN Bad(j, "instance not destroyed although every reference and the wrapper are gone")
              ELSE j
         [] e.ev = "create" ->
              IF j.wfam # 0 /\ e.fam # j.wfam THEN Bad(j, "instance of a foreign family created")
              ELSE [j EXCEPT !.insts = (e.inst :> [born |-> e.t, fam |-> e.fam, alive |-> TRUE, exposed |-> FALSE]) @@ @]
         [] e.ev = "destroy" ->
              IF ~IsAlive(j, e.inst) THEN Bad(j, "instance destroyed twice or never created")
              ELSE IF j.insts[e.inst].exposed /\ LiveRefsOf(j, e.inst) # {} THEN Bad(j, "instance destroyed while a reference aligned to it is live")
              ELSE [j EXCEPT !.insts[e.inst].alive = FALSE]
         [] e.ev = "acquire" ->
              IF ~IsAlive(j, e.inst) THEN Bad(j, "acquire returned a destroyed or unknown instance")
              ELSE IF j.insts[e.inst].born # e.t THEN Bad(j, "acquire returned an instance created on another thread")
              ELSE IF j.insts[e.inst].fam # j.wfam THEN Bad(j, "acquire returned an instance of another family")
              ELSE IF \E i \in DOMAIN j.insts : i # e.inst /\ j.insts[i].alive /\ j.insts[i].exposed /\ j.insts[i].born = e.t
                   THEN Bad(j, "second live instance on one thread")
              ELSE [j EXCEPT !.insts[e.inst].exposed = TRUE, !.refs = (e.ref :> [inst |-> e.inst, st |-> "live"]) @@ @]
         [] e.ev = "clone" ->
              IF ~IsLiveRef(j, e.src) THEN Bad(j, "clone of a reference that is not live")
              ELSE IF j.refs[e.src].inst # e.inst THEN Bad(j, "clone is aligned to a different instance")
              ELSE IF ~IsAlive(j, e.inst) THEN Bad(j, "clone of a reference to a destroyed instance")
              ELSE [j EXCEPT !.refs = (e.ref :> [inst |-> e.inst, st |-> "live"]) @@ @]
         [] e.ev \in {"send", "recv"} ->
              IF ~IsLiveRef(j, e.ref) THEN Bad(j, "moved reference is not live") ELSE j
         [] e.ev = "drop_begin" ->
              IF ~IsLiveRef(j, e.ref) THEN Bad(j, "dropped reference is not live")
              ELSE [j EXCEPT !.refs[e.ref].st = "dropping"]
         [] e.ev = "drop_end" ->
              IF ~(e.ref \in DOMAIN j.refs /\ j.refs[e.ref].st = "dropping") THEN Bad(j, "drop returned without having begun")
              ELSE LET i == j.refs[e.ref].inst
                       n == [j EXCEPT !.refs[e.ref].st = "gone"] IN
                   IF RefsOf(n, i) = {} /\ n.insts[i].alive THEN Bad(n, "instance outlives the last reference aligned to it")
                   ELSE n
         [] e.ev = "panic" -> Bad(j, "panic")
         [] e.ev = "end" ->
              IF e.outcome # "completed" THEN Bad(j, "run did not terminate")
              ELSE IF j.open # {} THEN Bad(j, "get() still pending at the end")
              ELSE IF \E r \in DOMAIN j.refs : j.refs[r].st # "gone" THEN Bad(j, "references left at the end")
              ELSE IF \E i \in DOMAIN j.insts : j.insts[i].exposed /\ j.insts[i].alive THEN Bad(j, "exposed instance alive at the end")
              ELSE j
         [] OTHER -> Bad(j, "unknown event")

RECURSIVE JFold(_, _)
JFold(j, es) == IF es = <<>> THEN j ELSE JFold(JStep(j, Head(es)), Tail(es))
=============================================================================
