---- MODULE MC_BH ----
(* TLC-only: enumerates small families of dyadic p-values x false-discovery rates x family sizes (>= and one below the
   number of p-values), prints the stimulus with the expected keep mask, and checks the step-up definition against the
   equivalent counting formulation  K = max { k : at least k p-values are <= k q / m }.
   Dyadic p and q (plus 1/10, 1/20 for families of at most 4) keep every threshold comparison exact in binary floating
   point or far away from equality, so the code's f64 verdicts must equal the rational ones.                        *)
EXTENDS RankStats, TLC, Json
CONSTANTS MaxLen, MaxTie
VARIABLE c

Grid == { <<0, 1>>, <<1, 16>>, <<1, 8>>, <<3, 16>>, <<1, 4>>, <<3, 8>>, <<1, 2>>, <<3, 4>>, <<1, 1>> }
Qs == { <<1, 1>>, <<1, 2>>, <<1, 4>>, <<1, 10>>, <<1, 20>> }

Pow2(j) == IF j = 0 THEN 1 ELSE IF j = 1 THEN 2 ELSE 4
\* Families that sit EXACTLY on the step-up threshold: n equal p-values  p = q / 2^j  in a family of size m = n * 2^j, so
\* p_(n) = (n/m) q holds with equality (and every p is rejected) for arbitrary, non-dyadic q. In binary floating point
\* n/m = 2^-j and its product with q are exact, so the f64 verdict of (k/m)*q must equal the rational one; a threshold
\* assembled in another order (k * (q/m)) rounds differently and drops or adds rejections for some n.
QsTie == { <<1, 20>>, <<1, 10>>, <<1, 100>>, <<3, 100>>, <<1, 5>>, <<1, 4>>, <<1, 1000>>, <<7, 100>> }
Ties == { [p |-> [i \in 1..n |-> <<q[1], q[2] * Pow2(j)>>], q |-> q, m |-> n * Pow2(j)] :
            n \in 1..MaxTie, q \in QsTie, j \in 0..2 }

Init == \/ \E k \in 0..MaxLen :
             \E ps \in [1..k -> Grid] :
               \E q \in Qs :
                 \E m \in (IF k > 0 THEN k - 1 ELSE 0)..(k + 3) :
                   c = [p |-> ps, q |-> q, m |-> m]
        \/ c \in Ties
Next == UNCHANGED c

CountK(ps, q, m) ==
    LET ok == { k \in 1..Len(ps) : Cardinality({ j \in 1..Len(ps) : RLe(ps[j], <<k * q[1], m * q[2]>>) }) >= k }
    IN IF ok = {} THEN 0 ELSE CHOOSE k \in ok : \A j \in ok : k >= j

Laws ==
    c.m >= Len(c.p) /\ c.m >= 1 =>
        /\ BHMaxRank(c.p, c.q, c.m) = CountK(c.p, c.q, c.m)
        /\ Cardinality({ i \in 1..Len(c.p) : BHKeep(c.p, c.q, c.m)[i] }) = BHMaxRank(c.p, c.q, c.m)
        \* a larger family never rejects more
        /\ \A i \in 1..Len(c.p) : BHKeep(c.p, c.q, c.m + 1)[i] => BHKeep(c.p, c.q, c.m)[i]
        \* on-threshold ties are rejected entirely
        /\ c \in Ties => \A i \in 1..Len(c.p) : BHKeep(c.p, c.q, c.m)[i]

GenCase ==
    PrintT(<<"BCASE", ToJson([p |-> c.p, q |-> c.q, m |-> c.m,
                              keep |-> IF c.m >= Len(c.p) /\ c.m >= 1 THEN [i \in 1..Len(c.p) |-> IF BHKeep(c.p, c.q, c.m)[i] THEN 1 ELSE 0]
                                       ELSE <<>>])>>)
====
