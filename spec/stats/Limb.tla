------------------------------ MODULE Limb ------------------------------
(* Natural numbers beyond TLC's 32-bit integers: little-endian sequences of base-10000 digits, normalised (no leading
   zero digit; <<>> is 0).  Every intermediate integer stays below 2^31: digit products are < 1e8 and at most 12 of them
   are summed per column.                                                                                           *)
EXTENDS Integers, Sequences

LB == 10000

RECURSIVE LNorm(_)
LNorm(a) == IF a # <<>> /\ a[Len(a)] = 0 THEN LNorm(SubSeq(a, 1, Len(a) - 1)) ELSE a

RECURSIVE LFromInt(_)
LFromInt(k) == IF k = 0 THEN <<>> ELSE <<k % LB>> \o LFromInt(k \div LB)

LD(a, i) == IF i >= 1 /\ i <= Len(a) THEN a[i] ELSE 0
LMax(a, b) == IF a > b THEN a ELSE b

\* s: a sequence of column sums (each < 1.5e9): propagate carries
RECURSIVE LCarryFrom(_, _, _)
LCarryFrom(s, i, c) ==
    IF i > Len(s) THEN LFromInt(c)
    ELSE LET v == s[i] + c IN <<v % LB>> \o LCarryFrom(s, i + 1, v \div LB)
LCarry(s) == LNorm(LCarryFrom(s, 1, 0))

LAdd(a, b) == LCarry([i \in 1..LMax(Len(a), Len(b)) |-> LD(a, i) + LD(b, i)])

RECURSIVE LColumn(_, _, _, _)
LColumn(a, b, k, i) == IF i > Len(a) THEN 0 ELSE a[i] * LD(b, k - i + 1) + LColumn(a, b, k, i + 1)
LMul(a, b) ==
    IF a = <<>> \/ b = <<>> THEN <<>>
    ELSE LCarry([k \in 1..(Len(a) + Len(b) - 1) |-> LColumn(a, b, k, 1)])

RECURSIVE LCmpAt(_, _, _)
LCmpAt(a, b, i) == IF i = 0 THEN 0 ELSE IF a[i] < b[i] THEN -1 ELSE IF a[i] > b[i] THEN 1 ELSE LCmpAt(a, b, i - 1)
\* -1, 0, 1
LCmp(a, b) == IF Len(a) < Len(b) THEN -1 ELSE IF Len(a) > Len(b) THEN 1 ELSE LCmpAt(a, b, Len(a))

\* a - b for a >= b
RECURSIVE LSubFrom(_, _, _, _)
LSubFrom(a, b, i, br) ==
    IF i > Len(a) THEN <<>>
    ELSE LET v == a[i] - LD(b, i) - br IN
         IF v < 0 THEN <<v + LB>> \o LSubFrom(a, b, i + 1, 1) ELSE <<v>> \o LSubFrom(a, b, i + 1, 0)
LSub(a, b) == LNorm(LSubFrom(a, b, 1, 0))

\* self-test (evaluated by MC_BH-style ASSUME in Trace_RankStats)
LimbLaws ==
    /\ LFromInt(123456789) = <<6789, 2345, 1>>
    /\ LMul(LFromInt(99999999), LFromInt(99999999)) = <<1, 0, 9998, 9999>>
    /\ LAdd(<<9999, 9999>>, <<1>>) = <<0, 0, 1>>
    /\ LSub(<<0, 0, 1>>, <<1>>) = <<9999, 9999>>
    /\ LCmp(<<0, 0, 1>>, <<9999, 9999>>) = 1 /\ LCmp(<<5, 1>>, <<6, 1>>) = -1 /\ LCmp(<<>>, <<>>) = 0
    /\ LMul(<<>>, <<5>>) = <<>>
    /\ LSub(<<7, 3>>, <<7, 3>>) = <<>>
=============================================================================
