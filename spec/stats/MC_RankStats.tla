---- MODULE MC_RankStats ----
(* TLC-only: enumerates EVERY weak order of n <= MaxN points (as the canonical sample whose values are 1..k), prints one
   stimulus line per weak order with the expected values of the definitions (every split included), and checks laws on
   the definitions themselves for n <= LawN: swap symmetry, invariance under strictly increasing maps, antisymmetry
   under order reversal, and that the smaller-side evaluation the judge uses equals the definition on the left sample. *)
EXTENDS RankStats, TLC, Json
CONSTANTS MinN, MaxN, LawN
VARIABLE x

Canon(f, n) == LET img == { f[i] : i \in 1..n } IN img = 1..Cardinality(img)
Samples(n) == { f \in [1..n -> 1..n] : Canon(f, n) }

\* The samples are generated as a tree (append one value per step) so that TLC's workers share the evaluation; a prefix
\* is extended only while its missing values can still be supplied.  Every weak order of MinN..MaxN points is a node.
Image(y) == { y[i] : i \in Idx(y) }
MaxVal(y) == IF y = <<>> THEN 0 ELSE CHOOSE v \in Image(y) : \A w \in Image(y) : v >= w
Missing(y) == MaxVal(y) - Cardinality(Image(y))
IsCase == Len(x) >= MinN /\ Missing(x) = 0

Init == x = <<>>
Next == /\ Len(x) < MaxN
        /\ \E v \in 1..MaxN : x' = Append(x, v) /\ Missing(x') <= MaxN - Len(x')

N == Len(x)
Map(g(_), y) == [i \in Idx(y) |-> g(y[i])]
Swap(y, t) == [i \in Idx(y) |-> IF i <= Len(y) - t THEN y[t + i] ELSE y[i - (Len(y) - t)]]
G1(v) == 3 * v - 10
G2(v) == v * v
Neg(v) == 0 - v

SameRankBased(y) ==
    /\ Ranks2(y) = Ranks2(x)
    /\ MKS(y) = MKS(x) /\ MKVar18(y) = MKVar18(x)
    /\ N >= 2 => PetK(y) = PetK(x) /\ PetIndex(y) = PetIndex(x)
    /\ \A t \in 1..(N - 1) : PNum(y, t) = PNum(x, t) /\ U2x2(y, t) = U2x2(x, t)

Laws ==
    IsCase /\ N <= LawN =>
        /\ SumF(Ranks2(x), Idx(x)) = N * (N + 1)
        /\ SameRankBased(Map(G1, x)) /\ SameRankBased(Map(G2, x))
        /\ \A t \in 1..(N - 1) :
            /\ PNumLeft(x, t) = PNumRight(x, t)
            /\ PNum(Swap(x, t), N - t) = PNum(x, t)
            /\ U2x2(Swap(x, t), N - t) = 2 * t * (N - t) - U2x2(x, t)
            /\ PNum(Map(Neg, x), t) = PNum(x, t)
            /\ U2x2(Map(Neg, x), t) = 2 * t * (N - t) - U2x2(x, t)
        /\ MKS(Map(Neg, x)) = 0 - MKS(x)
        /\ MKVar18(Map(Neg, x)) = MKVar18(x)
        /\ N >= 2 => PetK(Map(Neg, x)) = PetK(x) /\ PetIndex(Map(Neg, x)) = PetIndex(x)
        /\ N >= 1 => Med2(Map(G1, x)) = 3 * Med2(x) - 20
        /\ N >= 2 => TSSlope2L(Map(G1, x)) = 3 * TSSlope2L(x)

GenCase ==
    IsCase =>
    PrintT(<<"RCASE", ToJson([x |-> x,
                              mks |-> MKS(x), var18 |-> MKVar18(x),
                              petk |-> IF N >= 2 THEN PetK(x) ELSE 0, petidx |-> IF N >= 2 THEN PetIndex(x) ELSE 0,
                              splits |-> [t \in 1..(N - 1) |-> <<PNum(x, t), PTotal(x, t), U2x2(x, t)>>]])>>)
====
