------------------------------ MODULE Trace_RankStats ------------------------------
(* Judges what harness/h_stats recorded from the real cbh_stats functions with the definitions of RankStats.

   Integers are compared exactly.  A real-valued result v whose definition is the rational E/D is logged by the harness
   as  num = round(v*D)  and  res = round((v*D - num) * 1e12);  the judge requires num = E and |res| <= max(1, |E|)
   (1e-12 relative).  p-values are also logged as <<hi, lo>> = round(p * 1e18) split in two 9-digit halves, -1 for a
   value that is not a finite number in [0, 1]; the reportable range is [1e-15, 1].

   Records
     seq    one sample x (integers) under every embedding e (strictly increasing maps applied by the harness):
            rank[e] = <<pet_some, pet_index, pet_k, mk_s, sel_some, sel_index, sel_tp_num, sel_tp_res, sel_sup_num, sel_sup_res>>
            pp[e]   = <<pet_hi, pet_lo, mk_hi, mk_lo, tp_hi, tp_lo, adj_hi, adj_lo>>
            aff[e]  = <<a, b, ts_some, slope_num, slope_res, icpt_num, icpt_res, med_some, med_num, med_res>>  (affine maps a*v+b)
            big[e]  = <<exp, med_some, med_num, med_res>>   median of x * 2^exp, scaled back (extreme magnitudes, exact scaling)
     ts     x (8..13 points): aff[e] as above plus the Mann-Kendall S as 11th entry
     mkb    blocks = <<<<size, level, kind>>, ..>> describing a long series, s = reported S, p = <<hi, lo>>; sorted by p
            (descending) by the check: S exactly, p a decreasing function of the exact (|S|-1)^2 / Var(S)
     split  x, t: r[e] = <<some, p_num, p_res, sup_num, sup_res, swp_num, swp_res, swsup_num, swsup_res,
                           cp_num, cp_res, cs_num, cs_res, p_hi, p_lo>>
     bh     p = <<<<num, den>>, ..>>, q = <<num, den>>, m, panic, keep
     mwempty  Mann-Whitney with an empty side: l, r (sizes), some, cp = <<hi, lo>>, cs_some
     range  ps = <<<<hi, lo>>, ..>>: p-values of samples beyond the exhaustive bound (approximation paths): range only
     tmono  Student t p-values on a grid of increasing |t| (ps), of -t (neg), of degenerate inputs (deg)
     ord    kind, x, p: records sorted by the harness-reported p (descending); the judge checks the order against the
            exact statistic (Mann-Kendall: Z2Key, Pettitt: PetKey)                                                *)
EXTENDS RankStats, TraceLib, Limb

ASSUME LimbLaws

VARIABLE l

Tol(num) == IF Abs(num) > 1 THEN Abs(num) ELSE 1
Close(num, res, exp) == num = exp /\ Abs(res) <= Tol(exp)

One == <<1000000000, 0>>
PLe(a, b) == a[1] < b[1] \/ (a[1] = b[1] /\ a[2] <= b[2])
PLt(a, b) == a[1] < b[1] \/ (a[1] = b[1] /\ a[2] < b[2])
\* in [1e-15, 1]
InRange(p) == p[1] >= 0 /\ p[2] >= 0 /\ PLe(<<0, 1000>>, p) /\ PLe(p, One)
\* |a - b| <= 1e-12 relative (units of 1e-18), a >= b
PNear(a, b) ==
    LET dhi == a[1] - b[1]  dlo == a[2] - b[2]  tol == (a[1] \div 1000) + 2 IN     \* no 32-bit overflow
    IF dhi = 0 THEN dlo <= tol ELSE IF dhi = 1 THEN 1000000000 + dlo <= tol ELSE FALSE

-----------------------------------------------------------------------------
\* seq
\* everything the definitions say about the sample, evaluated once per record
SeqExp(x) ==
    LET n == Len(x)
        pet == IF n >= 2 THEN Pet(x) ELSE [k |-> 0, index |-> 0]
        m2 == IF n >= 2 THEN TSSlope2L(x) ELSE 0
    IN [n |-> n, k |-> pet.k, idx |-> pet.index, s |-> MKReportedS(x), z0 |-> Z2Key(x)[1] = 0,
        pn |-> IF n >= 2 THEN PNum(x, pet.index) ELSE 0, u |-> IF n >= 2 THEN U2x2(x, pet.index) ELSE 0,
        sl |-> m2, ic |-> IF n >= 2 THEN TSIcptOf(x, m2) ELSE 0, l4 |-> IF n >= 2 THEN 4 * TSL(x) ELSE 0,
        med |-> IF n >= 1 THEN Med2(x) ELSE 0]

RankRowOk(ex, row) ==
    IF ex.n < 2 THEN row[1] = 0 /\ row[4] = 0 /\ row[5] = 0
    ELSE /\ row[1] = 1 /\ row[2] = ex.idx /\ row[3] = ex.k
         /\ row[4] = ex.s
         /\ row[5] = 1 /\ row[6] = ex.idx
         /\ Close(row[7], row[8], ex.pn)
         /\ Close(row[9], row[10], ex.u)

PRowOk(ex, pr) ==
    /\ ex.n >= 2 => InRange(<<pr[1], pr[2]>>)
    /\ InRange(<<pr[3], pr[4]>>)
    /\ ex.z0 => <<pr[3], pr[4]>> = One
    /\ ex.n >= 2 => /\ InRange(<<pr[5], pr[6]>>) /\ InRange(<<pr[7], pr[8]>>)
                    /\ PLe(<<pr[5], pr[6]>>, <<pr[7], pr[8]>>)        \* adjustment never makes a split more significant

AffRowOk(ex, row) ==
    LET a == row[1]  b == row[2] IN
    /\ IF ex.n < 2 THEN row[3] = 0
       ELSE /\ row[3] = 1
            /\ Close(row[4], row[5], a * ex.sl)
            /\ Close(row[6], row[7], a * ex.ic + ex.l4 * b)
    /\ IF ex.n < 1 THEN row[8] = 0
       ELSE row[8] = 1 /\ Close(row[9], row[10], a * ex.med + 2 * b)

\* median of the sample scaled by 2^row[1] (exact) and scaled back: <<exponent, some, num, res>>
BigRowOk(ex, row) ==
    IF ex.n < 1 THEN row[2] = 0
    ELSE row[2] = 1 /\ Close(row[3], row[4], ex.med)

\* perm[e] = <<some, num, res, adjusted = tainted, orbit>>: the selection-adjusted p under a calibration whose analytic component
\* is 1, i.e. the permutation component: (number of distinct orderings y of the sample whose selected split - Pettitt's
\* first maximum - has an exact Mann-Whitney p <= that of the observed ordering) / (number of distinct orderings), never below
\* the observed split's own p.  num = round(adjusted * orbit); the code divides by a weight of 1 - 1e-10.
Orderings(x) == { [i \in 1..Len(x) |-> x[p[i]]] : p \in Permutations(1..Len(x)) }
SelP(y) == LET t == Pet(y).index IN <<PNum(y, t), PTotal(y, t)>>
PermExp(x) ==
    LET o == SelP(x)
        os == Orderings(x)
    IN [orbit |-> Cardinality(os), obs |-> o,
        extreme |-> Cardinality({ y \in os : LET q == SelP(y) IN q[1] * o[2] <= o[1] * q[2] })]
PermRowOk(pe, row) ==
    /\ row[1] = 1 /\ row[5] = pe.orbit
    /\ LET c == pe.extreme * pe.obs[2] - pe.obs[1] * pe.orbit IN       \* sign of extreme/orbit - tainted
       /\ c > 0 => row[2] = pe.extreme /\ Abs(row[3]) <= 200 * pe.extreme
       /\ c < 0 => row[4] = 1
       /\ c = 0 => row[4] = 1 \/ (row[2] = pe.extreme /\ Abs(row[3]) <= 200 * pe.extreme)

SeqOk(r) ==
    LET ex == SeqExp(r.x) IN
    /\ ("perm" \in DOMAIN r /\ Len(r.perm) > 0) =>
           LET pe == PermExp(r.x) IN \A e \in DOMAIN r.perm : PermRowOk(pe, r.perm[e])
    /\ \A e \in DOMAIN r.rank : RankRowOk(ex, r.rank[e])
    /\ \A e \in DOMAIN r.pp : PRowOk(ex, r.pp[e]) /\ r.pp[e] = r.pp[1]     \* rank-based: identical under every embedding
    /\ \A e \in DOMAIN r.aff : AffRowOk(ex, r.aff[e])
    /\ \A e \in DOMAIN r.big : BigRowOk(ex, r.big[e])
    /\ r.frac = 0

\* ts: Theil-Sen line, median and Mann-Kendall S of 8..13 noisy points (beyond the exhaustive bound), under the affine maps
TsOk(r) ==
    LET x == r.x
        m2 == TSSlope2L(x)
        ex == [n |-> Len(x), sl |-> m2, ic |-> TSIcptOf(x, m2), l4 |-> 4 * TSL(x), med |-> Med2(x)]
        s == MKReportedS(x) IN
    /\ \A e \in DOMAIN r.aff : AffRowOk(ex, r.aff[e]) /\ r.aff[e][11] = s
    /\ r.frac = 0

-----------------------------------------------------------------------------
\* split
SplitRowOk(x, t, row, pn, u) ==
    LET n == Len(x) IN
    /\ row[1] = 1
    /\ Close(row[2], row[3], pn) /\ Close(row[4], row[5], u)
    /\ Close(row[6], row[7], pn) /\ Close(row[8], row[9], 2 * t * (n - t) - u)       \* swapped samples
    /\ Close(row[10], row[11], pn) /\ Close(row[12], row[13], u)                     \* convenience functions
    /\ InRange(<<row[14], row[15]>>)

SplitOk(r) ==
    /\ r.t \in 1..(Len(r.x) - 1)
    /\ LET pn == PNum(r.x, r.t)  u == U2x2(r.x, r.t) IN
       \A e \in DOMAIN r.r : SplitRowOk(r.x, r.t, r.r[e], pn, u)

-----------------------------------------------------------------------------
\* others
BHOk(r) ==
    IF r.m < Len(r.p) THEN r.panic = 1
    ELSE /\ r.panic = 0
         /\ Len(r.keep) = Len(r.p)
         /\ LET k == BHKeep(r.p, r.q, r.m) IN \A i \in 1..Len(r.p) : (r.keep[i] = 1) = k[i]

MWEmptyOk(r) == r.some = 0 /\ r.cp = One /\ r.cs_some = 0

RangeOk(r) == \A i \in DOMAIN r.ps : InRange(r.ps[i])

\* Student t on a grid of increasing |t|: 1 at t = 0, never increasing, symmetric, degenerate inputs exactly 1
TMonoOk(r) ==
    /\ r.ps[1] = One
    /\ \A i \in DOMAIN r.ps : InRange(r.ps[i])
    /\ \A i \in 1..(Len(r.ps) - 1) : PLe(r.ps[i + 1], r.ps[i])
    /\ r.neg = r.ps
    /\ \A i \in DOMAIN r.deg : r.deg[i] = One

\* a, b rationals with positive denominators
QLt(a, b) == a[1] * b[2] < b[1] * a[2]
QEq(a, b) == a[1] * b[2] = b[1] * a[2]
KeyOf(r) == IF r.kind = "mk" THEN Z2Key(r.x) ELSE PetKey(r.x)
\* records arrive sorted by p descending: the exact statistic must not decrease, equal statistics give equal p,
\* a larger statistic a strictly smaller p unless both sit on the same end of the reportable range
OrdOk(prev, r) ==
    /\ InRange(r.p)
    /\ prev.op = "ord" /\ prev.kind = r.kind =>
        LET ka == KeyOf(prev)  kb == KeyOf(r) IN
        /\ PLe(r.p, prev.p)
        /\ ~QLt(kb, ka)
        /\ QEq(ka, kb) => PNear(prev.p, r.p)
        /\ QLt(ka, kb) => (PLt(r.p, prev.p) /\ ~PNear(prev.p, r.p)) \/ (prev.p = r.p /\ (r.p = One \/ r.p = <<0, 1000>>))

-----------------------------------------------------------------------------
\* mkb: Mann-Kendall on long series (hundreds to thousands of points) given as blocks <<size, level, kind>>: kind 0 = the
\* block is constant at its level, 1 = strictly increasing within the block, -1 = strictly decreasing; a block with a higher
\* level lies entirely above one with a lower level; only constant blocks may share a level (one tie group).
\* S and 18 Var(S) = n(n-1)(2n+5) - sum t(t-1)(2t+5) follow in closed form; the squared continuity-corrected z is compared
\* between records by cross-multiplication in Limb arithmetic.
RECURSIVE SumTo(_, _)
SumTo(f, n) == IF n = 0 THEN 0 ELSE f[n] + SumTo(f, n - 1)
BlkS(bl) ==
    LET k == Len(bl)
        inner == [j \in 1..k |-> bl[j][3] * ((bl[j][1] * (bl[j][1] - 1)) \div 2)]
        cross == [j \in 1..k |-> SumTo([i \in 1..(j - 1) |-> bl[i][1] * bl[j][1] * Sgn(bl[j][2] - bl[i][2])], j - 1)]
    IN SumTo(inner, k) + SumTo(cross, k)
BlkN(bl) == SumTo([j \in 1..Len(bl) |-> bl[j][1]], Len(bl))
VarTerm(t) == LMul(LFromInt(t * (t - 1)), LFromInt(2 * t + 5))
RECURSIVE LSumSeq(_, _)
LSumSeq(f, n) == IF n = 0 THEN <<>> ELSE LAdd(f[n], LSumSeq(f, n - 1))
BlkVar18(bl) ==
    LET k == Len(bl)
        levels == { bl[j][2] : j \in { i \in 1..k : bl[i][3] = 0 } }
        \* the tie group of a level is counted at the first constant block of that level
        first(j) == bl[j][3] = 0 /\ \A i \in 1..(j - 1) : ~(bl[i][3] = 0 /\ bl[i][2] = bl[j][2])
        size(j) == SumTo([i \in 1..k |-> IF bl[i][3] = 0 /\ bl[i][2] = bl[j][2] THEN bl[i][1] ELSE 0], k)
        ties == [j \in 1..k |-> IF first(j) THEN VarTerm(size(j)) ELSE <<>>]
    IN LSub(VarTerm(BlkN(bl)), LSumSeq(ties, k))
BlkWellFormed(bl) ==
    \A i, j \in 1..Len(bl) : i # j /\ bl[i][2] = bl[j][2] => bl[i][3] = 0 /\ bl[j][3] = 0
\* <<q, v>>: z^2 = q / v as Limb numbers; q = <<>> means "no evidence"
BlkKey(bl) ==
    LET s == Abs(BlkS(bl))  v == BlkVar18(bl) IN
    IF BlkN(bl) < 3 \/ v = <<>> \/ s <= 1 THEN <<<<>>, <<1>>>>
    ELSE <<LMul(LMul(LFromInt(s - 1), LFromInt(s - 1)), <<18>>), v>>
\* -1: a < b, 0, 1
KeyCmp(a, b) == LCmp(LMul(a[1], b[2]), LMul(b[1], a[2]))
\* a * (1 + 1e-6) < b
KeyClearlyLt(a, b) == LCmp(LMul(LMul(a[1], b[2]), LFromInt(1000001)), LMul(LMul(b[1], a[2]), LFromInt(1000000))) = -1
MkbOk(prev, r) ==
    LET kb == BlkKey(r.blocks) IN
    /\ BlkWellFormed(r.blocks)
    /\ r.s = BlkS(r.blocks) /\ r.frac = 0
    /\ InRange(r.p)
    /\ (kb[1] = <<>>) = (r.p = One)
    /\ prev.op = "mkb" =>
        LET ka == BlkKey(prev.blocks) IN
        /\ PLe(r.p, prev.p)
        /\ KeyCmp(kb, ka) >= 0
        /\ KeyCmp(ka, kb) = 0 => PNear(prev.p, r.p)
        /\ KeyClearlyLt(ka, kb) => (PLt(r.p, prev.p) /\ ~PNear(prev.p, r.p)) \/ (prev.p = r.p /\ r.p = <<0, 1000>>)

Accept(r, prev) ==
    CASE r.op = "seq" -> SeqOk(r)
      [] r.op = "split" -> SplitOk(r)
      [] r.op = "ts" -> TsOk(r)
      [] r.op = "mkb" -> MkbOk(prev, r)
      [] r.op = "bh" -> BHOk(r)
      [] r.op = "mwempty" -> MWEmptyOk(r)
      [] r.op = "range" -> RangeOk(r)
      [] r.op = "ord" -> OrdOk(prev, r)
      [] r.op = "tmono" -> TMonoOk(r)
      [] r.op = "embs" -> TRUE
      [] OTHER -> FALSE

TraceInit == l = 1

TraceNext ==
    /\ l <= NRec
    /\ LET ok == Accept(Rec[l], IF l > 1 THEN Rec[l - 1] ELSE [op |-> "none"]) IN
       \/ ok
       \/ ~ok /\ PrintT(<<"REJECT", ToJson([line |-> l, rec |-> Rec[l]])>>)
    /\ l' = l + 1

TraceSpec == TraceInit /\ [][TraceNext]_l
=============================================================================
