------------------------------ MODULE RankStats ------------------------------
(* JUDGE for C20 (discrete part): the statistics of packages/cbh_stats written as DEFINITIONS -- counting, set
   comprehension, exact integer / rational arithmetic -- not as algorithms.  Nothing here sorts, accumulates prefix
   sums, runs a subset-sum recurrence or uses floating point.

   A sample is a sequence x of integers (slice order = time order).  Rationals are pairs <<num, den>>, den > 0.

     R2(x, i)          doubled average rank of x[i]:  the ranks spanned by the tie group of x[i] are
                       Less+1 .. Less+Equal, their mean is Less + (Equal+1)/2
     split t           left = x[1..t], right = x[t+1..n]; the joint ranking of left ++ right is the ranking of x
     U2x2(x, t)        2 x Mann-Whitney U of the right sample: cross pairs with right > left count 2, ties 1
                       probability of superiority = U2x2 / (2 n1 n2)
     PNum(x, t)/Total  exact two-sided p: under the null the left sample is a uniformly random t-subset of the joint
                       ranks; p = min(1, 2 min(P(sum <= observed), P(sum >= observed))), ties kept as they are
     MKS, MKVar18      Mann-Kendall S = sum over i<j of sgn(x[j]-x[i]);  18 Var(S) = n(n-1)(2n+5) - sum_g t(t-1)(2t+5)
     PetK, PetIndex    Pettitt: U_t = 2 R_t - t(n+1) (R_t = sum of the first t average ranks); K = max |U_t|,
                       location = the first t attaining it
     TheilSen          slope = median of all pairwise slopes (x[j]-x[i])/(j-i); intercept = median of x[i] - slope (i-1)
     Med2              2 x median (even count: sum of the two middle values)
     BHKeep            Benjamini-Hochberg step-up: K = largest k with p_(k) <= (k/m) q, reject every p <= p_(K)

   The continuous pieces (normal tail of Mann-Kendall, Pettitt's exponential) are not definable over the integers.
   What is decided about them: the reported p is a function of the exact statistic only (Z2Key / PetKey), strictly
   decreasing in it, saturating only at the ends of the documented range, and "no evidence" is exactly 1.          *)
EXTENDS Naturals, Integers, Sequences, FiniteSets

Idx(x) == 1..Len(x)
Abs(a) == IF a < 0 THEN -a ELSE a
Min2(a, b) == IF a <= b THEN a ELSE b
Sgn(a) == IF a > 0 THEN 1 ELSE IF a < 0 THEN -1 ELSE 0

RECURSIVE SumF(_, _)
\* sum of f[a] over a \in S
SumF(f, S) == IF S = {} THEN 0 ELSE LET a == CHOOSE a \in S : TRUE IN f[a] + SumF(f, S \ {a})

RECURSIVE Gcd(_, _)
Gcd(a, b) == IF b = 0 THEN a ELSE Gcd(b, a % b)
Lcm(a, b) == (a * b) \div Gcd(a, b)
RECURSIVE LcmUpTo(_)
LcmUpTo(k) == IF k <= 1 THEN 1 ELSE Lcm(LcmUpTo(k - 1), k)

RECURSIVE Binom(_, _)
Binom(n, k) == IF k = 0 THEN 1 ELSE (Binom(n, k - 1) * (n - k + 1)) \div k

-----------------------------------------------------------------------------
\* ranks
Less(x, i) == Cardinality({ j \in Idx(x) : x[j] < x[i] })
Equal(x, i) == Cardinality({ j \in Idx(x) : x[j] = x[i] })
R2(x, i) == 2 * Less(x, i) + Equal(x, i) + 1
Ranks2(x) == [i \in Idx(x) |-> R2(x, i)]

-----------------------------------------------------------------------------
\* Mann-Whitney
\* doubled rank sum of the index set A
RS2(rk, A) == SumF(rk, A)

U2x2(x, t) ==
    LET pairs == (1..t) \X ((t + 1)..Len(x)) IN
    2 * Cardinality({ p \in pairs : x[p[2]] > x[p[1]] }) + Cardinality({ p \in pairs : x[p[2]] = x[p[1]] })

RECURSIVE KSubsets(_, _)
\* all k-element subsets of a set of integers (each built in increasing order of its elements)
KSubsets(S, k) ==
    IF k = 0 THEN {{}}
    ELSE UNION { { A \cup {a} : A \in KSubsets({ b \in S : b > a }, k - 1) } : a \in S }

\* tail counts of the doubled rank sum of a uniformly random k-subset, observed on the index set `side`
TailCounts(x, k, side) ==
    LET rk == Ranks2(x)
        obs == RS2(rk, side)
        subs == KSubsets(Idx(x), k)
    IN [lower |-> Cardinality({ A \in subs : RS2(rk, A) <= obs }),
        upper |-> Cardinality({ A \in subs : RS2(rk, A) >= obs }),
        total |-> Cardinality(subs)]

PNumOf(tl) == Min2(tl.total, 2 * Min2(tl.lower, tl.upper))

\* the definition, on the left sample
PNumLeft(x, t) == PNumOf(TailCounts(x, t, 1..t))
\* the same on the right sample (the two must agree: the sums of the two sides add up to a constant)
PNumRight(x, t) == PNumOf(TailCounts(x, Len(x) - t, (t + 1)..Len(x)))
\* what the judge evaluates: the smaller side (fewer terms per subset)
PNum(x, t) == IF t <= Len(x) - t THEN PNumLeft(x, t) ELSE PNumRight(x, t)
PTotal(x, t) == Binom(Len(x), Min2(t, Len(x) - t))

-----------------------------------------------------------------------------
\* Mann-Kendall
MKS(x) ==
    LET pairs == { p \in Idx(x) \X Idx(x) : p[1] < p[2] } IN
    Cardinality({ p \in pairs : x[p[2]] > x[p[1]] }) - Cardinality({ p \in pairs : x[p[2]] < x[p[1]] })

Values(x) == { x[i] : i \in Idx(x) }
Count(x, v) == Cardinality({ i \in Idx(x) : x[i] = v })

MKVar18(x) ==
    LET n == Len(x)
        tie == [v \in Values(x) |-> LET c == Count(x, v) IN c * (c - 1) * (2 * c + 5)]
    IN n * (n - 1) * (2 * n + 5) - SumF(tie, Values(x))

\* what mann_kendall reports as S: 0 for fewer than three points
MKReportedS(x) == IF Len(x) < 3 THEN 0 ELSE MKS(x)
\* the squared continuity-corrected z as a rational <<num, den>>; <<0, 1>> = "no evidence" (p must be exactly 1)
Z2Key(x) ==
    LET s == Abs(MKS(x))  v == MKVar18(x) IN
    IF Len(x) < 3 \/ v <= 0 \/ s <= 1 THEN <<0, 1>> ELSE <<(s - 1) * (s - 1) * 18, v>>

-----------------------------------------------------------------------------
\* Pettitt
\* U_t for every admissible t (computed once; TLC re-evaluates operator applications, LET values are shared)
PetUs(x) == LET rk == Ranks2(x)  n == Len(x) IN [t \in 1..(n - 1) |-> SumF(rk, 1..t) - t * (n + 1)]
PetKOf(us) == LET as == { Abs(us[t]) : t \in DOMAIN us } IN CHOOSE k \in as : \A j \in as : k >= j
PetIndexOf(us) == LET k == PetKOf(us) IN
                  CHOOSE t \in DOMAIN us : Abs(us[t]) = k /\ \A s \in 1..(t - 1) : Abs(us[s]) < k
PetU(x, t) == PetUs(x)[t]
PetK(x) == PetKOf(PetUs(x))
PetIndex(x) == PetIndexOf(PetUs(x))
\* both at once: [k, index]
Pet(x) == LET us == PetUs(x) IN [k |-> PetKOf(us), index |-> PetIndexOf(us)]
\* p = min(1, 2 exp(-6 K^2 / (n^3 + n^2))): a decreasing function of this rational
PetKey(x) == LET n == Len(x)  k == PetK(x) IN <<k * k, n * n * n + n * n>>

-----------------------------------------------------------------------------
\* order statistics, Theil-Sen
\* k-th smallest (1-based) value of the bag { f[a] : a \in S }
Kth(f, S, k) ==
    CHOOSE v \in { f[a] : a \in S } :
        /\ Cardinality({ a \in S : f[a] < v }) < k
        /\ Cardinality({ a \in S : f[a] <= v }) >= k

\* twice the median of the bag
Med2Of(f, S) ==
    LET m == Cardinality(S) IN
    IF m % 2 = 1 THEN 2 * Kth(f, S, (m + 1) \div 2) ELSE Kth(f, S, m \div 2) + Kth(f, S, m \div 2 + 1)

Med2(x) == Med2Of(x, Idx(x))

\* L = lcm(1..n-1): every pairwise slope times L is an integer
TSL(x) == LcmUpTo(Len(x) - 1)
\* slope = TSSlope2L / (2 L);   intercept = TSIcpt4L / (4 L)     (positions are 0-based in the code: x[i] sits at i-1)
TSSlope2L(x) ==
    LET P == { p \in Idx(x) \X Idx(x) : p[1] < p[2] }
        L == TSL(x)
        sl == [p \in P |-> ((x[p[2]] - x[p[1]]) * L) \div (p[2] - p[1])]
    IN Med2Of(sl, P)
TSIcptOf(x, m2) ==
    LET L == TSL(x)
        ic == [i \in Idx(x) |-> 2 * L * x[i] - m2 * (i - 1)]
    IN Med2Of(ic, Idx(x))
TSIcpt4L(x) == TSIcptOf(x, TSSlope2L(x))

-----------------------------------------------------------------------------
\* Benjamini-Hochberg
\* rationals as <<num, den>> with den > 0
RLe(a, b) == a[1] * b[2] <= b[1] * a[2]

\* 1-based rank positions a p-value can occupy in an ascending order: #smaller + 1 .. #smaller-or-equal
BHMaxRank(ps, q, m) ==
    LET n == Len(ps)
        \* k-th smallest as a rational: the p-value with fewer than k strictly smaller and at least k not larger
        kth(k) == CHOOSE i \in 1..n :
                     /\ Cardinality({ j \in 1..n : ~RLe(ps[i], ps[j]) }) < k
                     /\ Cardinality({ j \in 1..n : RLe(ps[j], ps[i]) }) >= k
        ok == { k \in 1..n : RLe(ps[kth(k)], <<k * q[1], m * q[2]>>) }
    IN IF ok = {} THEN 0 ELSE CHOOSE k \in ok : \A j \in ok : k >= j

\* the keep mask in input order
BHKeep(ps, q, m) ==
    LET n == Len(ps)
        K == BHMaxRank(ps, q, m)
    IN [i \in 1..n |-> K > 0 /\ Cardinality({ j \in 1..n : ~RLe(ps[i], ps[j]) }) < K]
=============================================================================
