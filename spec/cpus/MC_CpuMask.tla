---- MODULE MC_CpuMask ----
(* Laws of CpuMask checked exhaustively on 3-bit words (initial widths 1..3, ids over 4 words so that inserts widen
   beyond every initial width), and the generator of mask stimuli for the replay on the real type.            *)
EXTENDS CpuMask, TLC, Json

CONSTANT MaxIns                \* length of insertion sequences

IdsU == 0..(WB * 4 - 1)

VARIABLES w0, m, set, hist
vars == <<w0, m, set, hist>>

Init == /\ w0 \in 1..3
        /\ m = Empty(w0)
        /\ set = {}
        /\ hist = <<>>

Ins(id) == /\ Len(hist) < MaxIns
           /\ m' = Insert(m, id)
           /\ set' = set \cup {id}
           /\ hist' = Append(hist, id)
           /\ UNCHANGED w0

Next == \E id \in IdsU : Ins(id)
Spec == Init /\ [][Next]_vars

RECURSIVE SortedSeq(_)
SortedSeq(S) == IF S = {} THEN <<>> ELSE LET x == CHOOSE x \in S : \A y \in S : x <= y IN <<x>> \o SortedSeq(S \ {x})
MaxOf(S) == CHOOSE x \in S : \A y \in S : y <= x

TypeOK == /\ Len(m) >= 1
          /\ \A i \in DOMAIN m : m[i] \subseteq 0..(WB - 1)

\* a mask is the set of what was inserted, whatever the order, duplicates and initial width
IdsAreInserted == Ids(m) = set /\ AbsBits(m) = set
\* width: never narrower than created, exactly wide enough for the highest word used
WidthLaw == Len(m) = IF set = {} THEN w0 ELSE Max2(w0, WordOf(MaxOf(set)) + 1)
OrderIrrelevant == m = InsertAll(Empty(w0), SortedSeq(set))
\* equality ignores width
WidenKeepsSet == \A k \in 1..5 : Ids(Widen(m, k)) = Ids(m) /\ Eq(m, Widen(m, k)) /\ Eq(Widen(m, k), m)
NeverNarrower == [][Len(m') >= Len(m)]_vars

\* equality is set equality, for every pair of masks of widths 1..3 (evaluated once)
AllMasks == UNION { [1..w -> SUBSET (0..(WB - 1))] : w \in 1..3 }
ASSUME EqIsSetEquality == \A a, b \in AllMasks : Eq(a, b) <=> (Ids(a) = Ids(b))
\* the embeddings are injective, strictly increasing and keep the word boundary
ASSUME EmbeddingsOk ==
    \A e \in 1..NEmb :
        /\ \A x, y \in ModelIds : x < y => EmbId(e, x) < EmbId(e, y)
        /\ \A x \in ModelIds : EmbId(e, x) \div RealWB = EmbWord(e, x \div ModelWB)
        /\ \A x \in ModelIds : DecId(e, EmbId(e, x)) = x
        /\ \A k \in 1..(ModelWords - 1) : EmbWidth(e, k) <= EmbWord(e, k)

\* generator: every state is a stimulus (initial width, insertion sequence)
GenCase == PrintT(<<"MCASE", ToJson([w0 |-> w0, ins |-> hist])>>)
====
