------------------------------ MODULE LinuxInventory ------------------------------
(* Judge for C11, inventory part: what the Linux hardware inventory must be, given the kernel's text interfaces.

   A MACHINE DESCRIPTION says what each file the platform reads contains (abstractly; rendering to characters is
   lexical and done by the harness):

     possible, online : [p : BOOLEAN, ids : set, max]   /sys/devices/system/cpu/{possible,online}; p = file exists;
                                                   ids = {} with p: a file that names no id (blank / unreadable);
                                                   max = the largest id (-1 for {}), carried so that the judge need
                                                   not search for it (WellFormed checks it)
     rows             : sequence of [id, bogo, file]   the records of /proc/cpuinfo that carry a "processor" key, ascending
                                                   ids: bogo = bogomips of the record (-1 = no such field); file = what
                                                   /sys/devices/system/cpu/cpuN/online says: 0 | 1 | -1 (no such file)
     style            : 0..3                       key casing / spacing variant, trailing non-processor block,
                                                   blank lines, missing trailing newlines (lexical only)
     allowed          : set of ids                 Cpus_allowed_list of /proc/self/status
     nodes            : [p, ids, max]              /sys/devices/system/node/possible
     members          : set of [n, f, cpus]        node n: f = nodeN/cpulist exists, cpus = what it lists
     cg               : [k, q, p]                  k = "nofile" | "none" | "v2" (cpu.max "q p") | "v2max" (cpu.max "max p")
                                                   | "v1" (hybrid hierarchy, cfs_quota_us q / cfs_period_us p)
                                                   | "v1neg" (cfs_quota_us -1) | "v1pure" (no unified hierarchy at all:
                                                   /proc/self/cgroup has no "0::" line) | "v1diff" (hybrid hierarchy whose
                                                   "0::" path differs from the path on the cpu controller's line; the
                                                   quota files live under the cpu controller's path)

   The judge states the property (the reported inventory equals what these interfaces describe) and the fallbacks
   the package documents (docs/design.md "The ID space is larger than what a caller can see"; the rustdoc of
   max_processor_id / max_memory_region_id / active_processor_count; platform.rs comments on the fallback chain).
   Where nothing is documented the judge leaves a range, not a value.                                          *)
EXTENDS Naturals, Integers, Sequences, FiniteSets

MaxOf(S) == CHOOSE x \in S : \A y \in S : y <= x
Min2(a, b) == IF a < b THEN a ELSE b

Usable(mask) == mask.p /\ mask.ids # {}
MaskOk(mask) == IF mask.ids = {} THEN mask.max = -1 ELSE mask.max \in mask.ids /\ \A x \in mask.ids : x <= mask.max

CgKinds == {"nofile", "none", "v2", "v2max", "v1", "v1neg", "v1pure", "v1diff"}
Limited(D) == D.cg.k \in {"v2", "v1", "v1pure", "v1diff"}

Listed(D) == { D.rows[i].id : i \in DOMAIN D.rows }
Offline(D) == { D.rows[i].id : i \in { k \in DOMAIN D.rows : D.rows[k].file = 0 } }
MemberCpus(D) == UNION { mb.cpus : mb \in { x \in D.members : x.f } }

-----------------------------------------------------------------------------
(* Which descriptions a kernel can produce (the property quantifies over "well-formed contents").              *)

\* the per-cpu file is the kernel's authoritative answer; no file (cpu0, some flavours) means online
RowOnline(row) == row.file # 0

\* listed, online and allowed: the processors a process can actually be running on
RowReported(D, row) == row.id \in D.allowed /\ RowOnline(row)
Processors(D) == { D.rows[i].id : i \in { k \in DOMAIN D.rows : RowReported(D, D.rows[k]) } }

WellFormed(D) ==
    /\ Len(D.rows) >= 1 /\ D.allowed # {}
    /\ MaskOk(D.possible) /\ MaskOk(D.online) /\ MaskOk(D.nodes)
    /\ \A i \in 1..(Len(D.rows) - 1) : D.rows[i].id < D.rows[i + 1].id
    /\ \A i \in DOMAIN D.rows : D.rows[i].file \in {-1, 0, 1} /\ D.rows[i].bogo >= -1
    \* the possible mask bounds everything else that names a cpu
    /\ Usable(D.possible) => Listed(D) \cup D.online.ids \cup MemberCpus(D) \subseteq D.possible.ids
    \* the online mask and the per-cpu files are two views of the same fact
    /\ Usable(D.online) => \A i \in DOMAIN D.rows : (D.rows[i].id \in D.online.ids) <=> RowOnline(D.rows[i])
    \* node member lists: one per possible node at most, disjoint, online cpus only
    /\ \A a, b \in D.members : a.n = b.n => a = b
    /\ \A mb \in D.members : mb.n \in D.nodes.ids /\ (~mb.f => mb.cpus = {})
    /\ \A a, b \in D.members : a # b => a.cpus \cap b.cpus = {}
    /\ MemberCpus(D) \cap Offline(D) = {}
    /\ Usable(D.online) => MemberCpus(D) \subseteq D.online.ids
    /\ ~Usable(D.nodes) => D.members = {}
    \* the process runs somewhere
    /\ Processors(D) # {}
    /\ D.cg.k \in CgKinds
    /\ Limited(D) => D.cg.q >= 1 /\ D.cg.p >= 1

-----------------------------------------------------------------------------
(* The expected inventory.                                                                                    *)

\* region = the node whose member list names the processor; the region every processor has on a machine without a
\* disclosed topology (0) when no node names it (platform.rs load_all_processors, documented fallback)
NodeOf(D, c) ==
    IF Usable(D.nodes) /\ \E mb \in D.members : mb.f /\ c \in mb.cpus
    THEN (CHOOSE mb \in D.members : mb.f /\ c \in mb.cpus).n
    ELSE 0

\* extent of the processor id space: possible mask, else online mask, else what was enumerated
MaxCpuOk(D, v) ==
    IF Usable(D.possible) THEN v = D.possible.max
    ELSE IF Usable(D.online) THEN v = D.online.max
    ELSE /\ \A i \in DOMAIN D.rows : RowReported(D, D.rows[i]) => D.rows[i].id <= v
         /\ v <= D.rows[Len(D.rows)].id

MaxRegionOk(D, v) == IF Usable(D.nodes) THEN v = D.nodes.max ELSE v = 0

\* machine-wide count of active processors: the online mask, else what was enumerated
ActiveOk(D, v) ==
    IF Usable(D.online) THEN v = Cardinality(D.online.ids)
    ELSE v >= Cardinality(Processors(D)) /\ v <= Cardinality({ i \in DOMAIN D.rows : RowOnline(D.rows[i]) })

\* quota = min(count, q/p), reported in thousandths (rounded by the harness, so one unit of slack).
\* Arithmetic arranged to stay inside TLC's 32-bit integers: q * 1000 < 2^31, count * p < 2^31.
QuotaOk(D, v1000) ==
    LET cnt == Cardinality(Processors(D)) IN
    IF Limited(D) /\ D.cg.q < cnt * D.cg.p
    THEN LET lo == (D.cg.q * 1000) \div D.cg.p IN v1000 \in lo..(lo + 1)
    ELSE v1000 = cnt * 1000

\* highest disclosed bogomips among the reported processors / among all records (-1: none disclosed)
MaxBogoReported(D) == MaxOf({-1} \cup { D.rows[i].bogo : i \in { k \in DOMAIN D.rows : RowReported(D, D.rows[k]) } })
MaxBogoListed(D) == MaxOf({-1} \cup { D.rows[i].bogo : i \in DOMAIN D.rows })

\* efficiency class (documented heuristic, platform.rs): slower than the fastest => efficiency; a processor whose
\* bogomips is undisclosed is never demoted.  Which processors "the fastest" ranges over is not documented:
\*   Efficiency  needs a strictly faster processor somewhere in /proc/cpuinfo,
\*   Performance needs that no REPORTED processor is strictly faster.
EffOk(row, isPerformance, maxRep, maxListed) ==
    IF isPerformance THEN row.bogo = -1 \/ maxRep <= row.bogo
    ELSE row.bogo # -1 /\ maxListed > row.bogo

(* An observation (rows aligned with D.rows by the harness, which joins on the processor id):
     panic     : "" or the messages of the panics
     rows      : sequence of [rep, region, eff, raw]   rep 1 = in SystemHardware::all_processors(); region / eff
                 (1 = performance) as reported there, else as the platform probe says (-1 if neither has it);
                 raw = platform probe: 1 active, 0 enumerated but inactive, -1 not enumerated
     extra     : ids reported (publicly or by the probe) that /proc/cpuinfo does not list
     nprocs    : length of the all_processors() list
     maxcpu, maxregion, active, quota1000                                                                      *)

RowOk(D, o, i, maxRep, maxListed) ==
    LET row == D.rows[i]
        ob == o.rows[i] IN
    /\ (ob.rep = 1) <=> RowReported(D, row)                \* exactly the listed, online, allowed processors
    /\ ob.rep = 1 =>
            /\ ob.region = NodeOf(D, row.id)               \* with the region of the node that lists it
            /\ row.id <= o.maxcpu /\ ob.region <= o.maxregion   \* inside the reported id spaces
            /\ EffOk(row, ob.eff = 1, maxRep, maxListed)
    /\ ob.raw = 1 <=> RowReported(D, row)                  \* active <=> online (among what is allowed)
    /\ ob.raw = 0 => ~RowOnline(row)

InventoryOk(D, o) ==
    LET maxRep == MaxBogoReported(D)
        maxListed == MaxBogoListed(D) IN
    /\ o.panic = ""
    /\ Len(o.rows) = Len(D.rows)
    /\ o.extra = <<>>
    /\ o.nprocs = Cardinality(Processors(D))               \* each once
    /\ \A i \in DOMAIN D.rows : RowOk(D, o, i, maxRep, maxListed)
    /\ MaxCpuOk(D, o.maxcpu)
    /\ MaxRegionOk(D, o.maxregion)
    /\ ActiveOk(D, o.active)
    /\ o.active >= 1 /\ o.active <= o.maxcpu + 1
    /\ QuotaOk(D, o.quota1000)

\* which clause failed (used to name the scenario of a rejected record)
Diagnose(D, o) ==
    IF o.panic # "" THEN "panic"
    ELSE IF Len(o.rows) # Len(D.rows) THEN "shape"
    ELSE IF o.extra # <<>> \/ o.nprocs # Cardinality(Processors(D))
            \/ \E i \in DOMAIN D.rows : (o.rows[i].rep = 1) # RowReported(D, D.rows[i]) THEN
            IF \E i \in DOMAIN D.rows : o.rows[i].rep = 1 /\ ~RowOnline(D.rows[i]) THEN "processors:offline-reported"
            ELSE IF \E i \in DOMAIN D.rows : o.rows[i].rep = 1 /\ D.rows[i].id \notin D.allowed THEN "processors:forbidden-reported"
            ELSE "processors"
    ELSE IF \E i \in DOMAIN D.rows : o.rows[i].rep = 1 /\ o.rows[i].region # NodeOf(D, D.rows[i].id) THEN "region"
    ELSE IF ~MaxCpuOk(D, o.maxcpu) \/ \E i \in DOMAIN D.rows : o.rows[i].rep = 1 /\ D.rows[i].id > o.maxcpu THEN "maxcpu"
    ELSE IF ~MaxRegionOk(D, o.maxregion) \/ \E i \in DOMAIN D.rows : o.rows[i].rep = 1 /\ o.rows[i].region > o.maxregion THEN "maxregion"
    ELSE IF ~ActiveOk(D, o.active) \/ o.active < 1 \/ o.active > o.maxcpu + 1 THEN "active-count"
    ELSE IF ~QuotaOk(D, o.quota1000) THEN "quota"
    ELSE IF \E i \in DOMAIN D.rows : o.rows[i].rep = 1
                /\ ~EffOk(D.rows[i], o.rows[i].eff = 1, MaxBogoReported(D), MaxBogoListed(D)) THEN "efficiency"
    ELSE "active-flag"

-----------------------------------------------------------------------------
(* The canonical expectation (the code's documented choices inside the judge's ranges); printed by the generator
   and used to check that the judge is satisfiable and the facts are mutually consistent.                      *)

RECURSIVE SortedSeq(_)
SortedSeq(S) == IF S = {} THEN <<>> ELSE LET x == CHOOSE x \in S : \A y \in S : x <= y IN <<x>> \o SortedSeq(S \ {x})

ExpMaxCpu(D) == IF Usable(D.possible) THEN D.possible.max
                ELSE IF Usable(D.online) THEN D.online.max
                ELSE MaxOf(Listed(D) \cap D.allowed)
ExpMaxRegion(D) == IF Usable(D.nodes) THEN D.nodes.max ELSE 0
ExpActive(D) == IF Usable(D.online) THEN Cardinality(D.online.ids) ELSE Cardinality(Processors(D))
ExpQuota1000(D) ==
    LET cnt == Cardinality(Processors(D)) IN
    IF Limited(D) /\ D.cg.q < cnt * D.cg.p THEN (D.cg.q * 1000) \div D.cg.p ELSE cnt * 1000
ExpEff(D, row) ==
    LET mx == MaxOf({-1} \cup { D.rows[i].bogo : i \in { k \in DOMAIN D.rows : D.rows[k].id \in D.allowed } }) IN
    IF row.bogo # -1 /\ mx > row.bogo THEN 0 ELSE 1

Expected(D) ==
    [ panic |-> "",
      rows |-> [i \in DOMAIN D.rows |->
                 LET row == D.rows[i] IN
                 [ rep |-> IF RowReported(D, row) THEN 1 ELSE 0,
                   region |-> IF row.id \in D.allowed THEN NodeOf(D, row.id) ELSE -1,
                   eff |-> IF row.id \in D.allowed THEN ExpEff(D, row) ELSE -1,
                   raw |-> IF row.id \notin D.allowed THEN -1 ELSE IF RowOnline(row) THEN 1 ELSE 0 ]],
      extra |-> <<>>, nprocs |-> Cardinality(Processors(D)),
      maxcpu |-> ExpMaxCpu(D), maxregion |-> ExpMaxRegion(D), active |-> ExpActive(D), quota1000 |-> ExpQuota1000(D) ]

\* "inventory facts are mutually consistent (ids <= maxima, count >= 1)"
Consistent(D, o) ==
    /\ o.nprocs >= 1
    /\ \A i \in DOMAIN o.rows : o.rows[i].rep = 1 => D.rows[i].id <= o.maxcpu /\ o.rows[i].region <= o.maxregion
    /\ o.active >= 1 /\ o.active <= o.maxcpu + 1
    /\ o.quota1000 >= 1 /\ o.quota1000 <= o.nprocs * 1000
=============================================================================
