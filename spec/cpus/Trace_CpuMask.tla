------------------------------ MODULE Trace_CpuMask ------------------------------
(* Judges records produced by the real affinity mask type (harness h_cpus masks / masks-random, hook H4) with
   CpuMask.  Two instances of the same module: Mo with 3-bit words (the model the laws were checked on) and Re
   with 64-bit words (the real buffer).  For embedded stimuli (e in 1..4) the judge re-derives the embedding of the
   model stimulus, computes the expected REAL buffer with Re, and checks that it is the image of the MODEL outcome
   under the embedding.  Stateless: rejected records are reported and skipped.                                  *)
EXTENDS TraceLib, FiniteSets

Mo == INSTANCE CpuMask WITH WB <- 3
Re == INSTANCE CpuMask WITH WB <- 64

VARIABLE l

StimulusOk(r) ==
    r.e = 0 \/ /\ Len(r.rins) = Len(r.ins)
               /\ \A i \in DOMAIN r.ins : r.rins[i] = Mo!EmbId(r.e, r.ins[i])
               /\ r.rw0 = Mo!EmbWidth(r.e, r.w0)

NoDup(s) == \A i, j \in DOMAIN s : i # j => s[i] # s[j]

AcceptMask(r) ==
    LET R == Re!InsertAll(Re!Empty(r.rw0), r.rins)
        o == r.obs IN
    /\ r.panic = ""
    /\ ToSet(o.ids) = Re!Ids(R) /\ NoDup(o.ids)              \* processor_ids = the inserted set
    /\ ToSet(o.bits) = Re!AbsBits(R)                         \* the kernel sees exactly those bits
    /\ o.words = Len(R)                                      \* never narrower, just wide enough
    /\ o.lenbytes = Re!LenBytes(R, 8)
    /\ ToSet(o.ids2) = Re!Ids(R) /\ o.eqback                 \* bytes -> mask -> ids (the sched_getaffinity direction)
    /\ r.e # 0 =>
          LET M == Mo!InsertAll(Mo!Empty(r.w0), r.ins) IN
          /\ Re!Ids(R) = { Mo!EmbId(r.e, x) : x \in Mo!Ids(M) }
          /\ Len(R) = Mo!EmbWidth(r.e, Len(M))
          /\ { Mo!DecId(r.e, b) : b \in ToSet(o.bits) } = Mo!Ids(M)

AcceptEq(r) ==
    LET A == Mo!InsertAll(Mo!Empty(r.a.w0), r.a.ins)
        B == Mo!InsertAll(Mo!Empty(r.b.w0), r.b.ins) IN
    /\ r.panic = ""
    /\ r.eq = Mo!Eq(A, B) /\ r.eqrev = r.eq
    /\ r.eq = (Mo!Ids(A) = Mo!Ids(B))

TraceInit == l = 1

TraceNext ==
    /\ l <= NRec
    /\ LET r == Rec[l] IN
       IF r.op = "mask" /\ ~StimulusOk(r) THEN PrintT(<<"BADSTIM", ToJson([line |-> l, rec |-> r])>>)
       ELSE IF (r.op = "mask" /\ AcceptMask(r)) \/ (r.op = "maskeq" /\ AcceptEq(r)) THEN TRUE
       ELSE PrintT(<<"REJECT", ToJson([line |-> l, rec |-> r])>>)
    /\ l' = l + 1

TraceSpec == TraceInit /\ [][TraceNext]_l
=============================================================================
