------------------------------ MODULE PinningAbs ------------------------------
(* Judge for C10: pinning takes effect in the OS and the library's view of it stays truthful.

   Hardware instances h (SystemHardware values alive at the same time), each with its own notion of "the OS":
       kind "R"  the real hardware singleton: the OS is the real kernel; the harness itself calls
                 sched_getaffinity / sched_getcpu on the thread in question
       kind "L"  the Linux platform built through hook H4 over a harness "kernel" that stores the raw mask bytes
                 it was handed (ids >= 64, mask widening, EINVAL width search)
       kind "F"  fake hardware of the crate (no OS behind it; bookkeeping only)
   H = [kind, procs : set of [id, region], maxcpu].

   Judge state per (hardware instance, thread):
       os[h][t]    the affinity of thread t in h's OS, as the property demands it to be
       last[h][t]  [pinned : BOOLEAN, s : set]   the last set thread t pinned itself to THROUGH h
   Nothing else may influence an answer: that is "no leaks between threads or hardware instances".

   The operators below are pure (state in, verdict out) so that the explorer (Pinning.tla) and the trace judge
   (Trace_Pinning.tla) share them.                                                                              *)
EXTENDS Naturals, Integers, Sequences, FiniteSets

IdsOf(P) == { pr.id : pr \in P }
RegionsOf(P, S) == { pr.region : pr \in { x \in P : x.id \in S } }

Unpinned == [pinned |-> FALSE, s |-> {}]
PinnedTo(S) == [pinned |-> TRUE, s |-> S]

\* is_thread_processor_pinned  <=>  the last pin was to exactly one processor
ExpProcessorPinned(lst) == lst.pinned /\ Cardinality(lst.s) = 1
\* is_thread_memory_region_pinned  <=>  the last pin was to processors of one memory region
ExpRegionPinned(P, lst) == lst.pinned /\ Cardinality(RegionsOf(P, lst.s)) = 1

\* the processors thread t can be executing on, as far as h's OS is concerned
Where(H, A, lst) == IF H.kind # "F" THEN A ELSE IF lst.pinned THEN lst.s ELSE IdsOf(H.procs)

(* An observation o made ON the thread, through hardware instance H:
     k      : TRUE when the OS behind H was read (kinds R, L)
     kaff   : the OS's affinity of the thread (R: libc::sched_getaffinity by the harness; L: decoded raw mask bytes)
     kcpu   : the OS's current processor of the thread (R: libc::sched_getcpu; L: the harness kernel)
     pp, rp : is_thread_processor_pinned, is_thread_memory_region_pinned
     cpu, region : current_processor_id, current_memory_region_id
     tpsome, tp  : thread_processors() is Some, and its processor ids
     panic  : "" or what panicked                                                                              *)
SeqSet(s) == { s[i] : i \in DOMAIN s }

KernelOk(H, A, o) ==
    H.kind # "F" => /\ o.k
                    /\ SeqSet(o.kaff) = A               \* after Pin(S): the OS's affinity is exactly S
                    /\ o.kcpu \in A                     \* and the thread runs inside it

AnswersOk(H, A, lst, o) ==
    LET w == Where(H, A, lst) IN
    /\ o.pp <=> ExpProcessorPinned(lst)
    /\ o.rp <=> ExpRegionPinned(H.procs, lst)
    /\ o.cpu \in w                                      \* current_processor_id is a processor the thread may be on
    /\ o.region \in RegionsOf(H.procs, w)               \* current_memory_region_id likewise
    /\ ExpRegionPinned(H.procs, lst) => {o.region} = RegionsOf(H.procs, lst.s)

\* thread_processors(): "the set of processors the current thread is pinned to, or None if the thread is not pinned"
ThreadProcessorsExact(lst, o) ==
    /\ o.tpsome <=> lst.pinned
    /\ lst.pinned => SeqSet(o.tp) = lst.s
\* the weaker reading that never contradicts the pin: an answer contains the pinned set and invents no processor
ThreadProcessorsSound(H, lst, o) ==
    o.tpsome => /\ lst.pinned
                /\ lst.s \subseteq SeqSet(o.tp)
                /\ SeqSet(o.tp) \subseteq IdsOf(H.procs)
\* named deviations from the exact reading (see known_findings.json)
ThreadProcessorsDeviation(H, lst, o) ==
    IF ~o.tpsome /\ lst.pinned /\ Cardinality(RegionsOf(H.procs, lst.s)) > 1 THEN "none-although-pinned-across-regions"
    ELSE IF o.tpsome /\ lst.pinned /\ Cardinality(lst.s) > 1 /\ Cardinality(RegionsOf(H.procs, lst.s)) = 1
            /\ SeqSet(o.tp) = { pr.id : pr \in { x \in H.procs : x.region \in RegionsOf(H.procs, lst.s) } }
            /\ SeqSet(o.tp) # lst.s THEN "whole-region-instead-of-pinned-set"
    ELSE "other"

ObsOk(H, A, lst, o) ==
    /\ o.panic = ""
    /\ KernelOk(H, A, o)
    /\ AnswersOk(H, A, lst, o)
    /\ ThreadProcessorsSound(H, lst, o)

ObsWhy(H, A, lst, o) ==
    IF o.panic # "" THEN "panic"
    ELSE IF ~KernelOk(H, A, o) THEN
         IF H.kind # "F" /\ SeqSet(o.kaff) # A THEN "kernel-affinity-differs-from-pinned-set" ELSE "kernel-cpu-outside-affinity"
    ELSE IF (o.pp <=> ExpProcessorPinned(lst)) = FALSE THEN "is_thread_processor_pinned"
    ELSE IF (o.rp <=> ExpRegionPinned(H.procs, lst)) = FALSE THEN "is_thread_memory_region_pinned"
    ELSE IF o.cpu \notin Where(H, A, lst) THEN "current_processor_id"
    ELSE IF ~AnswersOk(H, A, lst, o) THEN "current_memory_region_id"
    ELSE "thread_processors"

\* spawn_threads(S): one thread per processor of S, each given (and pinned to) its own processor
SpawnThreadsOk(S, givens) == /\ Len(givens) = Cardinality(S)
                             /\ SeqSet(givens) = S
=============================================================================
