---- MODULE MC_Pinning ----
EXTENDS Pinning, Json
KindsDef == <<"R", "F">>
\* instance 1: one memory region (like the sandbox's real hardware); instance 2: processors 0,1 share a region, 2 is alone
RegionOfDef == << [p \in Procs |-> 0], [p \in Procs |-> IF p = 2 THEN 1 ELSE 0] >>
SpawnSetsQuick == { {0}, {0, 2}, {0, 1, 2} }
SpawnSetsAll == (SUBSET Procs) \ {{}}
RECURSIVE SortedSeq(_)
SortedSeq(S) == IF S = {} THEN <<>> ELSE LET x == CHOOSE x \in S : \A y \in S : x <= y IN <<x>> \o SortedSeq(S \ {x})
\* generator: every history is a stimulus
GenCase == hist # <<>> =>
    PrintT(<<"PCASE", ToJson([ops |-> [i \in DOMAIN hist |-> [op |-> hist[i].op, t |-> hist[i].t, h |-> hist[i].h,
                                                              s |-> SortedSeq(hist[i].s)]]])>>)
====
