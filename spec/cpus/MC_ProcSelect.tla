---- MODULE MC_ProcSelect ----
EXTENDS ProcSelect, Json
QuotasQuick == {-1, 2, 4, 8, 10}     \* off, 0.5, 1, 2, 2.5 processors
QuotasThorough == {-1, 0, 2, 4, 7, 8, 10, 12, 17}
\* Generator: one stimulus per initial state (candidate map x request); the harness runs each several times.
RECURSIVE SeqOfRecs(_)
SeqOfRecs(S) == IF S = {} THEN <<>> ELSE LET x == CHOOSE x \in S : TRUE IN <<x>> \o SeqOfRecs(S \ {x})
GenCase == pc = "start" =>
    PrintT(<<"SCASE", ToJson([topo |-> SeqOfRecs(C), policy |-> policy, n |-> n, quota4 |-> quota4, op |-> op])>>)
Stop == FALSE /\ UNCHANGED vars
====
