CONSTANTS Procs = {0,1,2} HW = {1,2} Threads = {1,2} MaxOps = 2 Faults = TRUE
  Kinds <- KindsDef  RegionOf <- RegionOfDef  SpawnSets <- SpawnSetsQuick
SPECIFICATION Spec
INVARIANT TypeOK LibTruthful TPExactOrNamed CacheIsFunctionOfLastPin
CHECK_DEADLOCK FALSE
