---- MODULE MC_CpuListParse ----
(* Generator + sanity for the judge's parser semantics: every text of <= MaxParts parts over a small universe. *)
EXTENDS CpuListAbs, TLC, Json
CONSTANTS W, MaxParts, MaxStride
Items == 0..(2^W - 1)
PartU == { <<>> } \cup { <<a>> : a \in Items } \cup { <<a, b>> : a \in Items, b \in Items }
              \cup { <<a, b, s>> : a \in Items, b \in Items, s \in 0..MaxStride }
VARIABLES parts, emitted
Init == parts = <<>> /\ emitted = FALSE
Grow == /\ ~emitted
        /\ Len(parts) < MaxParts
        /\ \E p \in PartU : parts' = Append(parts, p)
        /\ emitted' = FALSE
RECURSIVE SetToSeqSorted(_)
SetToSeqSorted(S) == IF S = {} THEN <<>> ELSE LET m == CHOOSE x \in S : \A y \in S : x <= y IN <<m>> \o SetToSeqSorted(S \ {m})
\* every state is one stimulus; expected verdict computed by the judge
Case == PrintT(<<"PCASE", ToJson([parts |-> parts, wf |-> WellFormed(parts),
                                  sem |-> IF WellFormed(parts) THEN SetToSeqSorted(Sem(parts)) ELSE <<>>])>>)
Next == Grow
Spec == Init /\ [][Next]_<<parts, emitted>>
\* laws of the semantics (checked in every state)
SemLaws ==
    /\ WellFormed(parts) => Sem(parts) \subseteq Items
    /\ \A i \in DOMAIN parts : Len(parts[i]) = 3 /\ PartOk(parts[i]) => parts[i][1] \in PartSem(parts[i])
    /\ \A i \in DOMAIN parts : Len(parts[i]) = 2 /\ PartOk(parts[i]) => PartSem(parts[i]) = parts[i][1]..parts[i][2]
====
