------------------------------ MODULE ProcSelect ------------------------------
(* Explorer for C09: the selection loops of ProcessorSetBuilder::take / take_all
   (packages/many_cpus_impl/src/processor_set_builder.rs), one action per loop iteration, every random choice of
   the code (shuffle, sample, choose, HashMap iteration order) a nondeterministic choice here.
   TLC explores every candidate map of NR regions x 0..MaxPer candidates, every policy, every n, every quota,
   and checks that every terminal state satisfies the judge (ProcSelectAbs!TakeOk / TakeAllOk).

   Candidate filtering (source / except / filter / class) happens before these loops and is judged on the
   recorded traces (Trace_ProcSelect); here the candidate map is the input.                                   *)
EXTENDS ProcSelectAbs, TLC

CONSTANTS NR,        \* number of memory regions
          MaxPer,    \* max candidates per region
          MaxN,      \* max requested count
          Quotas     \* set of quota4 values (-1 = not enforced)

Regions == 1..NR
Proc(r, k) == [id |-> r * 10 + k, region |-> r, cls |-> "P"]

VARIABLES sizes,     \* region -> number of candidates (input)
          policy, n, quota4, op,     \* the request (input); op \in {"take", "take_all"}
          pc,
          order,     \* prefer_same: regions still to visit (sequence); prefer_different: regions to visit in this pass
          left,      \* prefer_different: region -> candidates not yet taken
          picked,    \* set of processors chosen so far (sampling is without replacement; order is immaterial, see TakeAll)
          some       \* result: "pending" | "none" | "some"

vars == <<sizes, policy, n, quota4, op, pc, order, left, picked, some>>

Topo == { Proc(r, k) : r \in Regions, k \in 1..MaxPer }
C == { p \in Topo : (p.id % 10) <= sizes[p.region] }
Q == [srcall |-> TRUE, source |-> {}, except |-> {}, pass |-> { p.id : p \in Topo }, cls |-> "any", policy |-> policy,
      quota4 |-> quota4]

RECURSIVE SeqOf(_)
SeqOf(S) == IF S = {} THEN <<>> ELSE LET x == CHOOSE x \in S : TRUE IN <<x.id>> \o SeqOf(S \ {x})
Ids(S) == SeqOf(S)

\* all sequences enumerating the set S (every order): sample()/iteration order is unspecified
RECURSIVE Perms(_)
Perms(S) == IF S = {} THEN { <<>> } ELSE UNION { { <<x>> \o t : t \in Perms(S \ {x}) } : x \in S }

Init ==
    /\ sizes \in [Regions -> 0..MaxPer]
    /\ policy \in Policies
    /\ op \in {"take", "take_all"}
    /\ n \in 1..MaxN
    /\ (op = "take_all" => n = 1)              \* n unused by take_all; fix it to avoid duplicate states
    /\ quota4 \in Quotas
    /\ pc = "start"
    /\ order = <<>>
    /\ left = [r \in Regions |-> {}]
    /\ picked = {}
    /\ some = "pending"

Finish(res, ps) ==
    /\ some' = res
    /\ picked' = ps
    /\ pc' = "done"
    /\ UNCHANGED <<sizes, policy, n, quota4, op, order, left>>

NonEmptyRegions == { r \in Regions : sizes[r] > 0 }
Clamp(r) == IF sizes[r] < n THEN sizes[r] ELSE n

\* take(): quota check, candidates, dispatch
StartTake ==
    /\ pc = "start" /\ op = "take"
    /\ IF QuotaForbids(Q, n) THEN Finish("none", {})
       ELSE IF C = {} THEN Finish("none", {})
       ELSE CASE policy = "any" ->
                    IF Cardinality(C) < n THEN Finish("none", {})
                    ELSE \E R \in SubsetsOfSize(C, n) : Finish("some", R)
              [] policy = "same" ->
                    LET qual == { r \in NonEmptyRegions : sizes[r] >= n } IN
                    IF qual = {} THEN Finish("none", {})
                    ELSE \E r \in qual : \E R \in SubsetsOfSize(InRegion(C, r), n) : Finish("some", R)
              [] policy = "different" ->
                    IF Cardinality(NonEmptyRegions) < n THEN Finish("none", {})
                    ELSE \E rs \in SubsetsOfSize(NonEmptyRegions, n) :
                         \E f \in [rs -> C] :
                            /\ \A r \in rs : f[r].region = r
                            /\ Finish("some", { f[r] : r \in rs })
              [] policy = "prefer_same" ->
                    \* shuffle, sort by min(len, n), reverse: any order that is non-increasing in the clamped size
                    \E o \in Perms(NonEmptyRegions) :
                        /\ \A i \in 1..(Len(o) - 1) : Clamp(o[i]) >= Clamp(o[i + 1])
                        /\ order' = o
                        /\ pc' = "ps_loop"
                        /\ UNCHANGED <<sizes, policy, n, quota4, op, left, picked, some>>
              [] policy = "prefer_different" ->
                    /\ left' = [r \in Regions |-> InRegion(C, r)]
                    /\ order' = <<>>
                    /\ pc' = "pd_outer"
                    /\ UNCHANGED <<sizes, policy, n, quota4, op, picked, some>>

\* prefer_same: `while processors.len() < count { region = pop_front()?; take min(remaining, len) of it }`
PreferSameStep ==
    /\ pc = "ps_loop"
    /\ IF Cardinality(picked) >= n THEN Finish("some", picked)
       ELSE IF order = <<>> THEN Finish("none", {})                    \* pop_front()? -> None
       ELSE LET r == Head(order)
                need == n - Cardinality(picked)                            \* count.saturating_sub(processors.len())
                cnt == IF need < sizes[r] THEN need ELSE sizes[r]          \*   .min(processors_in_region.len())
            IN \E R \in SubsetsOfSize(InRegion(C, r), cnt) :
                  /\ picked' = picked \cup R
                  /\ order' = Tail(order)
                  /\ UNCHANGED <<sizes, policy, n, quota4, op, pc, left, some>>

\* prefer_different, outer loop head: `while len < count { if candidates.is_empty() return None; for region in values_mut()`
PreferDiffOuter ==
    /\ pc = "pd_outer"
    /\ IF Cardinality(picked) >= n THEN Finish("some", picked)
       ELSE LET live == { r \in Regions : left[r] # {} } IN
            IF live = {} THEN Finish("none", {})
            ELSE \E o \in Perms(live) :                                  \* HashMap iteration order
                    /\ order' = o
                    /\ pc' = "pd_inner"
                    /\ UNCHANGED <<sizes, policy, n, quota4, op, left, picked, some>>

\* one iteration of the inner `for`: pick one processor of the region, remove it, break when enough
PreferDiffInner ==
    /\ pc = "pd_inner"
    /\ IF order = <<>>
       THEN /\ pc' = "pd_outer"                                          \* retain(non-empty) is implicit in `live`
            /\ UNCHANGED <<sizes, policy, n, quota4, op, order, left, picked, some>>
       ELSE LET r == Head(order) IN
            \E p \in left[r] :
               /\ left' = [left EXCEPT ![r] = @ \ {p}]
               /\ picked' = picked \cup {p}
               /\ IF Cardinality(picked) + 1 = n
                  THEN order' = <<>>                                      \* break
                  ELSE order' = Tail(order)
               /\ UNCHANGED <<sizes, policy, n, quota4, op, pc, some>>

\* take_all(): the full set by policy, then pop() from the back until under quota
TakeAll ==
    /\ pc = "start" /\ op = "take_all"
    /\ IF C = {} THEN Finish("none", {})
       ELSE \* pop() from the back of a vector whose order is unspecified = any subset of the allowed size
            LET CutSets(F) == IF quota4 = -1 \/ Cardinality(F) <= QuotaLimit(quota4) THEN {F}
                              ELSE SubsetsOfSize(F, QuotaLimit(quota4))
            IN CASE policy = "same" ->
                       \E r \in NonEmptyRegions : \E R \in CutSets(InRegion(C, r)) : Finish("some", R)
                 [] policy = "different" ->
                       \E f \in [NonEmptyRegions -> C] :
                          /\ \A r \in NonEmptyRegions : f[r].region = r
                          /\ \E R \in CutSets({ f[r] : r \in NonEmptyRegions }) : Finish("some", R)
                 [] OTHER -> \E R \in CutSets(C) : Finish("some", R)

Next == StartTake \/ PreferSameStep \/ PreferDiffOuter \/ PreferDiffInner \/ TakeAll

Spec == Init /\ [][Next]_vars
FairSpec == Spec /\ WF_vars(Next)

-----------------------------------------------------------------------------
TypeOK ==
    /\ pc \in {"start", "ps_loop", "pd_outer", "pd_inner", "done"}
    /\ some \in {"pending", "none", "some"}
    /\ policy \in Policies

\* every terminal state satisfies the judge
ResultOk ==
    pc = "done" =>
        IF op = "take" THEN TakeOk(C, Q, n, some = "some", Ids(picked))
        ELSE TakeAllOk(C, Q, some = "some", Ids(picked))

\* the loops never hold more than was asked for
NeverTooMany == op = "take" => Cardinality(picked) <= n

\* judge self-consistency on this universe: closed forms = brute force definitions
ClosedFormsAgree ==
    pc = "start" =>
        /\ (Cardinality(C) >= n =>
              /\ MinRegionsClosed(C, n) = MinRegionsBrute(C, n)
              /\ MaxRegionsClosed(C, n) = MaxRegionsBrute(C, n))
        /\ \A pol \in Policies : Feasible(C, pol, n) = FeasibleBrute(C, pol, n)

Terminates == <>(pc = "done")
=============================================================================
