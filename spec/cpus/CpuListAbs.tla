------------------------------ MODULE CpuListAbs ------------------------------
(* Judge for the cpulist codec (C11): the meaning of a cpulist text and what emit / parse owe the caller.
   Nothing here depends on how the code computes its answer.

   A text is abstracted to its sequence of parts (the comma separated pieces):
       <<a>> single id "a";  <<a, b>> inclusive range "a-b";  <<a, b, s>> stride "a-b:s";  << >> empty part.
   Rendering parts to characters and back is done by the harness and is purely lexical.                        *)
EXTENDS Naturals, Integers, Sequences, FiniteSets

(* Judge: semantics of the text format                                     *)

RangeSet(a, b, s) == { x \in a..b : (x - a) % s = 0 }

PartOk(p) ==
    \/ Len(p) = 0
    \/ Len(p) = 1
    \/ Len(p) = 2 /\ p[1] <= p[2]
    \/ Len(p) = 3 /\ p[1] <= p[2] /\ p[3] # 0

PartSem(p) ==
    CASE Len(p) = 0 -> {}
      [] Len(p) = 1 -> {p[1]}
      [] Len(p) = 2 -> RangeSet(p[1], p[2], 1)
      [] Len(p) = 3 -> RangeSet(p[1], p[2], p[3])

WellFormed(parts) == \A i \in DOMAIN parts : PartOk(parts[i])

Sem(parts) == UNION { PartSem(parts[i]) : i \in DOMAIN parts }

IsSortedDedup(s) == \A i \in 1..(Len(s) - 1) : s[i] < s[i + 1]

SeqToSet(s) == { s[i] : i \in DOMAIN s }

\* result = <<>> with ok = FALSE for a parse error
ParseOk(parts, ok, result) ==
    IF ~WellFormed(parts) THEN ~ok
    ELSE ok /\ IsSortedDedup(result) /\ SeqToSet(result) = Sem(parts)

EmitOk(S, parts) == WellFormed(parts) /\ Sem(parts) = S

------------------------------------------------------------------------

\* emit must not panic, its text must denote the input again, and the crate's own parser must agree
EmitRecOk(S, ok, parts, reparsedOk, reparsed) ==
    /\ ok
    /\ EmitOk(S, parts)
    /\ ParseOk(parts, reparsedOk, reparsed)
=============================================================================
