CONSTANTS WB = 3  MaxIns = 3
SPECIFICATION Spec
INVARIANT TypeOK IdsAreInserted WidthLaw OrderIrrelevant WidenKeepsSet
PROPERTY NeverNarrower
CHECK_DEADLOCK FALSE
