------------------------------ MODULE ProcSelectAbs ------------------------------
(* Judge for C09: what ProcessorSetBuilder::take(n) / take_all() owe the caller, stated on sets.
   Nothing here says how a set is picked; every set that satisfies the request is accepted.

   A processor is a record [id, region, cls]   (cls: "P" performance, "E" efficiency).
   A query is a record
       [ srcall  : BOOLEAN, source : set of ids,   builder created from the hardware (all) or from a ProcessorSet
         except  : set of ids,               .except(..)
         pass    : set of ids,               ids for which every .filter(predicate) returned true
         cls     : "any" | "P" | "E",
         policy  : "any" | "same" | "different" | "prefer_same" | "prefer_different",
         quota4  : -1 (not enforced) or 4 x max_processor_time ]                                              *)
EXTENDS Naturals, Integers, FiniteSets, Sequences

Policies == {"any", "same", "different", "prefer_same", "prefer_different"}

Candidates(topo, q) ==
    { p \in topo :
        /\ (q.srcall \/ p.id \in q.source)
        /\ p.id \notin q.except
        /\ p.id \in q.pass
        /\ (q.cls = "any" \/ p.cls = q.cls) }

RegionsOf(S) == { p.region : p \in S }
InRegion(S, r) == { p \in S : p.region = r }

\* floor(time) clamped to at least 1; time = quota4 / 4
QuotaLimit(quota4) == IF quota4 \div 4 < 1 THEN 1 ELSE quota4 \div 4
QuotaForbids(q, n) == q.quota4 # -1 /\ n > QuotaLimit(q.quota4)

-----------------------------------------------------------------------------
(* fewest / most distinct regions among all n-subsets of C.  Definition by brute force, and an equivalent
   closed form that also works for large C (TLC checks  Brute = Closed  on the small universe, MC_ProcSelect). *)

SubsetsOfSize(C, n) == { R \in SUBSET C : Cardinality(R) = n }

MinRegionsBrute(C, n) ==
    LET ks == { Cardinality(RegionsOf(R)) : R \in SubsetsOfSize(C, n) }
    IN CHOOSE k \in ks : \A j \in ks : k <= j

MaxRegionsBrute(C, n) ==
    LET ks == { Cardinality(RegionsOf(R)) : R \in SubsetsOfSize(C, n) }
    IN CHOOSE k \in ks : \A j \in ks : k >= j

\* k regions can hold n processors iff the k largest regions together have >= n candidates;
\* "the k largest have >= n"  <=>  "some set of k regions has >= n"
Size(C, r) == Cardinality(InRegion(C, r))
RECURSIVE SumSizes(_, _)
SumSizes(C, rs) == IF rs = {} THEN 0 ELSE LET r == CHOOSE r \in rs : TRUE IN Size(C, r) + SumSizes(C, rs \ {r})
\* number of regions with more than s candidates, for the greedy count
RECURSIVE TopSum(_, _, _)
TopSum(C, rs, k) ==   \* sum of the k largest region sizes among rs
    IF k = 0 \/ rs = {} THEN 0
    ELSE LET r == CHOOSE r \in rs : \A o \in rs : Size(C, r) >= Size(C, o)
         IN Size(C, r) + TopSum(C, rs \ {r}, k - 1)
MinRegionsClosed(C, n) ==
    LET rs == RegionsOf(C) IN
    CHOOSE k \in 1..Cardinality(rs) : TopSum(C, rs, k) >= n /\ \A j \in 1..(k - 1) : TopSum(C, rs, j) < n
MaxRegionsClosed(C, n) ==
    LET nr == Cardinality(RegionsOf(C)) IN IF n < nr THEN n ELSE nr

-----------------------------------------------------------------------------
(* take(n)                                                                 *)

RegionRule(C, policy, n, R) ==
    LET k == Cardinality(RegionsOf(R)) IN
    CASE policy = "any"              -> TRUE
      [] policy = "same"             -> k = 1
      [] policy = "different"        -> k = n
      [] policy = "prefer_same"      -> k = MinRegionsClosed(C, n)
      [] policy = "prefer_different" -> k = MaxRegionsClosed(C, n)

\* R is a set of processor records
ValidTake(C, policy, n, R) ==
    /\ R \subseteq C
    /\ Cardinality(R) = n
    /\ RegionRule(C, policy, n, R)

\* does any valid set exist?  (closed forms; equivalence with \E R checked by MC_ProcSelect)
Feasible(C, policy, n) ==
    /\ Cardinality(C) >= n
    /\ CASE policy = "same"      -> \E r \in RegionsOf(C) : Size(C, r) >= n
         [] policy = "different" -> Cardinality(RegionsOf(C)) >= n
         [] OTHER                -> TRUE
FeasibleBrute(C, policy, n) == \E R \in SubsetsOfSize(C, n) : ValidTake(C, policy, n, R)

\* some = FALSE means the call returned None.  ids = the returned processor ids as a SEQUENCE (duplicates visible)
TakeOk(topo, q, n, some, ids) ==
    LET C == Candidates(topo, q)
        R == { p \in topo : \E i \in DOMAIN ids : ids[i] = p.id }
    IN IF QuotaForbids(q, n) \/ ~Feasible(C, q.policy, n)
       THEN ~some
       ELSE /\ some
            /\ Len(ids) = n                                   \* exactly n ...
            /\ \A i, j \in DOMAIN ids : i # j => ids[i] # ids[j]  \* ... distinct ...
            /\ \A i \in DOMAIN ids : \E p \in topo : p.id = ids[i] \* ... existing processors
            /\ ValidTake(C, q.policy, n, R)

-----------------------------------------------------------------------------
(* take_all(): a largest qualifying set, cut down to the quota             *)

Min2(a, b) == IF a < b THEN a ELSE b

TakeAllOk(topo, q, some, ids) ==
    LET C == Candidates(topo, q)
        R == { p \in topo : \E i \in DOMAIN ids : ids[i] = p.id }
        cut(m) == IF q.quota4 = -1 THEN m ELSE Min2(m, QuotaLimit(q.quota4))
    IN IF C = {} THEN ~some
       ELSE /\ some
            /\ \A i, j \in DOMAIN ids : i # j => ids[i] # ids[j]
            /\ \A i \in DOMAIN ids : \E p \in topo : p.id = ids[i]
            /\ R \subseteq C
            /\ CASE q.policy = "same" ->
                        \E r \in RegionsOf(C) : R \subseteq InRegion(C, r) /\ Len(ids) = cut(Size(C, r))
                 [] q.policy = "different" ->
                        /\ Cardinality(RegionsOf(R)) = Len(ids)          \* one per region
                        /\ Len(ids) = cut(Cardinality(RegionsOf(C)))
                 [] OTHER -> Len(ids) = cut(Cardinality(C))
=============================================================================
