CONSTANTS W = 2  MaxParts = 2  MaxStride = 3
SPECIFICATION Spec
INVARIANT SemLaws Case
CHECK_DEADLOCK FALSE
