------------------------------ MODULE CpuList ------------------------------
(* The cpulist codec of packages/cpulist (C11, "the id-list codec is exact").

   Judge part  (what the property says, nothing about the algorithm):
       Sem(parts)                     meaning of a well-formed cpulist text, as a set of ids
       ParseOk(parts, result)         the parser returned exactly the sorted, de-duplicated Sem
       EmitOk(S, parts)               emitted text denotes S again

   Explorer part (emit.rs transcribed step by step, with checked W-bit arithmetic):
       one action per loop iteration of the grouping fold and of the rendering loop.  Every checked_add /
       checked_sub of the code is a CAdd / CSub here; overflow sets `panicked`, exactly like `.expect()`.
   TLC explores every input set S \subseteq 0..2^W-1 and checks  done => ~panicked /\ Sem(out) = S.

   A text is abstracted to its sequence of *parts* (the comma separated pieces):
       <<a>>        single id            "a"
       <<a, b>>     inclusive range      "a-b"
       <<a, b, s>>  range with stride    "a-b:s"
       << >>        empty part           ""        (",,")
   Rendering parts to characters and back is done by the harness and is purely lexical.                        *)
EXTENDS CpuListAbs, TLC

CONSTANT W              \* width of an item in bits (u32 in the code, small here; see Embeddings in DESIGN.md)

MaxItem == 2^W - 1
Items == 0..MaxItem

-----------------------------------------------------------------------------
(* Explorer: emit.rs                                                        *)

VARIABLES input,      \* the set handed to emit()  (chosen in Init: every subset)
          remaining,  \* VecDeque of sorted unique items not yet grouped
          acc,        \* fold accumulator: <<>> (None) or <<start, len>>
          idx,        \* position of the fold inside `remaining`
          groups,     \* Vec<(start, len)>
          out,        \* rendered parts
          pc,         \* "fold" | "render" | "done"
          panicked

vars == <<input, remaining, acc, idx, groups, out, pc, panicked>>

\* checked arithmetic of the code: -1 is "None"
CAdd(a, b) == IF a + b > MaxItem THEN -1 ELSE a + b
CSub(a, b) == IF a - b < 0 THEN -1 ELSE a - b

RECURSIVE SortedSeq(_)
SortedSeq(S) == IF S = {} THEN <<>>
                ELSE LET m == CHOOSE x \in S : \A y \in S : x <= y IN <<m>> \o SortedSeq(S \ {m})

\* The one input excluded is the full universe: its single run has 2^W members, which the length counter
\* (NonZero<u32> in the code) cannot hold.  For u32 that input is 2^32 ids (16 GiB); stated as an assumption.
Init ==
    /\ input \in (SUBSET Items) \ {Items}
    /\ remaining = SortedSeq(input)
    /\ acc = <<>>
    /\ idx = 1
    /\ groups = <<>>
    /\ out = <<>>
    /\ pc = IF input = {} THEN "render" ELSE "fold"
    /\ panicked = FALSE

Panic == /\ panicked' = TRUE
         /\ pc' = "done"
         /\ UNCHANGED <<input, remaining, acc, idx, groups, out>>

CloseGroup(g) ==
    LET rest == SubSeq(remaining, g[2] + 1, Len(remaining)) IN
    /\ groups' = Append(groups, g)
    /\ remaining' = rest
    /\ acc' = <<>>
    /\ idx' = 1
    /\ pc' = IF rest = <<>> THEN "render" ELSE "fold"
    /\ UNCHANGED <<input, out, panicked>>

\* one iteration of `fold_while` (or its end)
FoldStep ==
    /\ pc = "fold"
    /\ IF idx > Len(remaining)
       THEN CloseGroup(acc)                                     \* iterator exhausted: into_inner()
       ELSE LET p == remaining[idx] IN
            IF acc = <<>>
            THEN /\ acc' = <<p, 1>>
                 /\ idx' = idx + 1
                 /\ UNCHANGED <<input, remaining, groups, out, pc, panicked>>
            ELSE LET expected == CAdd(acc[1], acc[2]) IN        \* start.checked_add(len).expect(..)
                 IF expected = -1 THEN Panic
                 ELSE IF expected = p
                      THEN LET nl == CAdd(acc[2], 1) IN          \* len.checked_add(1).expect(..)
                           IF nl = -1 THEN Panic
                           ELSE /\ acc' = <<acc[1], nl>>
                                /\ idx' = idx + 1
                                /\ UNCHANGED <<input, remaining, groups, out, pc, panicked>>
                      ELSE CloseGroup(acc)                       \* FoldWhile::Done

\* one iteration of the rendering loop
RenderStep ==
    /\ pc = "render"
    /\ IF groups = <<>>
       THEN /\ pc' = "done"
            /\ UNCHANGED <<input, remaining, acc, idx, groups, out, panicked>>
       ELSE LET start == Head(groups)[1]
                len == Head(groups)[2]
                Push(parts) == /\ out' = out \o parts
                               /\ groups' = Tail(groups)
                               /\ UNCHANGED <<input, remaining, acc, idx, pc, panicked>>
            IN
            IF len = 1 THEN Push(<< <<start>> >>)
            ELSE IF len = 2
                 THEN LET second == CAdd(start, 1) IN
                      IF second = -1 THEN Panic ELSE Push(<< <<start>>, <<second>> >>)
                 ELSE \* emit.rs: len.checked_sub(1).and_then(|l| start.checked_add(l)).expect(..)
                      \* (subtraction first: a run ending at the largest id must not overflow; see
                      \*  known_findings.json, fixed C11 "emit-top-of-range")
                      LET lm1 == CSub(len, 1)
                          last == IF lm1 = -1 THEN -1 ELSE CAdd(start, lm1) IN
                      IF last = -1 THEN Panic ELSE Push(<< <<start, last>> >>)

Next == FoldStep \/ RenderStep

Spec == Init /\ [][Next]_vars
FairSpec == Spec /\ WF_vars(Next)

-----------------------------------------------------------------------------
(* Properties checked on the explorer                                       *)

TypeOK ==
    /\ input \subseteq Items
    /\ pc \in {"fold", "render", "done"}
    /\ panicked \in BOOLEAN

NoPanic == ~panicked

RoundTrip == pc = "done" /\ ~panicked => EmitOk(input, out)

\* output is canonical: maximal runs, runs of two as two singles, strictly increasing, no strides
Canonical ==
    pc = "done" /\ ~panicked =>
        /\ \A i \in DOMAIN out : Len(out[i]) \in {1, 2} /\ (Len(out[i]) = 2 => out[i][2] >= out[i][1] + 2)
        /\ \A i \in 1..(Len(out) - 1) : out[i][Len(out[i])] < out[i + 1][1]

\* groups built by the fold partition the input into maximal runs
GroupsAreRuns ==
    \A i \in DOMAIN groups :
        LET g == groups[i] IN
        /\ \A k \in 0..(g[2] - 1) : g[1] + k \in input
        /\ g[1] - 1 \notin input \/ g[1] = 0
        /\ (pc # "fold" \/ i < Len(groups) \/ TRUE)

Terminates == <>(pc = "done")
=============================================================================
