------------------------------ MODULE CpuMask ------------------------------
(* Affinity masks of the Linux platform (packages/many_cpus_impl/src/pal/linux/cpu_mask.rs), C10/C11:
   "affinity masks behave as sets independent of their width".

   A mask is a non-empty sequence of WORDS; a word is a set of bit offsets 0..WB-1 (WB = bits per machine word:
   64 in the code, 3 when TLC checks the laws).  The WIDTH of a mask is Len(m); it is what the operating system
   is told ("len_bytes = 8 * width") and it never shrinks.  The kernel's contract for the buffer is positional:
   bit n of the buffer (word n \div WB, offset n % WB) stands for processor n - AbsBits below.

   This module is the judge for masks: nothing in it says how insert() computes its word, only what the resulting
   buffer must look like to the kernel.                                                                         *)
EXTENDS Naturals, Integers, Sequences, FiniteSets

CONSTANT WB                                  \* bits in one mask word

Max2(a, b) == IF a > b THEN a ELSE b

WordOf(id) == id \div WB
BitOf(id)  == id % WB

Empty(w) == [i \in 1..w |-> {}]

\* the word at a 1-based index, words beyond the mask reading as empty
Word(m, i) == IF i \in DOMAIN m THEN m[i] ELSE {}

Widen(m, w) == [i \in 1..Max2(Len(m), w) |-> Word(m, i)]

Insert(m, id) ==
    LET m2 == Widen(m, WordOf(id) + 1)
    IN [m2 EXCEPT ![WordOf(id) + 1] = @ \cup {BitOf(id)}]

RECURSIVE InsertAll(_, _)
InsertAll(m, s) == IF s = <<>> THEN m ELSE InsertAll(Insert(m, Head(s)), Tail(s))

\* the processors in the mask
Ids(m) == UNION { { (i - 1) * WB + b : b \in m[i] } : i \in DOMAIN m }

\* what the kernel reads out of the buffer: bit n of the buffer stands for processor n.  Same formula as Ids -
\* that IS the contract; the harness reports the set bits of the raw bytes independently of the mask type.
AbsBits(m) == Ids(m)

\* equality of the code: word-wise, the narrower mask padded with empty words
Eq(m1, m2) == \A i \in 1..Max2(Len(m1), Len(m2)) : Word(m1, i) = Word(m2, i)

LenBytes(m, wordBytes) == Len(m) * wordBytes

-----------------------------------------------------------------------------
(* Word embedding (DESIGN 3.4): the laws are checked on 3-bit words; the replay maps a model position onto a real
   one so that the model's word boundary is the real 64-bit boundary and model word indexes straddle the inline
   width of the real mask (16 words = cpu_set_t).  An embedding is a pair of strictly increasing tables.
   EmbId(e, m) is the real processor id of model id m; DecId(e, r) the inverse (-1 when r is no image).        *)

EmbBits == << <<0, 1, 63>>, <<0, 62, 63>>, <<1, 62, 63>>, <<0, 1, 62>> >>
EmbWords == << <<0, 1, 2, 3>>, <<0, 1, 15, 16>>, <<0, 15, 16, 31>>, <<14, 15, 16, 17>> >>
NEmb == 4
ModelWB == 3
ModelWords == 4                                      \* model word indexes 0..3
ModelIds == 0..(ModelWB * ModelWords - 1)
RealWB == 64

EmbWord(e, w) == EmbWords[e][w + 1]
EmbBit(e, b)  == EmbBits[e][b + 1]
EmbId(e, m)   == EmbWord(e, m \div ModelWB) * RealWB + EmbBit(e, m % ModelWB)
\* model width k (words 0..k-1 present)  |->  narrowest real width that holds the image of word k-1
EmbWidth(e, k) == EmbWord(e, k - 1) + 1
DecId(e, r) == IF \E m \in ModelIds : EmbId(e, m) = r THEN CHOOSE m \in ModelIds : EmbId(e, m) = r ELSE -1
=============================================================================
