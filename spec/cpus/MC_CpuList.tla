---- MODULE MC_CpuList ----
EXTENDS CpuList, Json
\* Generator: one line per input set with the model's rendered output (stimulus + expected canonical text)
EmitCase == pc = "done" => PrintT(<<"CASE", ToJson([input |-> SortedSeq(input), parts |-> out, panicked |-> panicked])>>)
====
