------------------------------ MODULE Trace_CpuList ------------------------------
(* Judges records produced by the real cpulist::emit / cpulist::parse (harness h_cpus) with CpuListAbs.
   Values are logged in model space (the harness subtracts the embedding's base), -1 = not representable.   *)
EXTENDS CpuListAbs, TraceLib

VARIABLE l

AcceptEmit(r) ==
    /\ r.op = "emit"
    /\ EmitRecOk(ToSet(r.input), r.ok, r.parts, r.rok, r.reparsed)

AcceptParse(r) ==
    /\ r.op = "parse"
    /\ ParseOk(r.parts, r.ok, r.result)

TraceInit == l = 1

\* The judge is stateless, so a rejected record is reported (all of them, not only the first) and skipped.
TraceNext ==
    /\ l <= NRec
    /\ \/ AcceptEmit(Rec[l]) \/ AcceptParse(Rec[l])
       \/ /\ ~AcceptEmit(Rec[l]) /\ ~AcceptParse(Rec[l])
          /\ PrintT(<<"REJECT", ToJson([line |-> l, rec |-> Rec[l]])>>)
    /\ l' = l + 1

TraceSpec == TraceInit /\ [][TraceNext]_l
=============================================================================
