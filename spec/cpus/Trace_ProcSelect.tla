------------------------------ MODULE Trace_ProcSelect ------------------------------
(* Judges (topology, query, result) records produced by the real ProcessorSetBuilder (harness h_cpus procselect)
   with ProcSelectAbs.  Stateless judge: rejected records are reported and skipped.                          *)
EXTENDS ProcSelectAbs, TraceLib

VARIABLE l

AbsTopo(r) == { [id |-> r.topo[i].id, region |-> r.topo[i].region, cls |-> r.topo[i].cls] : i \in DOMAIN r.topo }
AbsQ(r) == [srcall |-> r.q.srcall, source |-> ToSet(r.q.source), except |-> ToSet(r.q.except),
            pass |-> ToSet(r.q.pass), cls |-> r.q.cls, policy |-> r.q.policy, quota4 |-> r.q.quota4]

Accept(r) ==
    IF r.op = "take" THEN TakeOk(AbsTopo(r), AbsQ(r), r.n, r.some, r.ids)
    ELSE TakeAllOk(AbsTopo(r), AbsQ(r), r.some, r.ids)

TraceInit == l = 1

TraceNext ==
    /\ l <= NRec
    /\ \/ Accept(Rec[l])
       \/ /\ ~Accept(Rec[l])
          /\ PrintT(<<"REJECT", ToJson([line |-> l, rec |-> Rec[l]])>>)
    /\ l' = l + 1

TraceSpec == TraceInit /\ [][TraceNext]_l
=============================================================================
