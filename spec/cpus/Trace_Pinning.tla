------------------------------ MODULE Trace_Pinning ------------------------------
(* Judges the event log of the pinning harness (h_cpus pin-histories / pin-subsets) with PinningAbs.

   Stateful: per hardware instance h and thread t the judge tracks  os[h][t]  (what the OS's affinity has to be)
   and  last[h][t]  (the last pin of that thread through that instance).  State is advanced by reset / start /
   pin / spawn records; obs records are judged against it.  A record the judge rejects is reported (REJECT, with
   the clause that failed) and the walk continues, so one run reports every failing observation.  The two named
   deviations of thread_processors() from its exact reading are reported as KNOWNDEV (first record of each kind
   in full).  Kernel masks of the H4 platform arrive as raw words and are decoded with CpuMask (64-bit words).  *)
EXTENDS PinningAbs, TraceLib, TLC

Re == INSTANCE CpuMask WITH WB <- 64

VARIABLES l, hw, aff0, os, last, seen
vars == <<l, hw, aff0, os, last, seen>>

MkH(j) == [kind |-> j.kind,
           procs |-> { [id |-> j.procs[i].id, region |-> j.procs[i].region] : i \in DOMAIN j.procs },
           maxcpu |-> j.maxcpu]

EmptyFn == [x \in {} |-> {}]
DefaultOs(H) == IF H.kind = "R" THEN aff0 ELSE IdsOf(H.procs)

Reject(why, r) == PrintT(<<"REJECT", ToJson([line |-> l, why |-> why, rec |-> r])>>)

\* the raw words of a harness-kernel mask, as a CpuMask value
MaskOf(r) ==
    [i \in 1..(r.klen \div 8) |->
        IF \E k \in DOMAIN r.kwords : r.kwords[k][1] = i - 1
        THEN ToSet(r.kwords[CHOOSE k \in DOMAIN r.kwords : r.kwords[k][1] = i - 1][2])
        ELSE {}]

\* H4 platform: the bytes the kernel holds decode to exactly the expected set; the affinity read-back (width search)
\* returns it, cut to the id space
LinuxOk(H, A, r) ==
    H.kind = "L" =>
        /\ r.klen % 8 = 0
        /\ Re!Ids(MaskOf(r)) = A
        /\ r.ctppanic = ""
        /\ ToSet(r.ctp) = { x \in A : x <= H.maxcpu }

DoReset(r) ==
    /\ \A i \in DOMAIN r.hw : r.hw[i].h = i
    /\ hw' = [i \in DOMAIN r.hw |-> MkH(r.hw[i])]
    /\ aff0' = ToSet(r.aff0)
    /\ os' = [i \in DOMAIN r.hw |-> EmptyFn]
    /\ last' = [i \in DOMAIN r.hw |-> EmptyFn]
    /\ UNCHANGED seen

\* a thread the harness spawned from its never-pinned main thread starts with the process affinity
DoStart(r) ==
    /\ IF ToSet(r.aff) = aff0 THEN TRUE ELSE Reject("start-affinity", r)
    /\ os' = [h \in DOMAIN hw |-> (r.t :> DefaultOs(hw[h])) @@ os[h]]
    /\ last' = [h \in DOMAIN hw |-> (r.t :> Unpinned) @@ last[h]]
    /\ UNCHANGED <<hw, aff0, seen>>

\* "refused" (optional field): the harness kernel was told to refuse this thread's next sched_setaffinity. The call
\* cannot succeed (it panics; a silent return would claim a pin that did not happen) and nothing changes: the thread
\* keeps the OS affinity and the "last pin" it had, and every later answer is judged against those.
Refused(r) == "refused" \in DOMAIN r /\ r.refused

DoPin(r) ==
    LET S == ToSet(r.s) IN
    /\ S # {} /\ S \subseteq IdsOf(hw[r.h].procs)                        \* stimulus sanity (else the walk stops)
    /\ IF Refused(r)
       THEN /\ IF r.panic # "" THEN TRUE ELSE Reject("refused-pin-reported-as-done", r)
            /\ UNCHANGED <<os, last>>
       ELSE /\ IF r.panic = "" THEN TRUE ELSE Reject("pin-panic", r)
            /\ os' = [os EXCEPT ![r.h] = (r.t :> S) @@ @]
            /\ last' = [last EXCEPT ![r.h] = (r.t :> PinnedTo(S)) @@ @]
    /\ UNCHANGED <<hw, aff0, seen>>

\* f: function t -> value, extended by the children (value Val(child record))
AddKids(f, kids, Val(_)) ==
    LET kt == { kids[i].t : i \in DOMAIN kids } IN
    [t \in DOMAIN f \cup kt |->
        IF t \in kt THEN Val(kids[CHOOSE i \in DOMAIN kids : kids[i].t = t]) ELSE f[t]]

DoSpawn(r) ==
    LET S == ToSet(r.s)
        kids == r.children
        givens == [i \in DOMAIN kids |-> kids[i].gset[1]]
        ok == /\ r.panic = ""
              /\ \A i \in DOMAIN kids : kids[i].gset # <<>> /\ kids[i].t \notin DOMAIN os[r.h]
              /\ IF r.kind = "threads"
                 THEN (\A i \in DOMAIN kids : Len(kids[i].gset) = 1) /\ SpawnThreadsOk(S, givens)
                 ELSE Len(kids) = 1 /\ ToSet(kids[1].gset) = S
        OsVal(h, kd) == IF h = r.h THEN ToSet(kd.gset)
                        ELSE IF hw[h].kind = "R" THEN os[h][r.t]     \* a new thread inherits the real affinity
                        ELSE IF hw[h].kind = "L" /\ r.kind = "plain" THEN os[h][r.t]   \* (harness kernel: plain threads only)
                        ELSE DefaultOs(hw[h])
        LastVal(h, kd) == IF h = r.h THEN PinnedTo(ToSet(kd.gset)) ELSE Unpinned
    IN
    /\ IF ok THEN TRUE ELSE Reject("spawn:" \o r.kind, r)
    /\ os' = [h \in DOMAIN hw |-> AddKids(os[h], kids, LAMBDA kd : OsVal(h, kd))]
    /\ last' = [h \in DOMAIN hw |-> AddKids(last[h], kids, LAMBDA kd : LastVal(h, kd))]
    /\ UNCHANGED <<hw, aff0, seen>>

DoObs(r) ==
    LET H == hw[r.h]
        A == os[r.h][r.t]
        lst == last[r.h][r.t]
        dev == ThreadProcessorsDeviation(H, lst, r)
    IN
    /\ IF ~(ObsOk(H, A, lst, r) /\ LinuxOk(H, A, r))
       THEN /\ Reject(IF ObsOk(H, A, lst, r) THEN "linux-kernel-mask" ELSE ObsWhy(H, A, lst, r), r)
            /\ seen' = seen
       ELSE IF ThreadProcessorsExact(lst, r) THEN seen' = seen
       ELSE IF dev = "other" THEN Reject("thread_processors", r) /\ seen' = seen
       ELSE /\ IF dev \in seen THEN PrintT(<<"KNOWNDEV", dev>>)
               ELSE PrintT(<<"KNOWNDEV", dev, ToJson([line |-> l, rec |-> r])>>)
            /\ seen' = seen \cup {dev}
    /\ UNCHANGED <<hw, aff0, os, last>>

TraceInit == /\ l = 1 /\ hw = <<>> /\ aff0 = {} /\ os = <<>> /\ last = <<>> /\ seen = {}

TraceNext ==
    /\ l <= NRec
    /\ LET r == Rec[l] IN
       CASE r.ev = "reset" -> DoReset(r)
         [] r.ev = "start" -> DoStart(r)
         [] r.ev = "pin"   -> DoPin(r)
         [] r.ev = "spawn" -> DoSpawn(r)
         [] r.ev = "obs"   -> DoObs(r)
    /\ l' = l + 1

TraceSpec == TraceInit /\ [][TraceNext]_vars
=============================================================================
