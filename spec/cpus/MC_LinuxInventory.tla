---- MODULE MC_LinuxInventory ----
(* Generator + sanity of the judge: TLC enumerates every kernel-consistent machine description over the cpu ids
   `Cpus` and node ids `NodeIds` (one initial state each), checks that the judge accepts the canonical expectation
   and that the expected facts are mutually consistent, and prints each description with its expected inventory. *)
EXTENDS LinuxInventory, TLC, Json

CONSTANTS Cpus, NodeIds,
          FullLexical       \* TRUE: every style x bogomips pattern x cgroup form for each topology (use few cpus)
                            \* FALSE: these three rotate with the topology (every value still occurs)

VARIABLE d

MinOf(S) == CHOOSE x \in S : \A y \in S : x <= y
RECURSIVE SumSet(_)
SumSet(S) == IF S = {} THEN 0 ELSE LET x == CHOOSE x \in S : TRUE IN x + 1 + SumSet(S \ {x})

Mk(pp, S) == [p |-> pp, ids |-> S, max |-> IF S = {} THEN -1 ELSE MaxOf(S)]

BogoFor(pat, L, c) ==
    CASE pat = 0 -> -1
      [] pat = 1 -> 4800
      [] pat = 2 -> IF c % 2 = 0 THEN 4800 ELSE 2400
      [] OTHER   -> IF c = MinOf(L) THEN -1 ELSE IF c % 3 = 0 THEN 3000 ELSE 5000

CgSeq == << [k |-> "none", q |-> 0, p |-> 0],
            [k |-> "v2", q |-> 150000, p |-> 100000],
            [k |-> "nofile", q |-> 0, p |-> 0],
            [k |-> "v2", q |-> 50000, p |-> 100000],
            [k |-> "v2max", q |-> 0, p |-> 100000],
            [k |-> "v1", q |-> 150000, p |-> 100000],
            [k |-> "v1neg", q |-> 0, p |-> 100000],
            [k |-> "v2", q |-> 1000, p |-> 1000],
            [k |-> "v2", q |-> 400000, p |-> 100000],
            [k |-> "v1", q |-> 1000000, p |-> 100000],
            [k |-> "v1", q |-> 25000, p |-> 10000],
            [k |-> "v1pure", q |-> 150000, p |-> 100000],
            [k |-> "v1diff", q |-> 150000, p |-> 100000] >>

\* /proc/cpuinfo: the online processors (mainstream), or also offline ones, or one online processor missing (hotplug race)
ListedChoices(P, On) ==
    {On} \cup { On \cup X : X \in (SUBSET (P \ On)) \ {{}} }
         \cup { On \ {c} : c \in { x \in On : Cardinality(On) > 1 } }

\* id-space masks the kernel publishes
MaskChoices(P, On) ==
    { <<Mk(TRUE, P), Mk(TRUE, On)>>,
      <<Mk(FALSE, {}), Mk(TRUE, On)>>,
      <<Mk(FALSE, {}), Mk(FALSE, {})>>,
      <<Mk(TRUE, {}), Mk(TRUE, On)>>,
      <<Mk(TRUE, P), Mk(FALSE, {})>> }

\* node directory: absent, a mask that names nothing, or nodes NS with every online cpu in one node's list except at
\* most one cpu that no node lists; a node without cpus publishes an empty list (ef) or no directory at all
Assignments(On, NS) ==
    { f \in [On -> NS \cup {-1}] : Cardinality({ c \in On : f[c] = -1 }) <= 1 }
NodeChoices(On) ==
    { <<Mk(FALSE, {}), {}>>, <<Mk(TRUE, {}), {}>> } \cup
    UNION { { <<Mk(TRUE, NS),
                { [n |-> n, f |-> ({ c \in On : f[c] = n } # {} \/ ef), cpus |-> { c \in On : f[c] = n }] : n \in NS }>> :
              f \in Assignments(On, NS), ef \in BOOLEAN } :
            NS \in (SUBSET NodeIds) \ {{}} }

\* lexical style, bogomips pattern and cgroup form: all combinations, or one picked by a key of the topology
KeyOf(L, A, On, masks, topo) ==
    SumSet(L) + 2 * SumSet(A) + 3 * SumSet(On) + 5 * Cardinality(topo[2])
    + 7 * SumSet(UNION { mb.cpus : mb \in { x \in topo[2] : x.n = MinOf(NodeIds) } })
    + (IF masks[1].p THEN 1 ELSE 0) + (IF masks[2].p THEN 2 ELSE 0)
LexChoices(k) ==
    IF FullLexical THEN { <<s, pt, c>> : s \in 0..3, pt \in 0..3, c \in DOMAIN CgSeq }
    ELSE { <<k % 4, (k \div 4) % 4, 1 + (k % Len(CgSeq))>> }

Build(P, On, L, A, masks, topo, style, pat, cg) ==
    [ possible |-> masks[1], online |-> masks[2],
      rows |-> LET ls == SortedSeq(L) IN
               [i \in DOMAIN ls |-> [id |-> ls[i], bogo |-> BogoFor(pat, L, ls[i]),
                                     file |-> IF ls[i] \notin On THEN 0
                                              ELSE IF (ls[i] + style) % 2 = 0 \/ ls[i] = 0 THEN -1 ELSE 1]],
      style |-> style, allowed |-> A,
      nodes |-> topo[1], members |-> topo[2], cg |-> cg ]

Init ==
    \E P \in (SUBSET Cpus) \ {{}} :
    \E On \in (SUBSET P) \ {{}} :
    \E L \in ListedChoices(P, On) :
    \E A \in (SUBSET P) \ {{}} :
    \E masks \in MaskChoices(P, On) :
    \E topo \in NodeChoices(On) :
    \E lex \in LexChoices(KeyOf(L, A, On, masks, topo)) :
        /\ (L \cap A \cap On) # {}
        /\ d = Build(P, On, L, A, masks, topo, lex[1], lex[2], CgSeq[lex[3]])

Next == FALSE /\ UNCHANGED d
Spec == Init /\ [][Next]_d

\* every enumerated description is one the kernel can produce
AllWellFormed == WellFormed(d)
\* the judge is satisfiable: it accepts the canonical expectation
JudgeAcceptsExpected == InventoryOk(d, Expected(d))
\* P of DESIGN C11: expected facts are mutually consistent
FactsConsistent == Consistent(d, Expected(d))

RECURSIVE SetToSeq(_)
SetToSeq(S) == IF S = {} THEN <<>> ELSE LET x == CHOOSE x \in S : TRUE IN <<x>> \o SetToSeq(S \ {x})

\* JSON shape shared with the harness (sets become arrays)
Json(D) ==
    [ possible |-> [p |-> D.possible.p, ids |-> SortedSeq(D.possible.ids)],
      online |-> [p |-> D.online.p, ids |-> SortedSeq(D.online.ids)],
      rows |-> D.rows,
      style |-> D.style,
      allowed |-> SortedSeq(D.allowed),
      nodes |-> [p |-> D.nodes.p, ids |-> SortedSeq(D.nodes.ids)],
      members |-> LET s == SetToSeq(D.members) IN
                  [i \in DOMAIN s |-> [n |-> s[i].n, f |-> s[i].f, cpus |-> SortedSeq(s[i].cpus)]],
      cg |-> D.cg ]

GenCase == PrintT(<<"ICASE", ToJson([d |-> Json(d), exp |-> Expected(d)])>>)
====
