CONSTANT W = 3
SPECIFICATION Spec
INVARIANT EmitCase
CHECK_DEADLOCK FALSE
