------------------------------ MODULE Pinning ------------------------------
(* Explorer for C10: the library's pin bookkeeping as the code does it, checked against the judge PinningAbs for
   every history, and the generator of pin / spawn histories that the harness replays on the real kernel.

   Mirrors   ProcessorSet::pin_current_thread_to   (processor_set.rs: platform call, then update_pin_status from the
             size of the set and the uniformity of its regions),
             SystemHardware::{is_thread_processor_pinned, is_thread_memory_region_pinned, current_processor_id,
             current_memory_region_id, thread_processors}   (system_hardware.rs: answers from the per-thread,
             per-hardware-instance PIN_STATES entry, else from the platform),
             ProcessorSet::spawn_threads / spawn_thread   (new thread, pin, entry point).
   One action per public operation: the thread that pins is the thread that asks, so no other thread can observe
   the window between the platform call and the status update.                                                *)
EXTENDS PinningAbs, TLC

CONSTANTS Procs,          \* abstract processors
          HW,             \* hardware instances, e.g. 1..2
          Threads,        \* long-lived threads
          Kinds,          \* HW -> "R" | "L" | "F"
          RegionOf,       \* HW -> [Procs -> region]
          MaxOps,
          SpawnSets,      \* sets used by the spawn operations (subset of SUBSET Procs)
          Faults          \* BOOLEAN: histories may contain refused pins and plain threads that pin themselves

PinSets == (SUBSET Procs) \ {{}}

H(h) == [kind |-> Kinds[h], procs |-> { [id |-> p, region |-> RegionOf[h][p]] : p \in Procs }, maxcpu |-> 99]

VARIABLES os,      \* os[h][t]
          last,    \* last[h][t]
          cache,   \* cache[h][t] = [pp, pr]: PIN_STATES entry; -1 = None (also: no entry yet)
          kids,    \* threads created by the most recent spawn: set of [h, os, last, cache]
          hist     \* operations so far

vars == <<os, last, cache, kids, hist>>

NoCache == [pp |-> -1, pr |-> -1]

\* update_pin_status as called by pin_current_thread_to
CacheFor(h, S) ==
    IF Cardinality(S) = 1 THEN LET p == CHOOSE p \in S : TRUE IN [pp |-> p, pr |-> RegionOf[h][p]]
    ELSE IF Cardinality({ RegionOf[h][p] : p \in S }) = 1
         THEN [pp |-> -1, pr |-> RegionOf[h][CHOOSE p \in S : TRUE]]
         ELSE NoCache

Init ==
    /\ os = [h \in HW |-> [t \in Threads |-> Procs]]
    /\ last = [h \in HW |-> [t \in Threads |-> Unpinned]]
    /\ cache = [h \in HW |-> [t \in Threads |-> NoCache]]
    /\ kids = {}
    /\ hist = <<>>

Pin(h, t, S) ==
    /\ os' = [os EXCEPT ![h][t] = S]                     \* platform.pin_current_thread_to: the OS takes the mask
    /\ cache' = [cache EXCEPT ![h][t] = CacheFor(h, S)]  \* update_pin_status
    /\ last' = [last EXCEPT ![h][t] = PinnedTo(S)]
    /\ kids' = {}
    /\ hist' = Append(hist, [op |-> "pin", t |-> t, h |-> h, s |-> S])

\* one new thread per processor, pinned to it; the spawning thread is untouched
SpawnThreads(h, t, S) ==
    /\ kids' = { [h |-> h, os |-> {p}, last |-> PinnedTo({p}), cache |-> CacheFor(h, {p})] : p \in S }
    /\ hist' = Append(hist, [op |-> "spawn_threads", t |-> t, h |-> h, s |-> S])
    /\ UNCHANGED <<os, last, cache>>

SpawnThread(h, t, S) ==
    /\ kids' = { [h |-> h, os |-> S, last |-> PinnedTo(S), cache |-> CacheFor(h, S)] }
    /\ hist' = Append(hist, [op |-> "spawn_thread", t |-> t, h |-> h, s |-> S])
    /\ UNCHANGED <<os, last, cache>>

\* The OS refuses the mask (sched_setaffinity fails): the platform call panics BEFORE update_pin_status, so neither the
\* OS nor the library's bookkeeping changes. (Fault injection is possible on the harness kernel only.)
PinRefused(h, t, S) ==
    /\ hist' = Append(hist, [op |-> "pin_refused", t |-> t, h |-> h, s |-> S])
    /\ kids' = {}
    /\ UNCHANGED <<os, last, cache>>

\* A plain std thread created by t (it inherits t's OS affinity; the library knows nothing about it) pins ITSELF to S
\* through h: afterwards it looks exactly like a thread spawn_thread(S) created.
PlainPin(h, t, S) ==
    /\ kids' = { [h |-> h, os |-> S, last |-> PinnedTo(S), cache |-> CacheFor(h, S)] }
    /\ hist' = Append(hist, [op |-> "plain_pin", t |-> t, h |-> h, s |-> S])
    /\ UNCHANGED <<os, last, cache>>

Next ==
    /\ Len(hist) < MaxOps
    /\ \E h \in HW, t \in Threads :
          \/ \E S \in PinSets : Pin(h, t, S)
          \/ \E S \in SpawnSets : SpawnThreads(h, t, S)
          \/ \E S \in SpawnSets : SpawnThread(h, t, S)
          \/ \E S \in SpawnSets : Faults /\ PinRefused(h, t, S)
          \/ \E S \in SpawnSets : Faults /\ PlainPin(h, t, S)

Spec == Init /\ [][Next]_vars

-----------------------------------------------------------------------------
(* What the code answers from a cache entry (system_hardware.rs), for a thread currently on processor c.        *)

Answers(h, A, ce, c) ==
    [ panic |-> "", k |-> Kinds[h] # "F", kaff |-> A, kcpu |-> c,
      pp |-> ce.pp # -1,
      rp |-> ce.pr # -1,
      cpu |-> IF ce.pp # -1 THEN ce.pp ELSE c,
      region |-> IF ce.pr # -1 THEN ce.pr ELSE RegionOf[h][c],
      tpsome |-> ce.pp # -1 \/ ce.pr # -1,
      tp |-> IF ce.pp # -1 THEN {ce.pp} ELSE IF ce.pr # -1 THEN { p \in Procs : RegionOf[h][p] = ce.pr } ELSE {} ]

\* PinningAbs takes sequences where the harness logs arrays; sets are wrapped here
RECURSIVE SetToSeq(_)
SetToSeq(S) == IF S = {} THEN <<>> ELSE LET x == CHOOSE x \in S : TRUE IN <<x>> \o SetToSeq(S \ {x})
AsObs(a) == [a EXCEPT !.kaff = SetToSeq(a.kaff), !.tp = SetToSeq(a.tp)]

CellOk(h, A, lst, ce) ==
    \A c \in Where(H(h), A, lst) : ObsOk(H(h), A, lst, AsObs(Answers(h, A, ce, c)))

\* every answer the code can give, on every thread, through every hardware instance, satisfies the judge
LibTruthful ==
    /\ \A h \in HW, t \in Threads : CellOk(h, os[h][t], last[h][t], cache[h][t])
    /\ \A kd \in kids : CellOk(kd.h, kd.os, kd.last, kd.cache)

\* thread_processors(): exact, or one of the two named deviations (known finding)
TPExactOrNamed ==
    \A h \in HW, t \in Threads :
        \A c \in Where(H(h), os[h][t], last[h][t]) :
            LET o == AsObs(Answers(h, os[h][t], cache[h][t], c)) IN
            \/ ThreadProcessorsExact(last[h][t], o)
            \/ ThreadProcessorsDeviation(H(h), last[h][t], o) # "other"

\* answers about (h, t) are a function of last[h][t] alone: the cache never holds anything else
CacheIsFunctionOfLastPin ==
    \A h \in HW, t \in Threads :
        cache[h][t] = IF last[h][t].pinned THEN CacheFor(h, last[h][t].s) ELSE NoCache

TypeOK == /\ \A h \in HW, t \in Threads : os[h][t] \in (SUBSET Procs) \ {{}}
          /\ Len(hist) <= MaxOps
=============================================================================
