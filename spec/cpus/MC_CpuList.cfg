CONSTANT W = 3
SPECIFICATION Spec
INVARIANT TypeOK NoPanic RoundTrip Canonical GroupsAreRuns
CHECK_DEADLOCK FALSE
