------------------------------ MODULE Trace_LinuxInventory ------------------------------
(* Judges {"op":"inventory","d":<description>,"obs":<observed inventory>} records produced by the harness
   (h_cpus inventory / inventory-random: real Linux platform + SystemHardware built over the rendered files through
   hook H4) with LinuxInventory.  Stateless judge: rejected records are reported (all of them) and skipped.
   A description that is not kernel-consistent is reported as NOTWF (a harness/generator bug, never a violation). *)
EXTENDS LinuxInventory, TraceLib

VARIABLE l

\* JSON id arrays are ascending (the harness writes ordered sets); WellFormed re-checks the maximum
AbsMask(mk) == [p |-> mk.p, ids |-> ToSet(mk.ids), max |-> IF Len(mk.ids) = 0 THEN -1 ELSE mk.ids[Len(mk.ids)]]

\* JSON description -> abstract description
Abs(j) ==
    [ possible |-> AbsMask(j.possible), online |-> AbsMask(j.online),
      rows |-> j.rows,
      style |-> j.style,
      allowed |-> ToSet(j.allowed),
      nodes |-> AbsMask(j.nodes),
      members |-> { [n |-> j.members[i].n, f |-> j.members[i].f, cpus |-> ToSet(j.members[i].cpus)] : i \in DOMAIN j.members },
      cg |-> j.cg ]

TraceInit == l = 1

TraceNext ==
    /\ l <= NRec
    /\ LET r == Rec[l]
           D == Abs(r.d) IN
       IF ~WellFormed(D)
       THEN PrintT(<<"NOTWF", ToJson([line |-> l, rec |-> r.d])>>)
       ELSE IF InventoryOk(D, r.obs) THEN TRUE
       ELSE PrintT(<<"REJECT", ToJson([line |-> l, why |-> Diagnose(D, r.obs), cg |-> r.d.cg.k, rec |-> r])>>)
    /\ l' = l + 1

TraceSpec == TraceInit /\ [][TraceNext]_l
=============================================================================
