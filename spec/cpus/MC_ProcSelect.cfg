CONSTANTS NR = 3  MaxPer = 2  MaxN = 4  Quotas <- QuotasQuick
SPECIFICATION FairSpec
INVARIANT TypeOK ResultOk NeverTooMany ClosedFormsAgree
PROPERTY Terminates
CHECK_DEADLOCK FALSE
