------------------------------ MODULE RC11 ------------------------------
(* A release/acquire memory model (RC11 without promises) as pure operators on a memory value, for TLC.

   Fragment: relaxed / acquire / release / acq-rel atomics and fences, RMWs, release sequences through RMWs,
   non-atomic cells with FastTrack/DJIT+ race detection.  No load buffering / out-of-thin-air, no consume,
   no SC fences (the code under study uses none).  See DESIGN.md 3.1.

   A memory value M is a record
     mo       : [ALoc -> Seq(message)]      modification order per atomic location;
                                            message = [val, w (writer thread), e (writer epoch), vc (clock carried)]
     lastRead : [Thread -> [ALoc -> Nat]]   coherence: index of the mo-latest message the thread has read/written
     vc       : [Thread -> VC]              what happens-before the thread's next action
     vcA      : [Thread -> VC]              clocks collected by relaxed loads, applied by an acquire fence
     vcR      : [Thread -> VC]              snapshot taken by the last release fence, attached by relaxed stores
     na       : [NLoc -> [w, we, r]]        non-atomic cell: last write (thread, epoch) and per-thread read epochs
     race     : BOOLEAN                     a data race (or access to released storage) has happened
   The thread clock ticks ONLY after release-class writes: ticking on every operation makes spin loops an
   infinite state space (measured: 80 M states and growing vs 593 distinct states).

   Orderings are the strings "rlx", "acq", "rel", "acqrel" (SeqCst is treated as acqrel: the code has no SC fences
   and never relies on a total order of SC operations across locations).                                       *)
EXTENDS Naturals, Sequences, FiniteSets

CONSTANTS Thread, ALoc, NLoc

ZeroVC == [t \in Thread |-> 0]
Join(a, b) == [t \in Thread |-> IF a[t] >= b[t] THEN a[t] ELSE b[t]]
Tick(t, v) == [v EXCEPT ![t] = v[t] + 1]

IsAcq(ord) == ord \in {"acq", "acqrel", "sc"}
IsRel(ord) == ord \in {"rel", "acqrel", "sc"}

\* init[l] = initial value of atomic location l, written by thread `creator` before any other thread starts
InitMem(init, creator) ==
    [ mo       |-> [l \in ALoc |-> << [val |-> init[l], w |-> creator, e |-> 0, vc |-> ZeroVC] >>],
      lastRead |-> [t \in Thread |-> [l \in ALoc |-> 1]],
      vc       |-> [t \in Thread |-> [u \in Thread |-> IF u = t THEN 1 ELSE 0]],
      vcA      |-> [t \in Thread |-> ZeroVC],
      vcR      |-> [t \in Thread |-> ZeroVC],
      na       |-> [x \in NLoc |-> [w |-> creator, we |-> 0, r |-> ZeroVC]],
      race     |-> FALSE ]

Last(M, l) == Len(M.mo[l])
LastVal(M, l) == M.mo[l][Len(M.mo[l])].val

\* Messages of location l that thread t may read: not mo-before what it already read (coherence) and not
\* mo-before a message it knows of by happens-before.
Eligible(M, t, l) ==
    { i \in 1..Last(M, l) :
        /\ i >= M.lastRead[t][l]
        /\ \A j \in (i + 1)..Last(M, l) : ~(M.mo[l][j].e > 0 /\ M.mo[l][j].e <= M.vc[t][M.mo[l][j].w]) }

\* Under sequential consistency a load reads the mo-latest message.
EligibleSC(M, t, l) == { Last(M, l) }

-----------------------------------------------------------------------------
(* atomic operations: each returns the new memory                          *)

Load(M, t, l, i, ord) ==
    LET m == M.mo[l][i] IN
    [M EXCEPT !.lastRead[t][l] = i,
              !.vc[t] = IF IsAcq(ord) THEN Join(@, m.vc) ELSE @,
              !.vcA[t] = Join(@, m.vc)]

\* stores are appended (mo-latest); the protocols studied never need a store placed in the mo-past
Store(M, t, l, val, ord) ==
    LET v == M.vc[t]
        mv == IF IsRel(ord) THEN v ELSE M.vcR[t] IN
    [M EXCEPT !.mo[l] = Append(@, [val |-> val, w |-> t, e |-> v[t], vc |-> mv]),
              !.lastRead[t][l] = Len(M.mo[l]) + 1,
              !.vc[t] = IF IsRel(ord) THEN Tick(t, v) ELSE v]

\* successful read-modify-write: reads the mo-latest message, continues its release sequence
Rmw(M, t, l, newval, ord) ==
    LET m == M.mo[l][Last(M, l)]
        v0 == M.vc[t]
        v == IF IsAcq(ord) THEN Join(v0, m.vc) ELSE v0
        mv == Join(IF IsRel(ord) THEN v ELSE M.vcR[t], m.vc) IN
    [M EXCEPT !.mo[l] = Append(@, [val |-> newval, w |-> t, e |-> v[t], vc |-> mv]),
              !.lastRead[t][l] = Len(M.mo[l]) + 1,
              !.vc[t] = IF IsRel(ord) THEN Tick(t, v) ELSE v,
              !.vcA[t] = Join(@, m.vc)]

\* failed compare-exchange = a load with the failure ordering (of any eligible message whose value differs)
FenceAcq(M, t) == [M EXCEPT !.vc[t] = Join(@, M.vcA[t])]
FenceRel(M, t) == [M EXCEPT !.vcR[t] = M.vc[t], !.vc[t] = Tick(t, M.vc[t])]
Fence(M, t, ord) ==
    LET M1 == IF IsAcq(ord) THEN FenceAcq(M, t) ELSE M IN
    IF IsRel(ord) THEN FenceRel(M1, t) ELSE M1

-----------------------------------------------------------------------------
(* non-atomic cells                                                         *)

NARead(M, t, x) ==
    LET c == M.na[x]
        v == M.vc[t] IN
    [M EXCEPT !.na[x].r[t] = v[t],
              !.race = @ \/ ~(c.we <= v[c.w])]

NAWrite(M, t, x) ==
    LET c == M.na[x]
        v == M.vc[t] IN
    [M EXCEPT !.na[x] = [w |-> t, we |-> v[t], r |-> ZeroVC],
              !.race = @ \/ ~(c.we <= v[c.w]) \/ (\E u \in Thread : u # t /\ ~(c.r[u] <= v[u]))]

\* a sequence of accesses <<"r"|"w", cell>> by one thread in one step
RECURSIVE NAAccesses(_, _, _)
NAAccesses(M, t, accs) ==
    IF accs = <<>> THEN M
    ELSE LET a == Head(accs)
             M1 == IF a[1] = "r" THEN NARead(M, t, a[2]) ELSE NAWrite(M, t, a[2])
         IN NAAccesses(M1, t, Tail(accs))

NoRace(M) == ~M.race
=============================================================================
