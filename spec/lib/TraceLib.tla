------------------------------ MODULE TraceLib ------------------------------
(* Trace-validation scaffolding shared by every Trace_*.tla.

   The harness writes one JSON object per line (ndjson) to the file named by the environment variable TRACE.
   A trace spec declares the cursor `l`, reuses the actions of the judge specification, and advances `l` by
   one per consumed record.  Acceptance: the search reaches l = Len(Rec)+1, i.e. diameter-1 = Len(Rec).
   On rejection the POSTCONDITION prints the first record no action could consume (there is no counterexample
   for "no behaviour exists"; the last matched prefix + that record is the diagnosis).

   Run with -workers 1 (diameter is then exact); CHECK_DEADLOCK FALSE.                                          *)
EXTENDS Naturals, Sequences, TLC, Json, IOUtils

Rec == ndJsonDeserialize(IOEnv.TRACE)

NRec == Len(Rec)

\* Has(r, f): record r has field f (JSON objects become TLA+ records)
Has(r, f) == f \in DOMAIN r

\* JSON arrays arrive as sequences (1-based); ToSet turns them into sets.
ToSet(s) == { s[i] : i \in DOMAIN s }

Accepted ==
    LET d == TLCGet("stats").diameter IN
    IF d - 1 >= NRec THEN TRUE
    ELSE /\ PrintT(<<"TRACE-REJECTED", "matched", d - 1, "of", NRec>>)
         /\ PrintT(<<"FIRST-UNMATCHED", ToJson(Rec[d])>>)
         /\ FALSE

-----------------------------------------------------------------------------
(* Trace specs that take silent steps (spec actions with no logged event) cannot use the diameter.  They track the
   furthest cursor position reached in TLC register 1:  put  CursorInit  in the initial predicate,
   CursorSeen(l)  as a CONSTRAINT, and  AcceptedCursor  as the POSTCONDITION.  Needs -workers 1.                *)
CursorInit == TLCSet(1, 1)
CursorSeen(l) == IF TLCGet(1) < l THEN TLCSet(1, l) ELSE TRUE
AcceptedCursor ==
    LET m == TLCGet(1) IN
    IF m > NRec THEN TRUE
    ELSE /\ PrintT(<<"TRACE-REJECTED", "matched", m - 1, "of", NRec>>)
         /\ PrintT(<<"FIRST-UNMATCHED", ToJson(Rec[m])>>)
         /\ FALSE
=============================================================================
