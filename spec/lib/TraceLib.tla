------------------------------ MODULE TraceLib ------------------------------
(* Trace-validation scaffolding shared by every Trace_*.tla.

   The harness writes one JSON object per line (ndjson) to the file named by the environment variable TRACE.
   A trace spec declares the cursor `l`, reuses the actions of the judge specification, and advances `l` by
   one per consumed record.  Acceptance: the search reaches l = Len(Rec)+1, i.e. diameter-1 = Len(Rec).
   On rejection the POSTCONDITION prints the first record no action could consume (there is no counterexample
   for "no behaviour exists"; the last matched prefix + that record is the diagnosis).

   Run with -workers 1 (diameter is then exact); CHECK_DEADLOCK FALSE.                                          *)
EXTENDS Naturals, Sequences, TLC, Json, IOUtils

Rec == ndJsonDeserialize(IOEnv.TRACE)

NRec == Len(Rec)

\* Has(r, f): record r has field f (JSON objects become TLA+ records)
Has(r, f) == f \in DOMAIN r

\* JSON arrays arrive as sequences (1-based); ToSet turns them into sets.
ToSet(s) == { s[i] : i \in DOMAIN s }

Accepted ==
    LET d == TLCGet("stats").diameter IN
    IF d - 1 >= NRec THEN TRUE
    ELSE /\ PrintT(<<"TRACE-REJECTED", "matched", d - 1, "of", NRec>>)
         /\ PrintT(<<"FIRST-UNMATCHED", ToJson(Rec[d])>>)
         /\ FALSE
=============================================================================
