------------------------------ MODULE LinMonitor ------------------------------
(* Linearizability as a state variable (DESIGN 3.2).  Generic: parametric in the sequential specification.

   A *configuration* is one way the history seen so far can be explained:

       [ s    |-> abstract (sequential) state reached by the operations linearized so far,
         pend |-> [Procs -> operation | NoOp]     the operation each process has invoked and not yet returned from,
         lin  |-> [Procs -> result    | NoRes] ]  NoRes = that pending operation has not taken effect yet,
                                                  otherwise the result that was fixed when it took effect

   The monitor state is the SET of all configurations consistent with the history (Wing & Gong / Lowe style
   "just-in-time" linearization, kept as a set instead of being searched):

     * LinInvoke(C, p, op)   p invokes op: op becomes pending in every configuration; the set is then closed under
                             "some pending, not yet linearized operation takes effect now" and under silent steps
                             (LinClose).
     * LinRespond(C, p, r)   p's operation returns r: keep the configurations that had linearized it with a result
                             matching r (ResMatch), retire the operation.
     * LinOk(C)              C # {}: the history is linearizable w.r.t. the sequential specification iff the set never
                             becomes empty.  (Empty right after a response = that response is the first one no
                             sequential order respecting real time can explain.)

   The module has no variables: the user keeps the set in a variable of his own (`configs`), both in an explorer
   (TLC then checks linearizability of every interleaving of the implementation model: INVARIANT LinOk(configs)) and
   in a trace specification (the recorded invocation/response log of the real code drives LinInvoke/LinRespond; the
   configuration set is the whole state, so trace validation is deterministic).

   Parameters
     Procs              the processes (threads); at most one pending operation each
     NoOp, NoRes        markers; must be of the same "shape" as operations / results (TLC cannot compare a string with
                        a record: use records everywhere, e.g. NoOp = [op |-> "none"])
     SeqApply(p,op,s)   the sequential specification: the SET of <<s2, res>> such that process p executing op
                        atomically in state s may leave s2 and return res (empty set = op not enabled; nondeterminism
                        = several elements)
     SeqInternal(s)     silent steps of the sequential specification: the set of states reachable from s by one step
                        that belongs to no particular operation's linearization point (e.g. an operation that takes
                        effect at one point but delivers part of its effect later, piecemeal, before it returns: the
                        deliveries are silent steps enabled while that operation is pending).  {} if there are none.
     ResMatch(fix,obs,s) does the observed result obs agree with the result fix that the sequential specification
                        fixed, in a configuration whose abstract state is now s?  (Plain equality for most uses.)
     RespEffect(p,s)    what the return of process p's operation does to the abstract state: a set of states, {s} if
                        nothing, {} to reject (e.g. "p may not return while it still owes a delivery")
     QuietOk(s)         what must hold of the abstract state whenever NO operation is pending (obligations that the
                        specification lets operations discharge late -- e.g. "every released waiter has been woken" --
                        fall due at quiescence); TRUE if there is none.  LinRespond drops configurations that are
                        quiescent and violate it.

   Besides invocations and responses a history may contain observations that are not operations (a waker was
   invoked): LinUpdate(C, F) applies the deterministic state update F to every configuration.

   Instantiate with   L == INSTANCE LinMonitor WITH Procs <- .., NoOp <- .., NoRes <- .., SeqApply <- MyApply,
                                                    ResMatch <- MyMatch
   (operator parameters are substituted by operator names or LAMBDAs).                                              *)
EXTENDS Naturals, FiniteSets

CONSTANTS Procs, NoOp, NoRes, SeqApply(_, _, _), SeqInternal(_), ResMatch(_, _, _), RespEffect(_, _), QuietOk(_)

\* the single initial configuration for initial abstract state s0
LinInit(s0) == { [s |-> s0, pend |-> [p \in Procs |-> NoOp], lin |-> [p \in Procs |-> NoRes]] }

\* processes of configuration c whose pending operation has not taken effect yet
Unlinearized(c) == { p \in Procs : c.pend[p] # NoOp /\ c.lin[p] = NoRes }

\* all configurations reachable from c by letting ONE pending operation take effect, or by one silent step of the
\* sequential specification
LinStep(c) ==
    UNION { { [s |-> r[1], pend |-> c.pend, lin |-> [c.lin EXCEPT ![p] = r[2]]] : r \in SeqApply(p, c.pend[p], c.s) }
            : p \in Unlinearized(c) }
    \cup { [c EXCEPT !.s = s2] : s2 \in SeqInternal(c.s) }

\* closure under LinStep (terminates: every step linearizes one of finitely many pending operations).
\* Frontier form: only configurations found in the previous round are expanded.
RECURSIVE LinCloseF(_, _)
LinCloseF(done, front) ==
    IF front = {} THEN done
    ELSE LET all == done \cup front
             new == UNION { LinStep(c) : c \in front } \ all
         IN LinCloseF(all, new)
LinClose(C) == LinCloseF({}, C)

LinInvoke(C, p, op) == LinClose({ [c EXCEPT !.pend[p] = op] : c \in C })

LinRespond(C, p, res) ==
    LET kept == { d \in C : d.lin[p] # NoRes /\ ResMatch(d.lin[p], res, d.s) }
        retired == UNION { { [c EXCEPT !.pend[p] = NoOp, !.lin[p] = NoRes, !.s = s2] : s2 \in RespEffect(p, c.s) }
                           : c \in kept }
    IN { c \in retired : (\A q \in Procs : c.pend[q] = NoOp) => QuietOk(c.s) }

\* an observation that is not an operation (e.g. "waker k of wait w was invoked"): a deterministic update F of the
\* abstract state, applied to every configuration
LinUpdate(C, F(_)) == { [c EXCEPT !.s = F(c.s)] : c \in C }

\* an operation that is invoked and returns in one atomic step of the implementation model
LinAtomic(C, p, op, res) == LinRespond(LinInvoke(C, p, op), p, res)

LinOk(C) == C # {}

\* the abstract states the history may have reached (for "refinement at quiescence" style invariants)
LinStates(C) == { c.s : c \in C }

\* configurations in which nothing is pending (meaningful when the implementation is quiescent)
LinQuiescent(C) == { c \in C : \A p \in Procs : c.pend[p] = NoOp }
=============================================================================
