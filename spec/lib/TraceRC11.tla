------------------------------ MODULE TraceRC11 ------------------------------
(* Trace-level race / use-after-release detector: replays a recorded execution through RC11 alone.

   The harness scheduler produces sequentially consistent executions (every load reads the mo-latest message), but
   the happens-before relation built from the RECORDED memory orderings is the C11 one: an access that is not ordered
   by the release/acquire edges the code actually requested is a data race even though x86 made it work.  No protocol
   model is involved, so this check survives any refactoring of the code under test.

   Events (ndjson, produced by the shim atomics / cell / release hooks):
     {"ev":"reset"}                                       new run: fresh memory
     {"ev":"atomic","task":t,"obj":o,"loc":a,"op":..,"ord":..,"ordf":..,"obs":v,"wr":w}
            op \in load | store | swap | fetch_add | fetch_or | fetch_and | fetch_sub | cas_ok | cas_fail | fence
     {"ev":"cell","task":t,"obj":o,"part":p,"acc":"r"|"w"}   non-atomic access to part p of object o
     {"ev":"release","task":t,"obj":o}                       o's storage is handed back (freed / slot returned)
     {"ev":"created","task":t,"obj":o,"loc":a}               o's storage is (re)initialised by task t
   Every access to an object reads its `blk` cell; release and (re)creation write `blk` and every part.
   The edge  release -> later creation of the same storage  is the allocator's / pool's lock (trusted base, DESIGN C06):
   both are modelled as acq-rel RMWs on location 0.
   Objects and atomic locations share one small id space 1..MaxId (assigned by the harness per run).               *)
EXTENDS TraceLib, Integers, FiniteSets

CONSTANTS MaxTask, MaxId, Parts,
          MutexParts     \* parts that are themselves locks (e.g. a debug Mutex inside the object): an access to one is an
                         \* acquire + release on a location of its own (id = the object's id), not a plain access

Thread == 0..(MaxTask - 1)
ALoc == 0..MaxId
NLoc == (1..MaxId) \X (Parts \cup {"blk"})

M == INSTANCE RC11 WITH Thread <- Thread, ALoc <- ALoc, NLoc <- NLoc

VARIABLES l, mem, skipping,
          made, rel      \* object ids (re)created inside the run / released so far: exactly-once release, no leak

Fresh == M!InitMem([a \in ALoc |-> 0], 0)

Touch(m, t, o) == IF o \in 1..MaxId THEN M!NARead(m, t, <<o, "blk">>) ELSE m

WriteAll(m, t, o) ==
    LET RECURSIVE Go(_, _)
        Go(mm, ps) == IF ps = {} THEN mm
                      ELSE LET p == CHOOSE p \in ps : TRUE IN Go(M!NAWrite(mm, t, <<o, p>>), ps \ {p})
    IN Go(m, Parts \cup {"blk"})

IsRmw(op) == op \in {"swap", "fetch_add", "fetch_or", "fetch_and", "fetch_sub", "cas_ok"}

Apply(r, m) ==
    LET t == r.task IN
    CASE r.ev = "atomic" /\ r.op = "fence"   -> M!Fence(m, t, r.ord)
      [] r.ev = "atomic" /\ r.op = "load"    -> M!Load(Touch(m, t, r.obj), t, r.loc, M!Last(m, r.loc), r.ord)
      [] r.ev = "atomic" /\ r.op = "cas_fail" -> M!Load(Touch(m, t, r.obj), t, r.loc, M!Last(m, r.loc), r.ordf)
      [] r.ev = "atomic" /\ r.op = "store"   -> M!Store(Touch(m, t, r.obj), t, r.loc, r.wr, r.ord)
      [] r.ev = "atomic" /\ IsRmw(r.op)      -> M!Rmw(Touch(m, t, r.obj), t, r.loc, r.wr, r.ord)
      [] r.ev = "cell" /\ r.part \in MutexParts -> M!Rmw(Touch(m, t, r.obj), t, r.obj, 0, "acqrel")
      [] r.ev = "cell" /\ r.acc = "r"        -> M!NARead(Touch(m, t, r.obj), t, <<r.obj, r.part>>)
      [] r.ev = "cell"                       -> M!NAWrite(Touch(m, t, r.obj), t, <<r.obj, r.part>>)
      [] r.ev = "release"                    -> M!Rmw(WriteAll(Touch(m, t, r.obj), t, r.obj), t, 0, 0, "acqrel")
      [] r.ev = "created"                    -> M!Store(WriteAll(M!Rmw(m, t, 0, 0, "acqrel"), t, r.obj), t, r.loc, 0, "rlx")
      [] OTHER -> m

\* sanity of the recording itself: under the scheduler every read observes the latest write
Consistent(r, m) ==
    (r.ev = "atomic" /\ r.op \in {"load", "cas_fail", "swap", "fetch_add", "fetch_or", "fetch_and", "fetch_sub", "cas_ok"})
        => r.obs = M!LastVal(m, r.loc)

TraceInit == l = 1 /\ mem = Fresh /\ skipping = FALSE /\ made = {} /\ rel = {}

Rej(why) == PrintT(<<"REJECT", ToJson([line |-> l, why |-> why, rec |-> Rec[l]])>>)

\* storage accounting: "" = fine, otherwise the reason to reject
Account(r) ==
    CASE r.ev = "created" /\ r.obj \in (made \ rel) -> "storage handed out while its previous tenant has not released it"
      [] r.ev = "release" /\ r.obj \in rel -> "storage released twice"
      [] r.ev = "end" /\ r.outcome # "completed" -> "run did not terminate"
      [] r.ev = "end" /\ (made \ rel) # {} -> "storage never released (leak)"
      [] r.ev = "end" /\ ~(r.pool_len \in {-1, 0}) -> "pool or lake not empty at quiescence"
      [] OTHER -> ""

TraceNext ==
    /\ l <= NRec
    /\ l' = l + 1
    /\ LET r == Rec[l] IN
       IF r.ev = "reset" THEN mem' = Fresh /\ skipping' = FALSE /\ made' = {} /\ rel' = {}
       ELSE IF skipping \/ ~(r.ev \in {"atomic", "cell", "release", "created", "end"}) THEN UNCHANGED <<mem, skipping, made, rel>>
       ELSE IF Account(r) # ""
            THEN Rej(Account(r)) /\ skipping' = TRUE /\ UNCHANGED <<mem, made, rel>>
       ELSE IF r.ev = "end" THEN UNCHANGED <<mem, skipping, made, rel>>
       ELSE IF ~Consistent(r, mem)
            THEN /\ Rej("recording is not sequentially consistent (harness defect)")
                 /\ skipping' = TRUE /\ UNCHANGED <<mem, made, rel>>
            ELSE LET nm == Apply(r, mem) IN
                 /\ mem' = nm
                 /\ made' = IF r.ev = "created" THEN made \cup {r.obj} ELSE made
                 /\ rel' = IF r.ev = "created" THEN rel \ {r.obj} ELSE IF r.ev = "release" THEN rel \cup {r.obj} ELSE rel
                 /\ IF nm.race
                    THEN Rej("data race or access to released storage") /\ skipping' = TRUE
                    ELSE skipping' = FALSE

TraceSpec == TraceInit /\ [][TraceNext]_<<l, mem, skipping, made, rel>>
=============================================================================
