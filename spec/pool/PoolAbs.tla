------------------------------ MODULE PoolAbs ------------------------------
(* JUDGE for C01: "pooled objects keep one stable, exclusive, aligned address while alive".

   The whole pool is a set of live objects; each has an opaque address and a value.  NOTHING about the placement
   policy is fixed: an insert may deliver any address that no live object uses.  What the judge insists on:
     - an object's address and value never change between its insert and its removal  (state `live` is only changed
       by Insert / Remove; every observation through every handle must agree with `live`);
     - two live objects never have the same address, and their byte ranges [ptr, ptr+size) are disjoint;
     - every observed address is aligned for the object's type.

   The module is used three ways:
     1. Spec (Init/Next) is the abstract specification that the explorer SlabPool.tla refines (TLC: PROPERTY).
     2. Trace_PoolAbs applies Insert/Remove with the parameters recorded from the real code and evaluates the
        *Failures operators on what the harness observed after every operation.
     3. Handles.tla extends it for C02.

   Addresses in traces are small ids assigned by the tracer in order of first appearance (equal real address <=> equal
   id); byte ranges are rank-compressed per record (ranks preserve order, so overlap is decidable on them).      *)
EXTENDS Naturals, Sequences, FiniteSets, TLC

CONSTANTS Objs,     \* object identities
          Addrs,    \* addresses
          Vals      \* values (digests of the stored bytes)

VARIABLE live       \* function: live object -> [a: address, v: value]

LiveObjs == DOMAIN live
AddrsInUse == { live[o].a : o \in LiveObjs }

Init == live = << >>

InsertOK(o, a) == o \notin LiveObjs /\ a \notin AddrsInUse

Insert(o, a, v) ==
    /\ InsertOK(o, a)
    /\ live' = [p \in LiveObjs \cup {o} |-> IF p = o THEN [a |-> a, v |-> v] ELSE live[p]]

Remove(o) ==
    /\ o \in LiveObjs
    /\ live' = [p \in LiveObjs \ {o} |-> live[p]]

Next == \/ \E o \in Objs, a \in Addrs, v \in Vals : Insert(o, a, v)
        \/ \E o \in Objs : Remove(o)

Spec == Init /\ [][Next]_live

\* Holds by construction of Insert; stated so that TLC confirms the judge is consistent.
Exclusive == \A o1, o2 \in LiveObjs : o1 # o2 => live[o1].a # live[o2].a

------------------------------------------------------------------------------
(* Judging observations.  Every operator returns the SET OF NAMES of the requirements that are violated, so that the
   trace specification can report why a record was rejected (the name becomes part of the violation key).        *)

Need(cond, name) == IF cond THEN {} ELSE {name}

\* One observation through one handle: ob = [o |-> object, a |-> address id, v |-> digest read, al |-> ptr % align],
\* judged against a live function L (the state after the operation).
HandleFailuresOn(L, ob) ==
    IF ob.o \notin DOMAIN L THEN {"handle-of-dead-object"}
    ELSE Need(ob.a = L[ob.o].a, "address-changed")
         \cup Need(ob.v = L[ob.o].v, "value-changed")
         \cup Need(ob.al = 0, "misaligned")
HandleFailures(ob) == HandleFailuresOn(live, ob)

\* iv: sequence of [o, lo, hi] - the byte ranges of all live objects, rank-compressed, SORTED by lo by the harness.
\* For a sequence sorted by lo, pairwise disjointness is equivalent to disjointness of neighbours
\* (TLC checks this equivalence exhaustively on small instances: MC_PoolAbs, SortedAdjacentLemma).
IntervalsSorted(iv) == \A j \in 1..(Len(iv) - 1) : iv[j].lo <= iv[j + 1].lo
IntervalsProper(iv) == \A j \in 1..Len(iv) : iv[j].lo < iv[j].hi
AdjacentDisjoint(iv) == \A j \in 1..(Len(iv) - 1) : iv[j].hi <= iv[j + 1].lo
PairwiseDisjoint(iv) == \A j, k \in 1..Len(iv) : j # k => (iv[j].hi <= iv[k].lo \/ iv[k].hi <= iv[j].lo)

GeometryFailuresOn(L, iv) ==
    Need(IntervalsSorted(iv) /\ IntervalsProper(iv), "malformed-intervals")      \* recording contract, not the pool
    \cup Need({ iv[j].o : j \in 1..Len(iv) } = DOMAIN L /\ Len(iv) = Cardinality(DOMAIN L), "malformed-live-set")
    \cup Need(AdjacentDisjoint(iv), "objects-overlap")
GeometryFailures(iv) == GeometryFailuresOn(live, iv)
=============================================================================
