------------------------------ MODULE SlabLayout ------------------------------
(* The slot geometry of a slab (opaque/slab_layout.rs) over the integers.

     (slot, off) = Layout::extend(meta, object)        off  = round_up(meta.size, object.align)
                                                       size = off + object.size,  align = max(meta.align, object.align)
     slot        = slot.pad_to_align()                 stride = round_up(size, align)
     slab block  = stride * Cap bytes, aligned to slot.align (allocator contract)
     tag i at   base + i*stride,  object i at  base + i*stride + off

   Lemma (checked by TLC for EVERY object size 1..MaxSize x align 1,2,4..MaxAlign, several tag layouts, Cap slots and
   several admissible base addresses): object i is aligned, lies inside slot i behind its tag, inside the slab block,
   and is disjoint from every tag and from every other object.  `Padded = FALSE` is the mutant without pad_to_align():
   the lemma must FAIL for it (self-test, shows the lemma is not vacuous).
   Also: LayoutKey ((size << 32) | align in blind/layout_key.rs) is injective - checked with a W-bit shift for every
   pair of layouts whose align fits in W bits.                                                                  *)
EXTENDS Naturals, FiniteSets, TLC

CONSTANTS MaxSize, MaxAlign, Cap, Padded

Pow2UpTo(n) == { a \in 1..n : \E e \in 0..8 : a = 2^e }
Aligns == Pow2UpTo(MaxAlign)
RoundUp(x, a) == ((x + a - 1) \div a) * a
Max(a, b) == IF a >= b THEN a ELSE b

\* tag layouts <<size, align>>: the real SlotMeta (16, 8) and hypothetical other ones (a refactored tag)
Metas == { <<16, 8>>, <<8, 8>>, <<8, 4>>, <<24, 8>>, <<1, 1>>, <<4, 4>>, <<16, 16>>, <<12, 4>> }

VARIABLES sz, al, meta, baseMul
vars == <<sz, al, meta, baseMul>>

Init == /\ sz \in 1..MaxSize /\ al \in Aligns /\ meta \in Metas /\ baseMul \in {0, 1, 3}
Next == UNCHANGED vars
Spec == Init /\ [][Next]_vars

Off == RoundUp(meta[1], al)
SlotAlign == Max(meta[2], al)
Stride == IF Padded THEN RoundUp(Off + sz, SlotAlign) ELSE Off + sz
Base == baseMul * SlotAlign
TagAt(i) == Base + i * Stride
ObjAt(i) == Base + i * Stride + Off
Slots == 0..(Cap - 1)
Disjoint(a, alen, b, blen) == a + alen <= b \/ b + blen <= a

ObjectAligned == \A i \in Slots : ObjAt(i) % al = 0
TagAligned == \A i \in Slots : TagAt(i) % meta[2] = 0
InsideSlot == \A i \in Slots : /\ TagAt(i) + meta[1] <= ObjAt(i)
                               /\ ObjAt(i) + sz <= TagAt(i) + Stride
InsideSlab == \A i \in Slots : ObjAt(i) >= Base /\ ObjAt(i) + sz <= Base + Stride * Cap
NoOverlap == \A i, j \in Slots : /\ Disjoint(ObjAt(i), sz, TagAt(j), meta[1])
                                 /\ (i # j => Disjoint(ObjAt(i), sz, ObjAt(j), sz))
LayoutOK == ObjectAligned /\ TagAligned /\ InsideSlot /\ InsideSlab /\ NoOverlap

\* LayoutKey injectivity with a W-bit shift (W = 8: every align <= 128 fits)
W == 8
Key(s, a) == s * (2^W) + a
KeyInjective == \A s1, s2 \in 1..MaxSize, a1, a2 \in Aligns : Key(s1, a1) = Key(s2, a2) => (s1 = s2 /\ a1 = a2)
ASSUME KeyInjective
=============================================================================
