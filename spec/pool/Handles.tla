------------------------------ MODULE Handles ------------------------------
(* JUDGE for C02: "every pooled object is destroyed exactly once and pool accounting matches", on top of PoolAbs.

   Handles: [o: object, kind: "u" unique | "s" shared, view: "t" typed | "e" erased | "d" dyn].
   Two families, selected by the constant Owning:
     Owning = TRUE   managed / local pools (PooledMut, Pooled, LocalPooled.., BlindPooled..): handles own the object.
                     Dropping the unique handle destroys it; a shared family has ONE remover with a count `rc`
                     (Arc<Remover> / Rc<Remover> in the code), the object is destroyed when the count reaches 0.
                     The pool object itself is only one more owner of the storage: dropping it destroys nothing.
     Owning = FALSE  raw pools (RawPooledMut, RawPooled, RawBlindPooled..): handles are plain copies of a pointer,
                     remove(handle) destroys the object, dropping the pool destroys what is left (MayDropContents) or
                     panics iff something is left (MustNotDropContents).
   into_shared, clone, erase and the trait-object cast only change the handle, never the object.

   Used three ways: (1) TLC explores all histories within MaxObjs / MaxHandles and checks the invariants below
   (the remover-count scheme really destroys every object exactly once, never while an owning handle exists, never an
   extracted one); (2) its transition graph is exported as handle-level stimuli for the harness; (3) Trace_Handles
   replays recorded histories through the same actions and compares the drop counters, len / is_empty / capacity /
   iteration that the real pools reported (operators at the end of the module).                                  *)
EXTENDS PoolAbs

CONSTANTS MaxObjs,        \* objects inserted per history (exploration bound)
          MaxHandles,     \* handles per object (exploration bound)
          Fams            \* the families explored: set of [own: BOOLEAN, must: BOOLEAN]

(* Handles of one object are interchangeable up to their view, so the state keeps, per object, the kind of its handle
   family and HOW MANY handles of each view exist (the trace specification keeps the map handle id -> (object, view)). *)
VARIABLES fam,            \* [own |-> Owning, must |-> DropPolicy::MustNotDropContents (raw pools only)]; never changes
          hs,             \* function: object ever inserted -> [kind: "u" | "s", t, e, d: number of handles per view]
          rc,             \* function: object with a shared family -> remover count        (Owning only)
          dropCount,      \* function: every object ever inserted -> number of destructor runs
          extracted,      \* objects moved out by value (remove_unpin / into_inner)
          poolAlive,      \* the pool object has not been dropped
          panicked,       \* dropping the pool panicked
          nextObj,        \* object ids are never reused
          hlast           \* last operation, observation only (not in the VIEW)

hvars == <<fam, live, hs, rc, dropCount, extracted, poolAlive, panicked, nextObj, hlast>>
HView == <<fam, live, hs, rc, dropCount, extracted, poolAlive, panicked, nextObj>>

Owning == fam.own
MustNotDrop == fam.must

Views == {"t", "e", "d"}
Inserted == DOMAIN dropCount
NH(o) == hs[o].t + hs[o].e + hs[o].d
Cnt(o, w) == IF w = "t" THEN hs[o].t ELSE IF w = "e" THEN hs[o].e ELSE hs[o].d
NoHandles == [kind |-> "u", t |-> 0, e |-> 0, d |-> 0]
\* handle record of o with the count of view w changed by +1 (up = TRUE) or -1
Bump(o, w, up) ==
    LET n == IF up THEN Cnt(o, w) + 1 ELSE Cnt(o, w) - 1
    IN IF w = "t" THEN [hs[o] EXCEPT !.t = n] ELSE IF w = "e" THEN [hs[o] EXCEPT !.e = n] ELSE [hs[o] EXCEPT !.d = n]

Restrict(f, S) == [x \in S |-> f[x]]
Extend(f, x, y) == [z \in DOMAIN f \cup {x} |-> IF z = x THEN y ELSE f[z]]

HOp(name, o, w) == [op |-> name, o |-> o, w |-> w]

HInit == /\ Init
         /\ fam \in Fams
         /\ hs = << >> /\ rc = << >> /\ dropCount = << >>
         /\ extracted = {} /\ poolAlive = TRUE /\ panicked = FALSE
         /\ nextObj = 1
         /\ hlast = HOp("init", 0, "-")

\* the destructors of S run, the storage is released: every handle that still names these objects is gone with them
Destroy(S) ==
    /\ live' = Restrict(live, LiveObjs \ S)
    /\ dropCount' = [o \in Inserted |-> IF o \in S THEN dropCount[o] + 1 ELSE dropCount[o]]
    /\ hs' = [o \in Inserted |-> IF o \in S THEN NoHandles ELSE hs[o]]
    /\ rc' = Restrict(rc, DOMAIN rc \ S)

HInsertV(a, v, name) ==
    /\ poolAlive /\ nextObj <= MaxObjs
    /\ Insert(nextObj, a, v)
    /\ hs' = Extend(hs, nextObj, [kind |-> "u", t |-> 1, e |-> 0, d |-> 0])
    /\ dropCount' = Extend(dropCount, nextObj, 0)
    /\ nextObj' = nextObj + 1
    /\ hlast' = HOp(name, nextObj, "t")
    /\ UNCHANGED <<rc, extracted, poolAlive, panicked>>
HInsert(a, name) == HInsertV(a, nextObj, name)

\* the closure of insert_with panics: no object, no handle
HInsertWithPanic ==
    /\ poolAlive
    /\ hlast' = HOp("insert_with_panic", 0, "-")
    /\ UNCHANGED <<live, hs, rc, dropCount, extracted, poolAlive, panicked, nextObj>>

HasHandle(o, w) == o \in Inserted /\ Cnt(o, w) > 0

HShare(o, w) ==
    /\ HasHandle(o, w) /\ hs[o].kind = "u"
    /\ hs' = [hs EXCEPT ![o].kind = "s"]
    /\ rc' = IF Owning THEN Extend(rc, o, 1) ELSE rc
    /\ hlast' = HOp("share", o, w)
    /\ UNCHANGED <<live, dropCount, extracted, poolAlive, panicked, nextObj>>

HClone(o, w) ==
    /\ HasHandle(o, w) /\ hs[o].kind = "s"
    /\ NH(o) < MaxHandles
    /\ hs' = [hs EXCEPT ![o] = Bump(o, w, TRUE)]
    /\ rc' = IF Owning THEN [rc EXCEPT ![o] = @ + 1] ELSE rc
    /\ hlast' = HOp("clone", o, w)
    /\ UNCHANGED <<live, dropCount, extracted, poolAlive, panicked, nextObj>>

HErase(o, w) ==
    /\ w \in {"t", "d"} /\ HasHandle(o, w)
    /\ hs' = [hs EXCEPT ![o] = [Bump(o, w, FALSE) EXCEPT !.e = @ + 1]]
    /\ hlast' = HOp("erase", o, w)
    /\ UNCHANGED <<live, rc, dropCount, extracted, poolAlive, panicked, nextObj>>

HCast(o) ==
    /\ HasHandle(o, "t")
    /\ hs' = [hs EXCEPT ![o] = [@ EXCEPT !.t = @ - 1, !.d = @ + 1]]
    /\ hlast' = HOp("cast", o, "t")
    /\ UNCHANGED <<live, rc, dropCount, extracted, poolAlive, panicked, nextObj>>

\* Does dropping a handle of o destroy o?
DropDestroys(o) == Owning /\ (hs[o].kind = "u" \/ rc[o] = 1)

HDrop(o, w) ==
    /\ HasHandle(o, w)
    /\ hlast' = HOp("drop", o, w)
    /\ IF DropDestroys(o)
       THEN Destroy({o})
       ELSE /\ hs' = [hs EXCEPT ![o] = Bump(o, w, FALSE)]
            /\ rc' = IF Owning THEN [rc EXCEPT ![o] = @ - 1] ELSE rc
            /\ UNCHANGED <<live, dropCount>>
    /\ UNCHANGED <<extracted, poolAlive, panicked, nextObj>>

\* every handle of o is dropped in one step (the harness operation "destroy" on owning families; on raw families the
\* handles are merely forgotten)
HDropAll(o) ==
    /\ o \in Inserted /\ NH(o) > 0
    /\ hlast' = HOp("drop_all", o, "-")
    /\ IF Owning
       THEN Destroy({o})
       ELSE /\ hs' = [hs EXCEPT ![o] = NoHandles]
            /\ UNCHANGED <<live, dropCount, rc>>
    /\ UNCHANGED <<extracted, poolAlive, panicked, nextObj>>

\* RawOpaquePool::remove and friends (raw pools only; any handle of the object will do)
HRemove(o, w) ==
    /\ ~Owning /\ poolAlive /\ HasHandle(o, w)
    /\ hlast' = HOp("remove", o, w)
    /\ Destroy({o})
    /\ UNCHANGED <<extracted, poolAlive, panicked, nextObj>>

\* remove_unpin (raw: any typed handle) / into_inner (owning: the unique typed handle): the object leaves the pool by
\* value; its destructor does NOT run
HTake(o) ==
    /\ poolAlive /\ HasHandle(o, "t")
    /\ Owning => hs[o].kind = "u"
    /\ live' = Restrict(live, LiveObjs \ {o})
    /\ hs' = [hs EXCEPT ![o] = NoHandles]
    /\ rc' = Restrict(rc, DOMAIN rc \ {o})
    /\ extracted' = extracted \cup {o}
    /\ hlast' = HOp("takeh", o, "t")
    /\ UNCHANGED <<dropCount, poolAlive, panicked, nextObj>>

HDropPool ==
    /\ poolAlive
    /\ poolAlive' = FALSE
    /\ hlast' = HOp("drop_pool", 0, "-")
    /\ IF Owning
       THEN UNCHANGED <<live, hs, rc, dropCount, panicked>>           \* handles keep the storage alive
       ELSE /\ Destroy(LiveObjs)                                      \* Slab::drop destroys what is left ...
            /\ panicked' = (MustNotDrop /\ LiveObjs # {})             \* ... and then enforces the policy
    /\ UNCHANGED <<extracted, nextObj>>

HStep ==
    \/ \E a \in Addrs : HInsert(a, "insert") \/ HInsert(a, "insert_with")
    \/ HInsertWithPanic
    \/ \E o \in Inserted, w \in Views : HShare(o, w) \/ HClone(o, w) \/ HErase(o, w) \/ HDrop(o, w) \/ HRemove(o, w)
    \/ \E o \in Inserted : HCast(o) \/ HTake(o)
    \/ HDropPool
HNext == HStep /\ UNCHANGED fam

HSpec == HInit /\ [][HNext]_hvars

\* ------------------------------------------------------------ what TLC proves about the scheme
HTypeOK ==
    /\ DOMAIN hs = Inserted
    /\ \A o \in Inserted : /\ hs[o].kind \in {"u", "s"} /\ hs[o].t \in Nat /\ hs[o].e \in Nat /\ hs[o].d \in Nat
                           /\ dropCount[o] \in Nat
    /\ extracted \subseteq Inserted /\ LiveObjs \subseteq Inserted
    /\ poolAlive \in BOOLEAN /\ panicked \in BOOLEAN /\ fam \in Fams

DestroyedAtMostOnce == \A o \in Inserted : dropCount[o] <= 1
ExtractedNeverDestroyed == \A o \in extracted : dropCount[o] = 0
LiveNotDestroyed == \A o \in LiveObjs : dropCount[o] = 0 /\ o \notin extracted
\* exactly one of: alive, destroyed once, extracted
ExactlyOnce == \A o \in Inserted : (o \in LiveObjs) \/ (dropCount[o] = 1 /\ o \notin extracted)
                                   \/ (o \in extracted /\ dropCount[o] = 0)
\* a destructor never runs while a handle to the object exists (owning handles; raw handles are bare pointers whose
\* validity is the caller's obligation - the model discards them with the object)
NoHandleToDestroyed == \A o \in Inserted \ LiveObjs : NH(o) = 0
\* owning families: an object lives exactly as long as someone holds a handle; unique handles are unique
OwnershipOK == Owning => \A o \in LiveObjs : NH(o) >= 1 /\ (hs[o].kind = "u" => NH(o) = 1)
\* the remover count is the number of shared handles
RemoverCountOK == Owning => \A o \in LiveObjs :
                     IF hs[o].kind = "s" THEN o \in DOMAIN rc /\ rc[o] = NH(o) ELSE o \notin DOMAIN rc
\* raw pools: after the pool is gone nothing is alive, and the policy panics iff something was left
RawPoolDropOK == (~Owning /\ ~poolAlive) => LiveObjs = {}
PolicyOK == panicked => (~Owning /\ MustNotDrop /\ ~poolAlive)
\* owning pools: when every handle is gone every object has met its end
QuiescentOK == (Owning /\ \A o \in Inserted : NH(o) = 0) => LiveObjs = {}

PanicIffNonEmpty ==     \* action property: the policy panic happens exactly when a non-empty raw pool is dropped
    [][hlast'.op = "drop_pool" => (panicked' = (~Owning /\ MustNotDrop /\ LiveObjs # {}))]_hvars

\* ------------------------------------------------------------ judging what the real pools report (Trace_Handles)
\* capacity contract; lenG = live objects that share the layout (and therefore the inner pool) of the class concerned
CapacityInsertFailures(capBefore, capAfter, lenGBefore) ==
    Need(lenGBefore < capBefore => capAfter = capBefore, "capacity-grew-while-there-was-room")
    \cup Need(capAfter >= capBefore, "capacity-shrank-on-insert")
CapacityReserveFailures(capBefore, capAfter, lenG, n) ==
    Need(capAfter >= lenG + n, "reserve-did-not-make-room")
    \cup Need(capAfter >= capBefore, "capacity-shrank-on-reserve")
CapacityShrinkFailures(capBefore, capAfter, lenG) ==
    Need(capAfter <= capBefore, "capacity-grew-on-shrink")
    \cup Need(capAfter >= lenG, "capacity-below-len")

\* iteration: fwd, bwd, mix are sequences of addresses; L is the live function after the operation
SeqToSet(s) == { s[j] : j \in DOMAIN s }
RevSeq(s) == [j \in 1..Len(s) |-> s[Len(s) + 1 - j]]
IterationFailuresOn(L, fwd, bwd, mix) ==
    LET used == { L[o].a : o \in DOMAIN L }
        n == Cardinality(DOMAIN L)
    IN Need(Len(fwd) = n /\ SeqToSet(fwd) = used, "iteration-is-not-exactly-the-live-objects")
       \cup Need(Len(bwd) = Len(fwd) /\ bwd = RevSeq(fwd), "backward-iteration-is-not-the-reverse-of-forward")
       \cup Need(Len(mix) = n /\ SeqToSet(mix) = used, "double-ended-iteration-is-not-exactly-the-live-objects")
=============================================================================
