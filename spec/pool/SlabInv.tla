------------------------------ MODULE SlabInv ------------------------------
(* State predicates over ONE pool-state record of RawOpaquePool, parameterised by the slab capacity `cap` and the
   vacancy-bitmap block width `block`.  The same operators are
     - invariants of the explorer SlabPool.tla (cap = Cap, block = Block: 2..4), and
     - evaluated by Trace_PoolAbs / Trace_Handles on every state PROBED from the real code through hook H1
       (cap = the installed capacity override, block = 64).

   Pool-state record p (all indexes 1-based, the code's index + 1):
     p.slabs    sequence of slab records [meta, head, count]
                   meta[i] = 0          slot i carries the tag Occupied
                   meta[i] = n > 0      slot i carries the tag Vacant { next_free_slot_index = n-1 }, n is 1-based;
                                        the regular terminator is any n > cap
                   head                 Slab::next_free_slot_index + 1
                   count                Slab::count
     p.length   RawOpaquePool::length
     p.blocks   VacancyMap::blocks as a sequence of functions 1..block -> BOOLEAN (bit j of block b = slab (b-1)*block + j)
     p.lenBits  VacancyMap::len_bits
     p.nextVac  VacancyTracker::next_vacancy + 1, 0 = None

   "Sound" predicates are the ones every correct implementation of this design needs for C01 (a wrong value lets two
   objects share bytes); "Exact"/"Least"/"Leftover" are what THIS implementation maintains on top (needed for the C02
   accounting / reserve contract, or only for the implementation's own algorithm).                               *)
EXTENDS Naturals, Sequences, FiniteSets

NBlocks(n, block) == (n + block - 1) \div block

BitOf(blocks, i, block) == blocks[((i - 1) \div block) + 1][((i - 1) % block) + 1]

OccupiedSlots(sl, cap) == { i \in 1..cap : sl.meta[i] = 0 }
VacantSlots(sl, cap) == { i \in 1..cap : sl.meta[i] # 0 }

\* Follows the free list from index i. Returns the set of slots visited; the marker 0 is added when the walk
\* leaves the slab other than through the terminator, arrives at an occupied slot or revisits a slot.
RECURSIVE Walk(_, _, _, _)
Walk(sl, i, seen, cap) ==
    IF i > cap THEN seen
    ELSE IF i < 1 \/ i \in seen \/ sl.meta[i] = 0 THEN seen \cup {0}
    ELSE Walk(sl, sl.meta[i], seen \cup {i}, cap)

\* free list = the vacant slots, each exactly once, properly terminated
SlabFreeListOK(sl, cap) == Walk(sl, sl.head, {}, cap) = VacantSlots(sl, cap)

\* cached count = number of Occupied tags
SlabCountOK(sl, cap) == sl.count = Cardinality(OccupiedSlots(sl, cap))

\* the slot the next insert into this slab would use is vacant (only meaningful when the slab is not full)
SlabHeadVacant(sl, cap) == sl.count < cap => (sl.head \in 1..cap /\ sl.meta[sl.head] # 0)

RECURSIVE SumCounts(_, _)
SumCounts(slabs, k) == IF k = 0 THEN 0 ELSE slabs[k].count + SumCounts(slabs, k - 1)

PoolFreeListsOK(p, cap) == \A s \in 1..Len(p.slabs) : SlabFreeListOK(p.slabs[s], cap)
PoolCountsOK(p, cap) == \A s \in 1..Len(p.slabs) : SlabCountOK(p.slabs[s], cap)
PoolLengthOK(p) == p.length = SumCounts(p.slabs, Len(p.slabs))

VacantSlabs(p, cap) == { s \in 1..Len(p.slabs) : p.slabs[s].count < cap }

\* shape of the bitmap
PoolBitmapShapeOK(p, block) == /\ p.lenBits = Len(p.slabs)
                               /\ Len(p.blocks) = NBlocks(p.lenBits, block)

\* SOUND: whatever the index advertises as vacant really has a free slot (and exists)
PoolVacancySound(p, cap, block) ==
    /\ \A s \in 1..p.lenBits : BitOf(p.blocks, s, block) => (s <= Len(p.slabs) /\ p.slabs[s].count < cap)
    /\ p.nextVac # 0 => (p.nextVac \in 1..Len(p.slabs) /\ p.slabs[p.nextVac].count < cap)

\* COMPLETE: no vacancy is forgotten (what reserve() and capacity() rely on)
PoolVacancyComplete(p, cap, block) ==
    /\ \A s \in VacantSlabs(p, cap) : s <= p.lenBits /\ BitOf(p.blocks, s, block)
    /\ VacantSlabs(p, cap) # {} => p.nextVac # 0

\* this implementation's policy: the cached vacancy is the LOWEST vacant slab
PoolNextVacLeast(p, cap) ==
    p.nextVac = (LET V == VacantSlabs(p, cap) IN IF V = {} THEN 0 ELSE CHOOSE s \in V : \A t \in V : s <= t)

\* bits beyond len_bits in the last block are 1 - what makes VacancyMap::resize across a block boundary correct
PoolLeftoverOnes(p, block) ==
    \A b \in 1..Len(p.blocks), j \in 1..block : ((b - 1) * block + j > p.lenBits) => p.blocks[b][j]

PoolCapacityOK(p, cap) == Len(p.slabs) * cap >= p.length

\* the slot the next insert will write to is vacant: the address handed out is not in use
PoolInsertTargetVacant(p, cap) ==
    p.nextVac # 0 => /\ p.nextVac \in 1..Len(p.slabs)
                     /\ p.slabs[p.nextVac].head \in 1..cap
                     /\ p.slabs[p.nextVac].meta[p.slabs[p.nextVac].head] # 0
=============================================================================
