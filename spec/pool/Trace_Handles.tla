---------------------------- MODULE Trace_Handles ----------------------------
(* C02 trace judge.  Replays the histories recorded by harness/h_pool through the actions of Handles.tla and judges what
   the real pools reported after every operation:
     - the destructor log of the drop-counting payload: exactly the objects Handles says are destroyed by this
       operation, each once, none for extraction / conversions / panicking insert_with, values intact at destruction
     - the outcome (MustNotDropContents: dropping the pool panics iff it is not empty; nothing else panics)
     - len / is_empty / capacity (capacity contract of Handles!Capacity*Failures, per layout for blind pools)
     - forward, backward and double-ended iteration = the live objects, each exactly once
     - accounting part of the probed bookkeeping (SlabInv): pool length = sum of slab counts = objects located in the
       pool, slab count = objects located in the slab, no vacancy forgotten by the index.
   Rejected records are printed (REJECT + names of the failed requirements), the rest of that history is skipped.   *)
EXTENDS Handles, SlabInv, TraceLib

TNat == Nat
Big == 1000000000
AnyFam == { [own |-> a, must |-> b] : a \in BOOLEAN, b \in BOOLEAN }

VARIABLES l, cfg,
          hmap,      \* handle id -> [o, w]  (which object, which view)
          ocls,      \* object -> payload class
          caps       \* capacity per payload class as last reported
tvars == <<l, cfg, hmap, ocls, caps, fam, live, hs, rc, dropCount, extracted, poolAlive, panicked, nextObj, hlast>>
hstate == <<live, hs, rc, dropCount, extracted, poolAlive, panicked, nextObj, hlast>>

SameLayout(j, k) == cfg.cls[j + 1] = cfg.cls[k + 1]
\* live objects (of live function L) that share the layout - and therefore the storage - of class k
LenG(L, oc, k) == Cardinality({ o \in DOMAIN L : SameLayout(oc[o], k) })

\* the harness logs the bits below len_bits only (the last block may be shorter than 64)
ToBlocks(raw) == [b \in 1..Len(raw) |-> [j \in 1..Len(raw[b]) |-> raw[b][j] = 1]]
\* probe record -> pool-state record of SlabInv; p.slabs[s] = <<count, head, meta>>,
\* p.g = <<object size, object align, slab capacity, slot size, object offset, tag size, slab bytes, detailed>>
ToPool(p) == [slabs |-> [s \in 1..Len(p.slabs) |-> [count |-> p.slabs[s][1], head |-> p.slabs[s][2], meta |-> p.slabs[s][3]]],
              length |-> p.length, blocks |-> ToBlocks(p.blocks), lenBits |-> p.lenBits, nextVac |-> p.nextVac]
PSize(p) == p.g[1]
PAlign(p) == p.g[2]
PCap(p) == p.g[3]
PStride(p) == p.g[4]
PTag(p) == p.g[6]
PBytes(p) == p.g[7]
PDet(p) == p.g[8]

HandlesOfObj(o) == { h \in DOMAIN hmap : hmap[h].o = o }
HO(r) == hmap[r.h].o
HW(r) == hmap[r.h].w
AnyView(o) == CHOOSE w \in Views : Cnt(o, w) > 0

\* ---------------------------------------------------------------- what must have been destroyed by this operation
\* "any" = MustNotDropContents pool dropped: the contents may or may not be destroyed before the panic
ExpectedDrops(r) ==
    CASE r.op \in {"remove", "destroy"} -> {r.o}
      [] r.op = "drop" -> IF DropDestroys(HO(r)) THEN {HO(r)} ELSE {}
      [] r.op = "drop_pool" -> IF Owning THEN {} ELSE LiveObjs
      [] OTHER -> {}

DropFailures(r) ==
    LET n == Len(r.dr)
        who == { r.dr[j][1] : j \in 1..n }
        exp == ExpectedDrops(r)
        anyOk == r.op = "drop_pool" /\ ~Owning /\ MustNotDrop
    IN Need(0 \notin who, "destructor-ran-at-an-address-of-no-live-object")
       \cup Need(Cardinality(who) = n, "object-destroyed-twice")
       \cup Need(who \ {0} \subseteq exp, IF r.op = "take" THEN "destructor-ran-for-extracted-object"
                                        ELSE "object-destroyed-that-must-stay-alive")
       \cup Need(anyOk \/ exp \subseteq who, "object-not-destroyed")
       \cup Need(\A j \in 1..n : r.dr[j][1] \in LiveObjs => r.dr[j][2] = live[r.dr[j][1]].v, "value-changed-before-destruction")

ResultFailures(r) ==
    LET mustPanic == r.op = "drop_pool" /\ ~Owning /\ MustNotDrop /\ LiveObjs # {}
        ownPanic == r.op = "insert_with" /\ r.res = "panic" /\ r.own = 1
    IN IF mustPanic THEN Need(r.res = "panic", "non-empty-must-not-drop-pool-dropped-without-panic")
       ELSE IF r.res = "panic" /\ ~ownPanic
            THEN (IF r.op = "drop_pool" THEN {"pool-drop-panicked"} ELSE {"unexpected-panic"})
            ELSE IF r.op = "take" /\ r.res = "ok" THEN Need(r.tk = live[r.o].v, "extracted-value-differs") ELSE {}

\* ---------------------------------------------------------------- accounting after the operation
NewLive(r) ==
    LET gone == ToSet(r.gone)
        kept == LiveObjs \ gone
    IN IF r.res = "ok" /\ r.op \in {"insert", "insert_with"}
       THEN [p \in kept \cup {r.o} |-> IF p = r.o THEN [a |-> r.a, v |-> r.v] ELSE live[p]]
       ELSE [p \in kept |-> live[p]]
NewCls(r) == IF r.res = "ok" /\ r.op \in {"insert", "insert_with"}
             THEN [o \in DOMAIN ocls \cup {r.o} |-> IF o = r.o THEN r.k ELSE ocls[o]] ELSE ocls

CapFailures(L, oc, r) ==
    UNION { LET before == caps[k + 1]
                after == r.caps[k + 1]
                mine == (r.op \in {"insert", "insert_with", "reserve"}) /\ SameLayout(r.k, k)
            IN IF after < 0 THEN {}            \* class not usable with this pool type
               ELSE Need(after >= LenG(L, oc, k), "capacity-below-len")
               \cup (CASE r.op \in {"insert", "insert_with"} /\ mine ->
                            CapacityInsertFailures(before, after, LenG(live, ocls, k))
                       [] r.op = "reserve" /\ mine -> CapacityReserveFailures(before, after, LenG(L, oc, k), r.arg)
                       [] r.op = "shrink" -> CapacityShrinkFailures(before, after, LenG(L, oc, k))
                       [] OTHER -> Need(after = before, "capacity-changed-by-an-operation-that-must-not"))
          : k \in 0..(Len(r.caps) - 1) }

\* objects the harness located in pool pi / in slab si of pool pi (r.loc entries: <<o, class, pool, slab, offset>>)
InPool(r, pi) == { j \in 1..Len(r.loc) : r.loc[j][3] = pi }
InSlab(r, pi, si) == { j \in 1..Len(r.loc) : r.loc[j][3] = pi /\ r.loc[j][4] = si }
RECURSIVE SumLen(_, _)
SumLen(pr, n) == IF n = 0 THEN 0 ELSE pr[n].length + SumLen(pr, n - 1)

ProbeFailures(L, r) ==
    Need(SumLen(r.pr, Len(r.pr)) = Cardinality(DOMAIN L), "sum-of-pool-lengths-differs-from-live-objects")
    \cup UNION { LET p == r.pr[pi] IN
                 Need(p.length = Cardinality(InPool(r, pi)), "pool-length-differs-from-objects-located-in-it")
                 \cup (IF PDet(p) # 1 THEN {}
                       ELSE LET P == ToPool(p) IN
                            IF ~PoolBitmapShapeOK(P, 64) THEN {"vacancy-bitmap-shape-wrong"}
                            ELSE Need(PoolLengthOK(P), "pool-length-differs-from-slab-counts")
                                 \cup Need(\A si \in 1..Len(p.slabs) : p.slabs[si][1] = Cardinality(InSlab(r, pi, si)),
                                           "slab-count-differs-from-objects-located-in-it")
                                 \cup Need(PoolVacancyComplete(P, PCap(p), 64), "vacancy-forgotten-by-the-index"))
               : pi \in 1..Len(r.pr) }

PostFailures(L, oc, r) ==
    IF r.pl # 1 THEN {}
    ELSE Need(r.len = Cardinality(DOMAIN L), "len-differs-from-live-objects")
         \cup Need((r.emp = 1) = (Cardinality(DOMAIN L) = 0), "is_empty-disagrees-with-live-objects")
         \cup CapFailures(L, oc, r)
         \cup (IF r.full = 1
               THEN ProbeFailures(L, r)
                    \cup (IF cfg.it = 1 THEN IterationFailuresOn(L, r.fwd, r.bwd, r.mix) ELSE {})
               ELSE {})

\* ---------------------------------------------------------------- following the history with the Handles actions
WithoutObj(o) == [h \in DOMAIN hmap \ HandlesOfObj(o) |-> hmap[h]]
Keep == UNCHANGED <<hmap, ocls>>

Apply(r) ==
    CASE r.op \in {"insert", "insert_with"} /\ r.res = "ok" ->
              /\ r.o = nextObj /\ HInsertV(r.a, r.v, r.op)
              /\ hmap' = [h \in DOMAIN hmap \cup {r.h} |-> IF h = r.h THEN [o |-> r.o, w |-> "t"] ELSE hmap[h]]
              /\ ocls' = NewCls(r)
      [] r.op = "insert_with" /\ r.res = "panic" -> HInsertWithPanic /\ Keep
      [] r.op = "share" -> HShare(HO(r), HW(r)) /\ Keep
      [] r.op = "clone" -> /\ HClone(HO(r), HW(r))
                           /\ hmap' = [h \in DOMAIN hmap \cup {r.nh} |-> IF h = r.nh THEN hmap[r.h] ELSE hmap[h]]
                           /\ UNCHANGED ocls
      [] r.op = "erase" -> HErase(HO(r), HW(r)) /\ hmap' = [hmap EXCEPT ![r.h].w = "e"] /\ UNCHANGED ocls
      [] r.op = "cast" -> HW(r) = "t" /\ HCast(HO(r)) /\ hmap' = [hmap EXCEPT ![r.h].w = "d"] /\ UNCHANGED ocls
      [] r.op = "drop" -> /\ HDrop(HO(r), HW(r))
                          /\ hmap' = IF DropDestroys(HO(r)) THEN WithoutObj(HO(r))
                                     ELSE [h \in DOMAIN hmap \ {r.h} |-> hmap[h]]
                          /\ UNCHANGED ocls
      [] r.op = "remove" -> HRemove(HO(r), HW(r)) /\ hmap' = WithoutObj(HO(r)) /\ UNCHANGED ocls
      [] r.op = "take" -> HW(r) = "t" /\ HTake(HO(r)) /\ hmap' = WithoutObj(HO(r)) /\ UNCHANGED ocls
      [] r.op = "destroy" -> /\ (IF Owning THEN HDropAll(r.o) ELSE HRemove(r.o, AnyView(r.o)))
                             /\ hmap' = WithoutObj(r.o) /\ UNCHANGED ocls
      [] r.op \in {"reserve", "shrink"} -> UNCHANGED hstate /\ Keep
      [] r.op = "drop_pool" -> /\ HDropPool
                               /\ hmap' = IF Owning THEN hmap ELSE << >>
                               /\ UNCHANGED ocls
      [] OTHER -> FALSE

NextReset(i) == LET S == { j \in (i + 1)..NRec : Rec[j].ev = "reset" }
                IN IF S = {} THEN NRec + 1 ELSE CHOOSE j \in S : \A k \in S : j <= k

Reject(i, op, n, why) ==
    PrintT(<<"REJECT", ToJson([line |-> i, why |-> why, id |-> cfg.id, pt |-> cfg.pt, lay |-> cfg.lay, cap |-> cfg.cap,
                                fam |-> cfg.fam, op |-> op, n |-> n])>>)

Finish(i) == i <= NRec \/ PrintT(<<"TRACE-DONE", NRec>>)

Fresh == /\ live' = << >> /\ hs' = << >> /\ rc' = << >> /\ dropCount' = << >> /\ extracted' = {}
         /\ poolAlive' = TRUE /\ panicked' = FALSE /\ nextObj' = 1 /\ hlast' = HOp("init", 0, "-")
         /\ hmap' = << >> /\ ocls' = << >>

TraceInit == /\ l = 1 /\ cfg = [ev |-> "none"] /\ hmap = << >> /\ ocls = << >> /\ caps = <<0, 0, 0>>
             /\ fam = [own |-> FALSE, must |-> FALSE]
             /\ live = << >> /\ hs = << >> /\ rc = << >> /\ dropCount = << >> /\ extracted = {}
             /\ poolAlive = TRUE /\ panicked = FALSE /\ nextObj = 1 /\ hlast = HOp("init", 0, "-")

Skip(to) == /\ Fresh /\ l' = to /\ UNCHANGED <<cfg, fam, caps>> /\ Finish(to)

TraceNext ==
    /\ l <= NRec
    /\ LET r == Rec[l] IN
       CASE r.ev = "reset" ->
              /\ Fresh /\ cfg' = r /\ caps' = [k \in 1..Len(r.cls) |-> 0]
              /\ fam' = [own |-> r.own = 1, must |-> r.must = 1]
              /\ l' = l + 1 /\ Finish(l + 1)
         [] r.ev = "op" ->
              LET L == NewLive(r)
                  oc == NewCls(r)
                  rf == ResultFailures(r)
                  \* an unexpected panic ends the history; its record lacks the fields of a completed operation
                  why == IF r.res = "panic" /\ rf # {} THEN rf ELSE rf \cup DropFailures(r) \cup PostFailures(L, oc, r)
              IN IF why # {} THEN Reject(l, r.op, r.n, why) /\ Skip(NextReset(l))
                 ELSE \/ /\ Apply(r) /\ live' = L
                         /\ caps' = IF r.pl = 1 THEN r.caps ELSE caps
                         /\ l' = l + 1 /\ UNCHANGED <<cfg, fam>> /\ Finish(l + 1)
                      \/ /\ ~ENABLED (Apply(r) /\ live' = L)
                         /\ Reject(l, r.op, r.n, {"malformed-judge-cannot-follow-the-history"})
                         /\ Skip(NextReset(l))
         [] r.ev = "abort" -> Reject(l, "abort", 0, {"crash-of-the-code-under-test"}) /\ Skip(l + 1)
         [] OTHER -> /\ l' = l + 1 /\ UNCHANGED <<cfg, hmap, ocls, caps, fam, hstate>> /\ Finish(l + 1)

TraceSpec == TraceInit /\ [][TraceNext]_tvars
=============================================================================
