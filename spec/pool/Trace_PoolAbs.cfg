CONSTANTS Objs <- TNat  Addrs <- TNat  Vals <- TNat
SPECIFICATION TraceSpec
CHECK_DEADLOCK FALSE
