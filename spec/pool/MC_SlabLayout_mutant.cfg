CONSTANTS MaxSize = 40  MaxAlign = 64  Cap = 3  Padded = FALSE
SPECIFICATION Spec
INVARIANT LayoutOK
CHECK_DEADLOCK FALSE
