---------------------------- MODULE Trace_PoolAbs ----------------------------
(* C01 trace judge.  Replays the histories recorded by harness/h_pool through PoolAbs (Insert / Remove with the recorded
   parameters) and, after every operation, judges what was observed on the real pool:
     - through every live handle: address id, digest of the bytes read, ptr % align        (PoolAbs!HandleFailuresOn)
     - byte ranges of all live objects, rank-compressed                                    (PoolAbs!GeometryFailuresOn)
     - where each object lies inside the slabs reported by the H1 probe: inside an existing slab, inside one slot,
       disjoint from every occupancy tag, in the inner pool of its own layout, slot tagged Occupied
     - the SOUNDNESS invariants of the explorer (SlabInv) on the probed bookkeeping: free list = vacant slots,
       count = occupancy, the vacancy index never advertises a full slab, the next insert targets a vacant slot.
   A record that fails is printed as REJECT with the names of the failed requirements; the rest of that history is
   skipped (its state is no longer meaningful) and judging continues at the next `reset`.                        *)
EXTENDS PoolAbs, SlabInv, TraceLib

TNat == Nat

VARIABLES l, cfg
tvars == <<l, live, cfg>>

Size(k) == cfg.cls[k + 1][1]
Align(k) == cfg.cls[k + 1][2]

\* the harness logs the bits below len_bits only (the last block may be shorter than 64)
ToBlocks(raw) == [b \in 1..Len(raw) |-> [j \in 1..Len(raw[b]) |-> raw[b][j] = 1]]
\* probe record -> pool-state record of SlabInv; p.slabs[s] = <<count, head, meta>>,
\* p.g = <<object size, object align, slab capacity, slot size, object offset, tag size, slab bytes, detailed>>
ToPool(p) == [slabs |-> [s \in 1..Len(p.slabs) |-> [count |-> p.slabs[s][1], head |-> p.slabs[s][2], meta |-> p.slabs[s][3]]],
              length |-> p.length, blocks |-> ToBlocks(p.blocks), lenBits |-> p.lenBits, nextVac |-> p.nextVac]
PSize(p) == p.g[1]
PAlign(p) == p.g[2]
PCap(p) == p.g[3]
PStride(p) == p.g[4]
PTag(p) == p.g[6]
PBytes(p) == p.g[7]
PDet(p) == p.g[8]

ProbeFailures(p) ==
    IF PDet(p) # 1 THEN {}
    ELSE LET P == ToPool(p) IN
         IF ~PoolBitmapShapeOK(P, 64) THEN {"vacancy-bitmap-shape-wrong"}
         ELSE Need(PoolFreeListsOK(P, PCap(p)), "free-list-is-not-the-vacant-slots")
              \cup Need(PoolCountsOK(P, PCap(p)), "slab-count-differs-from-occupancy")
              \cup Need(PoolVacancySound(P, PCap(p), 64), "vacancy-index-advertises-full-or-missing-slab")
              \cup Need(PoolInsertTargetVacant(P, PCap(p)), "next-insert-would-reuse-an-occupied-slot")

\* e = <<object, class, pool index, slab index, offset inside the slab>> (indexes 1-based, 0 = not found)
LocFailures(r, e) ==
    IF e[3] = 0 \/ e[4] = 0 THEN {"object-outside-every-slab"}
    ELSE LET p == r.pr[e[3]]
             size == Size(e[2])
             rel == e[5]
             slot == rel \div PStride(p)
         IN Need(PSize(p) = size /\ PAlign(p) = Align(e[2]), "object-in-pool-of-another-layout")
            \cup Need(rel + size <= PBytes(p), "object-crosses-slab-end")
            \cup Need(rel >= slot * PStride(p) + PTag(p) /\ rel + size <= (slot + 1) * PStride(p), "object-overlaps-occupancy-tag")
            \cup (IF PDet(p) = 1 /\ slot < PCap(p)
                  THEN Need(p.slabs[e[4]][3][slot + 1] = 0, "slot-of-live-object-not-tagged-occupied")
                  ELSE {})

\* everything observed after the operation, judged against the live function L
ObsFailures(L, r) ==
    IF r.full # 1 THEN {}
    ELSE UNION { HandleFailuresOn(L, [o |-> r.hs[j][2], a |-> r.hs[j][3], v |-> r.hs[j][4], al |-> r.hs[j][5]])
                 \cup Need(r.hs[j][8] = 0, "dyn-view-sees-another-address") : j \in 1..Len(r.hs) }
         \cup GeometryFailuresOn(L, [j \in 1..Len(r.iv) |-> [o |-> r.iv[j][1], lo |-> r.iv[j][2], hi |-> r.iv[j][3]]])
         \cup (IF r.pl = 1
               THEN UNION { LocFailures(r, r.loc[j]) : j \in 1..Len(r.loc) }
                    \cup UNION { ProbeFailures(r.pr[j]) : j \in 1..Len(r.pr) }
               ELSE {})

\* the operation itself
OpFailures(r) ==
    IF r.res = "panic"
    THEN IF (r.op = "insert_with" /\ r.own = 1) \/ r.op = "drop_pool" THEN {} ELSE {"unexpected-panic"}
    ELSE IF r.op \in {"insert", "insert_with"}
         THEN Need(InsertOK(r.o, r.a), "insert-returned-address-in-use") ELSE {}

NewLive(r) ==
    LET gone == ToSet(r.gone)
        kept == LiveObjs \ gone
    IN IF r.res = "ok" /\ r.op \in {"insert", "insert_with"}
       THEN [p \in kept \cup {r.o} |-> IF p = r.o THEN [a |-> r.a, v |-> r.v] ELSE live[p]]
       ELSE [p \in kept |-> live[p]]

NextReset(i) == LET S == { j \in (i + 1)..NRec : Rec[j].ev = "reset" }
                IN IF S = {} THEN NRec + 1 ELSE CHOOSE j \in S : \A k \in S : j <= k

Reject(i, r, why) ==
    PrintT(<<"REJECT", ToJson([line |-> i, why |-> why, id |-> cfg.id, pt |-> cfg.pt, lay |-> cfg.lay, cap |-> cfg.cap,
                                fam |-> cfg.fam, op |-> r.op, n |-> r.n])>>)

TraceInit == l = 1 /\ live = << >> /\ cfg = [ev |-> "none"]

Finish(i) == i <= NRec \/ PrintT(<<"TRACE-DONE", NRec>>)

TraceNext ==
    /\ l <= NRec
    /\ LET r == Rec[l] IN
       CASE r.ev = "reset" -> /\ live' = << >> /\ cfg' = r /\ l' = l + 1 /\ Finish(l + 1)
         [] r.ev = "op" ->
              LET L == NewLive(r)
                  why == OpFailures(r) \cup ObsFailures(L, r)
              IN IF why = {}
                 THEN /\ live' = L /\ l' = l + 1 /\ UNCHANGED cfg /\ Finish(l + 1)
                 ELSE /\ Reject(l, r, why)
                      /\ live' = << >> /\ l' = NextReset(l) /\ UNCHANGED cfg /\ Finish(NextReset(l))
         [] r.ev = "abort" ->
              /\ PrintT(<<"REJECT", ToJson([line |-> l, why |-> {"crash-of-the-code-under-test"}, id |-> cfg.id,
                                            pt |-> cfg.pt, lay |-> cfg.lay, cap |-> cfg.cap, fam |-> cfg.fam,
                                            op |-> "abort", n |-> 0])>>)
              /\ l' = l + 1 /\ UNCHANGED <<live, cfg>> /\ Finish(l + 1)
         [] OTHER -> /\ l' = l + 1 /\ UNCHANGED <<live, cfg>> /\ Finish(l + 1)

TraceSpec == TraceInit /\ [][TraceNext]_tvars
=============================================================================
