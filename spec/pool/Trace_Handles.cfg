CONSTANTS Objs <- TNat  Addrs <- TNat  Vals <- TNat  MaxObjs <- Big  MaxHandles <- Big  Fams <- AnyFam
SPECIFICATION TraceSpec
CHECK_DEADLOCK FALSE
