------------------------------ MODULE VacancyMap ------------------------------
(* The vacancy bitmap on its own (opaque/vacancy_map.rs): blocks of `Block` bits (64 in the code), len_bits, the
   leftover bits of the last block, resize / replace_unchecked / get(range).first_one() step for step as coded,
   checked against the obvious abstract bit sequence `abs`.

   resize(n, v) as coded sets the fresh bits of an old partial block only when the number of blocks stays the same,
   and then only `old % Block .. n % Block` (nothing when n is a multiple of Block); otherwise it relies on the leftover
   bits of the old last block already being equal to v.  The pool only ever calls resize(_, true), clears bits below
   len_bits, and truncates slabs that are empty (= whose bit is 1), so every leftover bit is always 1: with
   PoolUsage = TRUE TLC proves the refinement and LeftoverOnes.  With PoolUsage = FALSE (any caller: resize(_, false),
   truncating 0-bits) the refinement FAILS - a latent defect of VacancyMap as a general data structure that
   RawOpaquePool cannot trigger; it is reported as a note, not as a violation of C01.                             *)
EXTENDS Naturals, Sequences, FiniteSets, TLC

CONSTANTS Block, MaxLen, PoolUsage

VARIABLES blocks, lenBits, abs
vars == <<blocks, lenBits, abs>>

NBlocks(n) == (n + Block - 1) \div Block
BitAt(i) == blocks[((i - 1) \div Block) + 1][((i - 1) % Block) + 1]          \* i is 1-based
BlockOf(v) == [j \in 1..Block |-> v]

Init == blocks = << >> /\ lenBits = 0 /\ abs = << >>

\* resize(len_bits, initial_value)
Resize(n, v) ==
    /\ n \in 0..MaxLen /\ n # lenBits
    /\ PoolUsage => (v = TRUE /\ \A i \in (n + 1)..lenBits : abs[i])        \* pool: only vacant slabs are truncated
    /\ LET oldB == NBlocks(lenBits)
           newB == NBlocks(n)
       IN IF n > lenBits
          THEN LET grown == [b \in 1..newB |-> IF b <= oldB THEN blocks[b] ELSE BlockOf(v)]
               IN blocks' = IF (lenBits % Block # 0) /\ oldB = newB
                            THEN [grown EXCEPT ![oldB] = [j \in 1..Block |->
                                      IF j > (lenBits % Block) /\ j <= (n % Block) THEN v ELSE @[j]]]
                            ELSE grown
          ELSE blocks' = SubSeq(blocks, 1, newB)
    /\ lenBits' = n
    /\ abs' = IF n > lenBits THEN abs \o [j \in 1..(n - lenBits) |-> v] ELSE SubSeq(abs, 1, n)

\* replace_unchecked(index, value)
Replace(i, v) ==
    /\ i \in 1..lenBits
    /\ blocks' = [blocks EXCEPT ![((i - 1) \div Block) + 1][((i - 1) % Block) + 1] = v]
    /\ abs' = [abs EXCEPT ![i] = v]
    /\ UNCHANGED lenBits

Next == \/ \E n \in 0..MaxLen, v \in BOOLEAN : Resize(n, v)
        \/ \E i \in 1..MaxLen, v \in BOOLEAN : Replace(i, v)
Spec == Init /\ [][Next]_vars

\* get(start..end).first_one() as coded: block by block with a mask; start, end 0-based, end exclusive; result is the
\* index relative to start, or -1 (None) encoded as MaxLen + 1
None == MaxLen + 1
RECURSIVE Scan(_, _, _)
Scan(start0, cur, remaining) ==
    IF remaining = 0 THEN None
    ELSE LET bi == cur \div Block
             sib == cur % Block
             eib == IF sib + remaining < Block THEN sib + remaining ELSE Block          \* exclusive
             hits == { j \in sib..(eib - 1) : blocks[bi + 1][j + 1] }                   \* mask_bits(block, sib, eib-1)
         IN IF hits # {}
            THEN (bi * Block + (CHOOSE j \in hits : \A k \in hits : j <= k)) - start0   \* trailing_zeros
            ELSE Scan(start0, cur + (eib - sib), remaining - (eib - sib))
FirstOneImpl(start, end) == Scan(start, start, end - start)
FirstOneAbs(start, end) ==
    LET S == { i \in start..(end - 1) : abs[i + 1] }
    IN IF S = {} THEN None ELSE (CHOOSE i \in S : \A k \in S : i <= k) - start

TypeOK == lenBits \in 0..MaxLen /\ Len(abs) = lenBits /\ Len(blocks) = NBlocks(lenBits)
Refines == \A i \in 1..lenBits : BitAt(i) = abs[i]
FirstOneOK == \A s \in 0..lenBits, e \in 0..lenBits : s <= e => FirstOneImpl(s, e) = FirstOneAbs(s, e)
LeftoverOnes == \A b \in 1..Len(blocks), j \in 1..Block : ((b - 1) * Block + j > lenBits) => blocks[b][j]
=============================================================================
