------------------------------ MODULE SlabPool ------------------------------
(* EXPLORER for C01/C02: implementation-shaped model of infinity_pool's storage layer.

     RawOpaquePool   (opaque/pool_raw.rs)        slabs, length, vacancy tracker; insert / insert_with / remove /
                                                 remove_unpin / reserve / shrink_to_fit
     Slab            (opaque/slab.rs)            occupancy tags with the intrusive free list, head, count
     VacancyTracker  (opaque/vacancy_tracker.rs) bitmap + cached lowest vacant slab
     VacancyMap      (opaque/vacancy_map.rs)     blocks of `Block` bits, len_bits, resize EXACTLY as coded (the fresh
                                                 bits of an old partial block are set only if the number of blocks
                                                 does not change and only up to `len % Block`), leftover bits kept
     RawBlindPool    (blind/pool_raw.rs)         map LayoutKey -> RawOpaquePool, inner pools created on first use

   One action per public operation (each is one critical section of the managed pools).  All nine pool types wrap
   this layer, so its histories are replayed on all of them.

   Indexes are 1-based (code index + 1).  A slot tag is 0 (Occupied) or n > 0 (Vacant, next = n, terminator Cap+1).
   `debug_assert!`s and `unreachable!`s of the code are TLC `Assert`s: reaching one is an error of the model run.

   Deliberate deviations: (1) the bound MaxSlabs (an insert/reserve that would need more slabs is disabled);
   (2) first_one() is modelled by its result (the block-wise loop is in VacancyMap.tla); (3) objects have no
   contents here - an object IS its address <<key, slab, slot>>, exactly like a handle of the code stores its pointer. *)
EXTENDS Naturals, Sequences, FiniteSets, TLC, SlabInv

CONSTANTS Cap,         \* slots per slab (hook H1 makes the real slabs this wide)
          Block,       \* bits per vacancy-map block (64 in the code)
          MaxSlabs,    \* bound on slabs per inner pool
          MaxReserve,  \* bound on the argument of reserve
          Keys         \* layout keys of the blind layer, a set 1..n (one key = a plain opaque/pinned pool)

VARIABLES pools,       \* [Keys -> pool-state record of SlabInv + field `exists`]
          last         \* the operation that produced this state (observation only; not part of VIEW)
vars == <<pools, last>>

Slots == 1..Cap
NewSlab == [meta |-> [i \in Slots |-> i + 1], head |-> 1, count |-> 0]
NoPool == [exists |-> FALSE, slabs |-> <<>>, length |-> 0, blocks |-> <<>>, lenBits |-> 0, nextVac |-> 0]
EmptyPool == [NoPool EXCEPT !.exists = TRUE]
FullBlock == [j \in 1..Block |-> TRUE]
NoOp == [op |-> "init", k |-> 0, s |-> 0, i |-> 0, n |-> 0]

Capacity(p) == Len(p.slabs) * Cap

\* ------------------------------------------------------------ VacancyMap
\* VacancyMap::resize(n, true)
Resize(blocks, old, n) ==
    LET oldB == NBlocks(old, Block)
        newB == NBlocks(n, Block)
    IN IF n > old
       THEN LET grown == [b \in 1..newB |-> IF b <= oldB THEN blocks[b] ELSE FullBlock]
            IN IF (old % Block # 0) /\ oldB = newB
               THEN [grown EXCEPT ![oldB] = [j \in 1..Block |->
                                                IF j > (old % Block) /\ j <= (n % Block) THEN TRUE ELSE @[j]]]
               ELSE grown
       ELSE SubSeq(blocks, 1, newB)

\* VacancyMap::replace_unchecked
SetBit(blocks, i, v) == [blocks EXCEPT ![((i - 1) \div Block) + 1][((i - 1) % Block) + 1] = v]

\* get(from..).first_one(): least index >= from (within nbits) whose bit is set; 0 = None
FirstOneFrom(blocks, nbits, from) ==
    LET S == { i \in from..nbits : BitOf(blocks, i, Block) }
    IN IF S = {} THEN 0 ELSE CHOOSE i \in S : \A j \in S : i <= j

\* ------------------------------------------------------------ VacancyTracker
UpdSlabCount(p, n) ==
    IF ~Assert(n # p.lenBits, "debug_assert_ne!(previous_count, count) in update_slab_count") THEN p
    ELSE [p EXCEPT !.blocks = Resize(p.blocks, p.lenBits, n),
                   !.lenBits = n,
                   !.nextVac = IF n > p.lenBits THEN (IF p.nextVac = 0 THEN p.lenBits + 1 ELSE p.nextVac)
                               ELSE (IF p.nextVac # 0 /\ p.nextVac > n THEN 0 ELSE p.nextVac)]

UpdSlabStatus(p, s, v) ==
    IF ~Assert(BitOf(p.blocks, s, Block) # v, "debug_assert_ne!(has_vacancy, previous) in update_slab_status") THEN p
    ELSE LET nb == SetBit(p.blocks, s, v)
         IN IF v THEN [p EXCEPT !.blocks = nb,
                                !.nextVac = IF p.nextVac = 0 \/ s < p.nextVac THEN s ELSE p.nextVac]
            ELSE [p EXCEPT !.blocks = nb,
                           !.nextVac = IF p.nextVac = s THEN FirstOneFrom(nb, p.lenBits, s + 1) ELSE p.nextVac]

\* ------------------------------------------------------------ RawOpaquePool
\* allocate_slab_for_insert
AllocateSlab(p) ==
    IF ~Assert(p.length = Capacity(p), "debug_assert_eq!(len, capacity) in allocate_slab_for_insert") THEN p
    ELSE UpdSlabCount([p EXCEPT !.slabs = Append(p.slabs, NewSlab)], Len(p.slabs) + 1)

\* index_of_slab_to_insert_into: <<pool afterwards, slab index>>
IndexToInsert(p) == IF p.nextVac # 0 THEN <<p, p.nextVac>> ELSE <<AllocateSlab(p), Len(p.slabs) + 1>>

CanInsert(p) == p.nextVac # 0 \/ Len(p.slabs) < MaxSlabs

\* insert_with_unchecked after the closure returned: Slab::insert_with_unchecked, length, vacancy update
InsertInto(p) ==
    LET t == IndexToInsert(p)
        p1 == t[1]
        s == t[2]
        sl == p1.slabs[s]
        i == sl.head
        prev == sl.meta[i]
        nsl == [meta |-> [sl.meta EXCEPT ![i] = 0], head |-> prev, count |-> sl.count + 1]
        p2 == [p1 EXCEPT !.slabs[s] = nsl, !.length = @ + 1]
        p3 == IF nsl.count = Cap THEN UpdSlabStatus(p2, s, FALSE) ELSE p2
    IN IF ~Assert(prev # 0, "unreachable!(slot was already occupied) in Slab::insert_with_unchecked")
       THEN [p |-> p, s |-> s, i |-> i]
       ELSE [p |-> p3, s |-> s, i |-> i]

\* remove / remove_unpin
RemoveFrom(p, s, i) ==
    LET sl == p.slabs[s]
        nsl == [meta |-> [sl.meta EXCEPT ![i] = sl.head], head |-> i, count |-> sl.count - 1]
        p1 == [p EXCEPT !.slabs[s] = nsl, !.length = @ - 1]
    IN IF nsl.count = Cap - 1 THEN UpdSlabStatus(p1, s, TRUE) ELSE p1

ReserveSlabs(p, n) == ((p.length + n) + Cap - 1) \div Cap        \* div_ceil

ReserveIn(p, n) ==
    IF Capacity(p) >= p.length + n THEN p
    ELSE LET req == ReserveSlabs(p, n)
         IN UpdSlabCount([p EXCEPT !.slabs = p.slabs \o [j \in 1..(req - Len(p.slabs)) |-> NewSlab]], req)

ShrinkIn(p) ==
    LET nonEmpty == { s \in 1..Len(p.slabs) : p.slabs[s].count > 0 }
        newLen == IF nonEmpty = {} THEN 0 ELSE CHOOSE s \in nonEmpty : \A t \in nonEmpty : t <= s
    IN IF newLen = Len(p.slabs) THEN p
       ELSE UpdSlabCount([p EXCEPT !.slabs = SubSeq(p.slabs, 1, newLen)], newLen)

\* ------------------------------------------------------------ blind layer + actions
\* inner_pool_mut: the inner pool for a layout key is created on first use (insert, insert_with, reserve_for)
Ensure(p) == IF p.exists THEN p ELSE EmptyPool

Init == /\ pools = [k \in Keys |-> NoPool]
        /\ last = NoOp

DoInsert(k, name) ==
    LET p == Ensure(pools[k]) IN
    /\ CanInsert(p)
    /\ LET r == InsertInto(p) IN
       /\ pools' = [pools EXCEPT ![k] = r.p]
       /\ last' = [op |-> name, k |-> k, s |-> r.s, i |-> r.i, n |-> 0]

Insert(k) == DoInsert(k, "insert")
InsertWithOk(k) == DoInsert(k, "insert_with")

\* the closure panics: the inner pool and (if all slabs were full) a fresh slab exist already, nothing else happened
InsertWithPanic(k) ==
    LET p == Ensure(pools[k]) IN
    /\ CanInsert(p)
    /\ pools' = [pools EXCEPT ![k] = IndexToInsert(p)[1]]
    /\ last' = [op |-> "insert_with_panic", k |-> k, s |-> 0, i |-> 0, n |-> 0]

IsOccupied(k, s, i) == /\ pools[k].exists
                       /\ s \in 1..Len(pools[k].slabs)
                       /\ i \in Slots
                       /\ pools[k].slabs[s].meta[i] = 0

DoRemove(k, s, i, name) ==
    /\ IsOccupied(k, s, i)
    /\ pools' = [pools EXCEPT ![k] = RemoveFrom(pools[k], s, i)]
    /\ last' = [op |-> name, k |-> k, s |-> s, i |-> i, n |-> 0]

Remove(k, s, i) == DoRemove(k, s, i, "remove")
RemoveUnpin(k, s, i) == DoRemove(k, s, i, "remove_unpin")

Reserve(k, n) ==
    LET p == Ensure(pools[k]) IN
    /\ (Capacity(p) >= p.length + n \/ ReserveSlabs(p, n) <= MaxSlabs)
    /\ pools' = [pools EXCEPT ![k] = ReserveIn(p, n)]
    /\ last' = [op |-> "reserve", k |-> k, s |-> 0, i |-> 0, n |-> n]

\* RawBlindPool::shrink_to_fit shrinks every inner pool
ShrinkToFit ==
    /\ pools' = [k \in Keys |-> IF pools[k].exists THEN ShrinkIn(pools[k]) ELSE pools[k]]
    /\ last' = [op |-> "shrink_to_fit", k |-> 0, s |-> 0, i |-> 0, n |-> 0]

Next ==
    \/ \E k \in Keys : Insert(k) \/ InsertWithOk(k) \/ InsertWithPanic(k)
    \/ \E k \in Keys, s \in 1..MaxSlabs, i \in Slots : Remove(k, s, i) \/ RemoveUnpin(k, s, i)
    \/ \E k \in Keys, n \in 1..MaxReserve : Reserve(k, n)
    \/ ShrinkToFit

Spec == Init /\ [][Next]_vars

View == pools

\* ------------------------------------------------------------ invariants
Existing == { k \in Keys : pools[k].exists }

TypeOK ==
    /\ \A k \in Keys :
        LET p == pools[k] IN
        /\ p.exists \in BOOLEAN
        /\ p.length \in Nat /\ p.lenBits \in 0..MaxSlabs /\ p.nextVac \in 0..MaxSlabs
        /\ Len(p.slabs) <= MaxSlabs
        /\ \A s \in 1..Len(p.slabs) : /\ p.slabs[s].count \in 0..Cap
                                      /\ p.slabs[s].head \in 1..(Cap + 1)
                                      /\ \A i \in Slots : p.slabs[s].meta[i] \in 0..(Cap + 1)
        /\ \A b \in 1..Len(p.blocks), j \in 1..Block : p.blocks[b][j] \in BOOLEAN
    /\ last.op \in {"init", "insert", "insert_with", "insert_with_panic", "remove", "remove_unpin", "reserve",
                    "shrink_to_fit"}

NeverCreatedIsEmpty == \A k \in Keys \ Existing : pools[k] = NoPool
FreeListOK == \A k \in Existing : PoolFreeListsOK(pools[k], Cap)
CountsOK == \A k \in Existing : PoolCountsOK(pools[k], Cap)
LengthOK == \A k \in Existing : PoolLengthOK(pools[k])
BitmapShapeOK == \A k \in Existing : PoolBitmapShapeOK(pools[k], Block)
VacancySound == \A k \in Existing : PoolVacancySound(pools[k], Cap, Block)
VacancyComplete == \A k \in Existing : PoolVacancyComplete(pools[k], Cap, Block)
NextVacLeast == \A k \in Existing : PoolNextVacLeast(pools[k], Cap)
LeftoverOnes == \A k \in Existing : PoolLeftoverOnes(pools[k], Block)
CapacityOK == \A k \in Existing : PoolCapacityOK(pools[k], Cap)
InsertTargetVacant == \A k \in Existing : PoolInsertTargetVacant(pools[k], Cap)

\* The addresses in use.  A handle of the code stores <<layout key, slab index, slot pointer>>; a slab's heap block
\* never moves while the slab exists, so <<k, s, i>> of an existing slab IS a stable machine address.
AllAddrs == Keys \X (1..MaxSlabs) \X Slots
OccAddrs == { a \in AllAddrs : IsOccupied(a[1], a[2], a[3]) }

LengthIsLive == \A k \in Existing : pools[k].length = Cardinality({ a \in OccAddrs : a[1] = k })

\* ADDRESS STABILITY AND EXCLUSIVITY as an action property: the set of addresses in use changes only by the slot an
\* insert hands out (which must not be in use) and the slot a remove names.  In particular reserve, shrink_to_fit,
\* a panicking insert_with and every vacancy update leave every live object where it is, with its tag Occupied.
StepOK ==
    LET ins == IF last'.op \in {"insert", "insert_with"} THEN {<<last'.k, last'.s, last'.i>>} ELSE {}
        rem == IF last'.op \in {"remove", "remove_unpin"} THEN {<<last'.k, last'.s, last'.i>>} ELSE {}
    IN /\ ins \cap OccAddrs = {}
       /\ rem \subseteq OccAddrs
       /\ OccAddrs' = (OccAddrs \ rem) \cup ins
StableExclusive == [][StepOK]_vars

\* capacity contract (C02): reserve(n) makes room for n more; inserting while there is room does not grow capacity;
\* only shrink_to_fit releases capacity
CapacityStepOK ==
    \A k \in Keys :
        LET p == pools[k]
            q == pools'[k]
        IN /\ (last'.op = "reserve" /\ last'.k = k) => Capacity(q) >= q.length + last'.n
           /\ (last'.op \in {"insert", "insert_with", "insert_with_panic"} /\ last'.k = k /\ p.length < Capacity(p))
                 => Capacity(q) = Capacity(p)
           /\ last'.op # "shrink_to_fit" => Capacity(q) >= Capacity(p)
           /\ last'.op = "shrink_to_fit" => (Capacity(q) <= Capacity(p) /\ Capacity(q) >= q.length)
           /\ (last'.op \in {"remove", "remove_unpin"} \/ last'.k # k) => (last'.op = "shrink_to_fit" \/ Capacity(q) = Capacity(p))
CapacityContract == [][CapacityStepOK]_vars

\* REFINEMENT to the judge: object identity = its address, value constant
LiveFn == [a \in OccAddrs |-> [a |-> a, v |-> 1]]
Abs == INSTANCE PoolAbs WITH Objs <- AllAddrs, Addrs <- AllAddrs, Vals <- {1}, live <- LiveFn
RefinesPoolAbs == Abs!Spec
=============================================================================
