CONSTANTS Cap = 2  Block = 2  MaxSlabs = 4  MaxReserve = 3  Keys <- OneKey
SPECIFICATION Spec
VIEW View
INVARIANTS TypeOK NeverCreatedIsEmpty FreeListOK CountsOK LengthOK BitmapShapeOK VacancySound VacancyComplete NextVacLeast LeftoverOnes CapacityOK InsertTargetVacant LengthIsLive
PROPERTIES StableExclusive CapacityContract RefinesPoolAbs
CHECK_DEADLOCK FALSE
