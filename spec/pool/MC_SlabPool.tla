---------------------------- MODULE MC_SlabPool ----------------------------
(* TLC-only definitions for the explorer: constants for the blind layer and the stimulus generator.
   Generator: with ACTION_CONSTRAINT EdgeOut TLC prints every transition of the reachable graph once
   (from-state, operation, to-state as JSON); checks/pool_common.py turns the graph into covering walks.   *)
EXTENDS SlabPool, Json

OneKey == {1}
TwoKeys == {1, 2}

EdgeOut == PrintT(<<"EDGE", ToJson([f |-> pools, op |-> last', t |-> pools'])>>)
=============================================================================
