---------------------------- MODULE MC_Handles ----------------------------
(* TLC-only definitions for Handles: exploration constants and the stimulus generator (every transition printed once). *)
EXTENDS Handles, Json

ObjsDef == 1..MaxObjs
AddrsDef == 1..MaxObjs
ValsDef == 1..MaxObjs
Fams_TRUE_FALSE == {[own |-> TRUE, must |-> FALSE]}
Fams_FALSE_FALSE == {[own |-> FALSE, must |-> FALSE]}
Fams_FALSE_TRUE == {[own |-> FALSE, must |-> TRUE]}
FamsAll == Fams_TRUE_FALSE \cup Fams_FALSE_FALSE \cup Fams_FALSE_TRUE

\* the state as seen by the generator
HState == [fam |-> fam, live |-> { o \in LiveObjs : TRUE }, hs |-> hs, rc |-> { <<o, rc[o]>> : o \in DOMAIN rc },
           dc |-> dropCount, ex |-> extracted, alive |-> poolAlive, pan |-> panicked, no |-> nextObj]
HEdgeOut == PrintT(<<"EDGE", ToJson([f |-> HState, op |-> hlast', t |-> HState'])>>)
=============================================================================
