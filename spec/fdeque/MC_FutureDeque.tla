---- MODULE MC_FutureDeque ----
EXTENDS FutureDeque, Json
\* Generator: a complete behaviour (stimulus + schedule for the harness) is printed when all threads are done.
GenBeh == AllDone => PrintT(<<"BEH", ToJson(hist)>>)
\* The checked invariants, printing the behaviour that violates them as JSON so that the harness can replay it.
JudgeOkP == JudgeOk \/ (PrintT(<<"CEX", ToJson(hist)>>) /\ FALSE)
EndOkP == EndOk \/ (PrintT(<<"CEX", ToJson(hist)>>) /\ FALSE)
====
