------------------------------ MODULE FutureDeque ------------------------------
(* EXPLORER for C15: packages/future_deque/src/{future_deque_core.rs, waker_meta.rs} (FutureDeque and
   LocalFutureDeque are thin wrappers over the same core), driven the way harness h_fdeque drives the real crate.

   One action per SCHEDULING POINT of the instrumented build: the action performs the operation the thread was
   parked in front of ("dop" = next deque operation, "rop" = next remote waker operation, "rc.fadd", "rc.fsub",
   "act.swap", "parent.lock" = shimmed atomic / mutex operations of waker_meta.rs, "pwake" = waking a parent waker)
   and everything the thread does afterwards up to its next scheduling point, exactly like the deterministic
   scheduler of the harness runs it.  The critical section of the parent mutex contains no scheduling point and is
   therefore part of the "parent.lock" action.  Every action hands the API-level events it produces, in the order
   the harness would log them, to the judge (FutureDequeAbs!JNext); TLC checks J.ok in every reachable state.

   Threads: task 0 owns the deque and runs a nondeterministically chosen sequence of push_front / push_back / poll /
   poll_front / poll_back / pop_front / pop_back and finally drop; contained futures are scripts whose behaviour at
   the k-th poll is chosen nondeterministically: "silent" (Pending), "wake" (wake_by_ref on its own waker, then
   Pending), "hand<t>" (clone the waker, give the clone to remote thread t, Pending), "ready".  Remote threads run
   wake_by_ref / wake / clone / drop on wakers they were given, and drop what is left once the deque is gone.

   `hist` records (task, scheduling point, choice) per action: a behaviour of this spec is a stimulus + schedule
   for the harness (MC_FutureDeque prints it).  It is hidden from TLC's fingerprint by VIEW.

   Mut seeds a defect into the MODEL (self-test of the explorer/judge pair, see checks/c15.py selftest):
     "none" | "check_load_store" | "wake_only_if_set" | "no_parent_update" | "push_front_at_back" | "early_free" *)
EXTENDS FutureDequeAbs, TLC

CONSTANTS NF,         \* futures pushed at most (= MaxF of the judge)
          Remotes,    \* remote task ids, subset of 1..MaxT
          Parents,    \* parent waker ids
          MaxDOps,    \* deque operations before the final drop
          MinDOps,    \* the deque is not dropped before this many operations (0 for exhaustive runs; >0 steers simulation)
          MaxPolls,   \* a future completes at its MaxPolls-th poll at the latest
          MaxROps,    \* scripted operations per remote thread
          MaxHeld,    \* waker clones a remote thread holds at most
          Mut,
          RecordHist  \* TRUE: hist records the behaviour (generator, counterexample export; use VIEW view); FALSE: hist stays empty

VARIABLES slots,      \* the VecDeque: sequence of [f, st], st = "p" (Pending{handle, meta, waker}) | "r" (Ready{value})
          meta,       \* f -> [rc, act, st]   WakerMeta of future f: ref_count, activated, st = none | live | freed
          parent,     \* the Waker stored in shared_parent (0 = Waker::noop())
          d,          \* task 0: [pc, op, p, i, f, q]
          nd, nf,     \* deque operations started, futures pushed
          polls,      \* f -> polls so far
          r,          \* remote t -> [pc, op, f, q, ph]   ph = "list" | "cleanup"
          held,       \* remote t -> f -> wakers of f held
          nr,         \* remote t -> scripted operations done
          closing,    \* the deque task has finished
          J,          \* judge state
          hist

vars == <<slots, meta, parent, d, nd, nf, polls, r, held, nr, closing, J, hist>>
view == <<slots, meta, parent, d, nd, nf, polls, r, held, nr, closing, J>>

Val(f) == 10 + f
Idle == [pc |-> "dop", op |-> "none", p |-> 0, i |-> 0, f |-> 0, q |-> 0]
RIdle(ph) == [pc |-> "rop", op |-> "none", f |-> 0, q |-> 0, ph |-> ph]

EvInv(op, f, p) == [ev |-> "inv", op |-> op, f |-> f, p |-> p, task |-> 0]
EvRes(op, res, v) == [ev |-> "res", op |-> op, r |-> res, v |-> v, task |-> 0]
EvFPoll(f, k) == [ev |-> "fpoll", f |-> f, k |-> k, task |-> 0]
EvFRes(f, res, v) == [ev |-> "fres", f |-> f, r |-> res, v |-> v, task |-> 0]
EvFDrop(f) == [ev |-> "fdrop", f |-> f, task |-> 0]
EvODrop(v) == [ev |-> "odrop", v |-> v, task |-> 0]
EvWInv(op, f, t) == [ev |-> "winv", op |-> op, f |-> f, task |-> t]
EvWRes(op, f, t) == [ev |-> "wres", op |-> op, f |-> f, task |-> t]
EvPWake(p, t) == [ev |-> "pwake", p |-> p, task |-> t]
EvMC(f) == [ev |-> "meta_create", f |-> f, task |-> 0]
EvMF(f, t) == [ev |-> "meta_free", f |-> f, task |-> t]
EvStep(f, t) == [ev |-> "step", f |-> f, task |-> t]

H(t, l, op, f, p, b) == IF RecordHist THEN Append(hist, [t |-> t, l |-> l, op |-> op, f |-> f, p |-> p, b |-> b]) ELSE hist

Init ==
    /\ slots = <<>>
    /\ meta = [f \in Fs |-> [rc |-> 0, act |-> 0, st |-> "none"]]
    /\ parent = 0
    /\ d = Idle
    /\ nd = 0 /\ nf = 0
    /\ polls = [f \in Fs |-> 0]
    /\ r = [t \in Remotes |-> RIdle("list")]
    /\ held = [t \in Remotes |-> [f \in Fs |-> 0]]
    /\ nr = [t \in Remotes |-> 0]
    /\ closing = FALSE
    /\ J = JInit
    /\ hist = <<>>

-----------------------------------------------------------------------------
(* waker_meta.rs, one operator per atomic operation                                                          *)

\* ref_count.fetch_add(1, Relaxed) in make_waker / clone_raw_waker
FAdd(f) == [meta EXCEPT ![f].rc = @ + 1]
\* release_ref: ref_count.fetch_sub(1, AcqRel); previous == 1 => the pool slot is released
FSub(f) == LET o == meta[f].rc IN
           [meta EXCEPT ![f] = [rc |-> IF o > 0 THEN o - 1 ELSE 0, act |-> meta[f].act,
                                st |-> IF o = 1 \/ (Mut = "early_free" /\ o = 2) THEN "freed" ELSE meta[f].st]]
FSubEvs(f, t) == <<EvStep(f, t)>> \o (IF meta[f].rc = 1 \/ (Mut = "early_free" /\ meta[f].rc = 2) THEN <<EvMF(f, t)>> ELSE <<>>)
\* activated.swap(v, AcqRel)
SwapAct(f, v) == [meta EXCEPT ![f].act = v]
\* wake_by_ref_raw_waker: wake the parent only if this call set the flag
WakesParent(observed) == IF Mut = "wake_only_if_set" THEN observed = 1 ELSE observed = 0

-----------------------------------------------------------------------------
(* task 0: the deque                                                                                         *)

ScanFrom(sl, i) == IF \E j \in i..Len(sl) : sl[j].st = "p"
                   THEN CHOOSE j \in i..Len(sl) : sl[j].st = "p" /\ \A k \in i..(j - 1) : sl[k].st # "p"
                   ELSE 0

\* end of poll / poll_next / poll_back: the answer, and the pop of poll_next / poll_back
FinishPoll(sl, op) ==
    IF op = "poll" THEN
        [sl |-> sl, evs |-> <<EvRes("poll", IF \E j \in DOMAIN sl : sl[j].st = "p" THEN "pending" ELSE "ready", 0)>>]
    ELSE LET i == IF op = "poll_front" THEN 1 ELSE Len(sl) IN
         IF sl = <<>> THEN [sl |-> sl, evs |-> <<EvRes(op, "none", 0)>>]
         ELSE IF sl[i].st = "r" THEN
              [sl |-> IF op = "poll_front" THEN Tail(sl) ELSE SubSeq(sl, 1, Len(sl) - 1),
               evs |-> <<EvRes(op, "some", Val(sl[i].f))>>]
         ELSE [sl |-> sl, evs |-> <<EvRes(op, "pending", 0)>>]

\* continue the loop over the slots at index i, or finish the operation
DCont(sl, i, evs) ==
    LET j == ScanFrom(sl, i) IN
    IF j # 0 THEN /\ slots' = sl
                  /\ d' = [d EXCEPT !.pc = "scan", !.i = j, !.f = sl[j].f]
                  /\ J' = JRun(J, evs)
    ELSE LET fin == FinishPoll(sl, d.op) IN
         /\ slots' = fin.sl
         /\ d' = Idle
         /\ J' = JRun(J, evs \o fin.evs)

\* Drop for FutureDequeCore: drain front to back; Ready slots drop their value, a Pending slot needs two
\* release_ref steps (the slot's reference, then the Waker stored in the slot)
RECURSIVE LeadingReady(_)
LeadingReady(sl) == IF sl # <<>> /\ sl[1].st = "r" THEN <<EvODrop(Val(sl[1].f))>> \o LeadingReady(Tail(sl)) ELSE <<>>
RECURSIVE SkipReady(_)
SkipReady(sl) == IF sl # <<>> /\ sl[1].st = "r" THEN SkipReady(Tail(sl)) ELSE sl

DrainCont(sl, evs) ==
    LET rest == SkipReady(sl)
        evs2 == evs \o LeadingReady(sl) IN
    IF rest = <<>> THEN /\ slots' = <<>>
                        /\ d' = [Idle EXCEPT !.pc = "done"]
                        /\ closing' = TRUE
                        /\ J' = JRun(J, evs2 \o <<EvRes("drop", "ok", 0)>>)
    ELSE /\ slots' = rest
         /\ d' = [d EXCEPT !.pc = "drop1", !.op = "drop", !.f = rest[1].f]
         /\ closing' = closing
         /\ J' = JRun(J, evs2)

\* "dop": start of the next deque operation; push and pop complete within the same step or at their first atomic
DPush(front) ==
    /\ nf < NF
    /\ LET f == nf + 1
           op == IF front THEN "push_front" ELSE "push_back" IN
       /\ nf' = f
       \* create_waker_meta: ref_count 1, activated 1; next scheduling point: fetch_add in make_waker
       /\ meta' = [meta EXCEPT ![f] = [rc |-> 1, act |-> 1, st |-> "live"]]
       /\ d' = [Idle EXCEPT !.pc = "make", !.op = op, !.f = f]
       /\ J' = JRun(J, <<EvInv(op, f, 0), EvMC(f)>>)
       /\ hist' = H(0, "dop", op, f, 0, "")
    /\ UNCHANGED <<slots, parent, polls, held, closing>>

DMake ==
    /\ d.pc = "make"
    /\ meta' = FAdd(d.f)
    /\ LET it == [f |-> d.f, st |-> "p"]
           front == (d.op = "push_front" /\ Mut # "push_front_at_back") IN
       slots' = IF front THEN <<it>> \o slots ELSE Append(slots, it)
    /\ d' = Idle
    /\ J' = JRun(J, <<EvStep(d.f, 0), EvRes(d.op, "ok", 0)>>)
    /\ hist' = H(0, "rc.fadd", "", 0, 0, "")
    /\ UNCHANGED <<parent, nd, nf, polls, r, held, nr, closing>>

DPollStart(op, p) ==
    /\ d' = [Idle EXCEPT !.pc = "lock", !.op = op, !.p = p]
    /\ J' = JRun(J, <<EvInv(op, 0, p)>>)
    /\ hist' = H(0, "dop", op, 0, p, "")
    /\ UNCHANGED <<slots, meta, parent, nf, polls, held, closing>>

DPop(front) ==
    LET op == IF front THEN "pop_front" ELSE "pop_back"
        i == IF front THEN 1 ELSE Len(slots)
        hit == slots # <<>> /\ slots[i].st = "r" IN
    /\ slots' = IF hit THEN (IF front THEN Tail(slots) ELSE SubSeq(slots, 1, Len(slots) - 1)) ELSE slots
    /\ d' = Idle
    /\ J' = JRun(J, <<EvInv(op, 0, 0), EvRes(op, IF hit THEN "some" ELSE "none", IF hit THEN Val(slots[i].f) ELSE 0)>>)
    /\ hist' = H(0, "dop", op, 0, 0, "")
    /\ UNCHANGED <<meta, parent, nf, polls, held, closing>>

DDrop ==
    /\ DrainCont(slots, <<EvInv("drop", 0, 0)>>)
    /\ hist' = H(0, "dop", "drop", 0, 0, "")
    /\ UNCHANGED <<meta, parent, nf, polls, held>>

DOp ==
    /\ d.pc = "dop"
    /\ nd' = nd + 1
    /\ \/ /\ nd < MaxDOps
          /\ \/ \E front \in BOOLEAN : DPush(front)
             \/ \E op \in PollOps : \E p \in Parents : DPollStart(op, p)
             \/ \E front \in BOOLEAN : DPop(front)
       \/ (nd >= MinDOps /\ DDrop)
    /\ UNCHANGED <<r, nr>>

\* poll(): lock shared_parent, replace the stored waker unless it would wake the same task, unlock
DLock ==
    /\ d.pc = "lock"
    /\ parent' = IF Mut = "no_parent_update" /\ parent # 0 THEN parent ELSE d.p
    /\ DCont(slots, 1, <<>>)
    /\ hist' = H(0, "parent.lock", "", 0, 0, "")
    /\ UNCHANGED <<meta, nd, nf, polls, r, held, nr, closing>>

Behaviours(f) == IF polls[f] + 1 >= MaxPolls THEN {"ready"}
                 ELSE {"silent", "wake", "ready"} \cup { "hand" \o ToString(t) : t \in { u \in Remotes : held[u][f] < MaxHeld } }
HandTarget(b) == CHOOSE t \in Remotes : b = "hand" \o ToString(t)

\* after check_activated returned true: the contained future is polled and behaves as b
DPollFuture(f, b, pre) ==
    LET k == polls[f] + 1
        evs == pre \o <<EvFPoll(f, k)>> IN
    /\ polls' = [polls EXCEPT ![f] = k]
    /\ IF b = "silent" THEN DCont(slots, d.i + 1, evs \o <<EvFRes(f, "pending", 0)>>)
       ELSE IF b = "ready" THEN
            \* mem::replace(slot, Ready); next scheduling point: release_ref(meta)
            /\ slots' = [slots EXCEPT ![d.i].st = "r"]
            /\ d' = [d EXCEPT !.pc = "rel1"]
            /\ J' = JRun(J, evs \o <<EvFRes(f, "ready", Val(f))>>)
       ELSE IF b = "wake" THEN
            /\ slots' = slots
            /\ d' = [d EXCEPT !.pc = "fswap"]
            /\ J' = JRun(J, evs \o <<EvWInv("wake_by_ref", f, 0)>>)
       ELSE /\ slots' = slots
            /\ d' = [d EXCEPT !.pc = "ffadd", !.q = HandTarget(b)]
            /\ J' = JRun(J, evs \o <<EvWInv("clone", f, 0)>>)

\* check_activated: activated.swap(0)
DScan ==
    /\ d.pc = "scan" /\ Mut # "check_load_store"
    /\ LET f == d.f
           o == meta[f].act IN
       /\ meta' = SwapAct(f, 0)
       /\ IF o = 0 THEN /\ DCont(slots, d.i + 1, <<EvStep(f, 0)>>)
                        /\ polls' = polls
                        /\ hist' = H(0, "act.swap", "", 0, 0, "")
          ELSE \E b \in Behaviours(f) :
                  /\ DPollFuture(f, b, <<EvStep(f, 0)>>)
                  /\ hist' = H(0, "act.swap", "", f, 0, b)
    /\ UNCHANGED <<parent, nd, nf, r, held, nr, closing>>

\* seeded model defect: check_activated as load followed by store(0)
DScanLoad ==
    /\ d.pc = "scan" /\ Mut = "check_load_store"
    /\ d' = [d EXCEPT !.pc = "scan2", !.q = meta[d.f].act]
    /\ J' = JRun(J, <<EvStep(d.f, 0)>>)
    /\ hist' = H(0, "act.load", "", 0, 0, "")
    /\ UNCHANGED <<slots, meta, parent, nd, nf, polls, r, held, nr, closing>>

DScanStore ==
    /\ d.pc = "scan2"
    /\ LET f == d.f IN
       /\ meta' = SwapAct(f, 0)
       /\ IF d.q = 0 THEN /\ DCont(slots, d.i + 1, <<EvStep(f, 0)>>)
                          /\ polls' = polls
                          /\ hist' = H(0, "act.store", "", 0, 0, "")
          ELSE \E b \in Behaviours(f) :
                  /\ DPollFuture(f, b, <<EvStep(f, 0)>>)
                  /\ hist' = H(0, "act.store", "", f, 0, b)
    /\ UNCHANGED <<parent, nd, nf, r, held, nr, closing>>

\* the future wakes itself: activated.swap(1)
DFSwap ==
    /\ d.pc = "fswap"
    /\ LET f == d.f
           o == meta[f].act IN
       /\ meta' = SwapAct(f, 1)
       /\ IF WakesParent(o) THEN /\ d' = [d EXCEPT !.pc = "flock"]
                                 /\ slots' = slots
                                 /\ J' = JRun(J, <<EvStep(f, 0)>>)
          ELSE DCont(slots, d.i + 1, <<EvStep(f, 0), EvWRes("wake_by_ref", f, 0), EvFRes(f, "pending", 0)>>)
    /\ hist' = H(0, "act.swap", "", 0, 0, "")
    /\ UNCHANGED <<parent, nd, nf, polls, r, held, nr, closing>>

DFLock ==
    /\ d.pc = "flock"
    /\ d' = [d EXCEPT !.pc = "fpwake", !.q = parent]
    /\ hist' = H(0, "parent.lock", "", 0, 0, "")
    /\ UNCHANGED <<slots, meta, parent, nd, nf, polls, r, held, nr, closing, J>>

DFPWake ==
    /\ d.pc = "fpwake"
    /\ DCont(slots, d.i + 1, <<EvPWake(d.q, 0), EvWRes("wake_by_ref", d.f, 0), EvFRes(d.f, "pending", 0)>>)
    /\ hist' = H(0, "pwake", "", 0, 0, "")
    /\ UNCHANGED <<meta, parent, nd, nf, polls, r, held, nr, closing>>

\* the future clones its waker for remote thread d.q: ref_count.fetch_add(1)
DFFAdd ==
    /\ d.pc = "ffadd"
    /\ meta' = FAdd(d.f)
    /\ held' = [held EXCEPT ![d.q][d.f] = @ + 1]
    /\ DCont(slots, d.i + 1, <<EvStep(d.f, 0), EvWRes("clone", d.f, 0), EvFRes(d.f, "pending", 0)>>)
    /\ hist' = H(0, "rc.fadd", "", 0, 0, "")
    /\ UNCHANGED <<parent, nd, nf, polls, r, nr, closing>>

\* completion: release_ref(meta), then the old slot is dropped: the future, then the Waker (release_ref again)
DRel1 ==
    /\ d.pc = "rel1"
    /\ meta' = FSub(d.f)
    /\ d' = [d EXCEPT !.pc = "rel2"]
    /\ J' = JRun(J, FSubEvs(d.f, 0) \o <<EvFDrop(d.f)>>)
    /\ hist' = H(0, "rc.fsub", "", 0, 0, "")
    /\ UNCHANGED <<slots, parent, nd, nf, polls, r, held, nr, closing>>

DRel2 ==
    /\ d.pc = "rel2"
    /\ meta' = FSub(d.f)
    /\ DCont(slots, d.i + 1, FSubEvs(d.f, 0))
    /\ hist' = H(0, "rc.fsub", "", 0, 0, "")
    /\ UNCHANGED <<parent, nd, nf, polls, r, held, nr, closing>>

DDrop1 ==
    /\ d.pc = "drop1"
    /\ meta' = FSub(d.f)
    /\ d' = [d EXCEPT !.pc = "drop2"]
    /\ J' = JRun(J, FSubEvs(d.f, 0) \o <<EvFDrop(d.f)>>)
    /\ hist' = H(0, "rc.fsub", "", 0, 0, "")
    /\ UNCHANGED <<slots, parent, nd, nf, polls, r, held, nr, closing>>

DDrop2 ==
    /\ d.pc = "drop2"
    /\ meta' = FSub(d.f)
    /\ DrainCont(Tail(slots), FSubEvs(d.f, 0))
    /\ hist' = H(0, "rc.fsub", "", 0, 0, "")
    /\ UNCHANGED <<parent, nd, nf, polls, r, held, nr>>

DNext == DOp \/ DMake \/ DLock \/ DScan \/ DScanLoad \/ DScanStore \/ DFSwap \/ DFLock \/ DFPWake \/ DFFAdd
         \/ DRel1 \/ DRel2 \/ DDrop1 \/ DDrop2

-----------------------------------------------------------------------------
(* remote threads: the RawWaker vtable functions                                                             *)

RECURSIVE SumHeld(_, _)
SumHeld(t, S) == IF S = {} THEN 0 ELSE LET f == CHOOSE f \in S : TRUE IN held[t][f] + SumHeld(t, S \ {f})
HeldTotal(t) == SumHeld(t, Fs)
LowestHeld(t) == CHOOSE f \in Fs : held[t][f] > 0 /\ \A g \in Fs : held[t][g] > 0 => f <= g

RStartOp(t, op, f, ph, scripted) ==
    /\ r' = [r EXCEPT ![t] = [pc |-> IF op = "clone" THEN "fadd" ELSE IF op = "drop" THEN "fsub" ELSE "swap",
                               op |-> op, f |-> f, q |-> 0, ph |-> ph]]
    /\ held' = IF op \in {"wake", "drop"} THEN [held EXCEPT ![t][f] = @ - 1] ELSE held
    /\ nr' = IF scripted THEN [nr EXCEPT ![t] = @ + 1] ELSE nr
    /\ J' = JRun(J, <<EvWInv(op, f, t)>>)
    /\ hist' = H(t, "rop", IF scripted THEN op ELSE "", f, 0, "")

RStart(t) ==
    /\ r[t].pc = "rop"
    /\ \/ /\ r[t].ph = "list" /\ nr[t] < MaxROps
          /\ \E f \in Fs : \E op \in {"wake_by_ref", "wake", "clone", "drop"} :
                /\ held[t][f] > 0
                /\ op = "clone" => HeldTotal(t) < MaxHeld
                /\ RStartOp(t, op, f, "list", TRUE)
       \/ /\ closing /\ HeldTotal(t) > 0
          /\ RStartOp(t, "drop", LowestHeld(t), "cleanup", FALSE)
       \/ /\ closing /\ HeldTotal(t) = 0
          /\ r' = [r EXCEPT ![t] = [RIdle("cleanup") EXCEPT !.pc = "done"]]
          /\ hist' = H(t, "rop", "", 0, 0, "")
          /\ UNCHANGED <<held, nr, J>>
    /\ UNCHANGED <<slots, meta, parent, d, nd, nf, polls, closing>>

RBack(t) == [r EXCEPT ![t] = RIdle(r[t].ph)]

RFAdd(t) ==
    /\ r[t].pc = "fadd"
    /\ meta' = FAdd(r[t].f)
    /\ held' = [held EXCEPT ![t][r[t].f] = @ + 1]
    /\ r' = RBack(t)
    /\ J' = JRun(J, <<EvStep(r[t].f, t), EvWRes("clone", r[t].f, t)>>)
    /\ hist' = H(t, "rc.fadd", "", 0, 0, "")
    /\ UNCHANGED <<slots, parent, d, nd, nf, polls, nr, closing>>

RSwap(t) ==
    /\ r[t].pc = "swap"
    /\ LET f == r[t].f
           o == meta[f].act IN
       /\ meta' = SwapAct(f, 1)
       /\ IF WakesParent(o) THEN /\ r' = [r EXCEPT ![t].pc = "lock"]
                                 /\ J' = JRun(J, <<EvStep(f, t)>>)
          ELSE IF r[t].op = "wake" THEN /\ r' = [r EXCEPT ![t].pc = "fsub"]
                                        /\ J' = JRun(J, <<EvStep(f, t)>>)
          ELSE /\ r' = RBack(t)
               /\ J' = JRun(J, <<EvStep(f, t), EvWRes("wake_by_ref", f, t)>>)
    /\ hist' = H(t, "act.swap", "", 0, 0, "")
    /\ UNCHANGED <<slots, parent, d, nd, nf, polls, held, nr, closing>>

RLock(t) ==
    /\ r[t].pc = "lock"
    /\ r' = [r EXCEPT ![t].pc = "pwake", ![t].q = parent]
    /\ J' = JRun(J, <<EvStep(r[t].f, t)>>)      \* meta.shared_parent is read: an access to the metadata
    /\ hist' = H(t, "parent.lock", "", 0, 0, "")
    /\ UNCHANGED <<slots, meta, parent, d, nd, nf, polls, held, nr, closing>>

RPWake(t) ==
    /\ r[t].pc = "pwake"
    /\ IF r[t].op = "wake" THEN /\ r' = [r EXCEPT ![t].pc = "fsub"]
                                /\ J' = JRun(J, <<EvPWake(r[t].q, t)>>)
       ELSE /\ r' = RBack(t)
            /\ J' = JRun(J, <<EvPWake(r[t].q, t), EvWRes("wake_by_ref", r[t].f, t)>>)
    /\ hist' = H(t, "pwake", "", 0, 0, "")
    /\ UNCHANGED <<slots, meta, parent, d, nd, nf, polls, held, nr, closing>>

RFSub(t) ==
    /\ r[t].pc = "fsub"
    /\ meta' = FSub(r[t].f)
    /\ r' = RBack(t)
    /\ J' = JRun(J, FSubEvs(r[t].f, t) \o <<EvWRes(r[t].op, r[t].f, t)>>)
    /\ hist' = H(t, "rc.fsub", "", 0, 0, "")
    /\ UNCHANGED <<slots, parent, d, nd, nf, polls, held, nr, closing>>

RNext == \E t \in Remotes : RStart(t) \/ RFAdd(t) \/ RSwap(t) \/ RLock(t) \/ RPWake(t) \/ RFSub(t)

Next == DNext \/ RNext
Spec == Init /\ [][Next]_vars
FairSpec == Spec /\ WF_vars(Next)

-----------------------------------------------------------------------------
AllDone == d.pc = "done" /\ \A t \in Remotes : r[t].pc = "done"

TypeOK ==
    /\ \A i \in DOMAIN slots : slots[i].f \in Fs /\ slots[i].st \in {"p", "r"}
    /\ \A f \in Fs : meta[f].rc \in Nat /\ meta[f].act \in {0, 1} /\ meta[f].st \in {"none", "live", "freed"}
    /\ parent \in {0} \cup Parents
    /\ d.pc \in {"dop", "make", "lock", "scan", "scan2", "fswap", "flock", "fpwake", "ffadd", "rel1", "rel2", "drop1", "drop2", "done"}
    /\ \A t \in Remotes : r[t].pc \in {"rop", "fadd", "swap", "lock", "pwake", "fsub", "done"}
    /\ closing \in BOOLEAN

\* THE check: the judge accepts every behaviour of the implementation model ...
JudgeOk == J.ok
\* ... including its end (everything dropped and freed)
EndOk == AllDone => JNext(J, [ev |-> "end", outcome |-> "completed"]).ok

(* implementation-level facts, stronger than the judge *)
\* references owned by the deque for future f: the slot's own reference and the Waker stored in the slot
SlotRefs(f) ==
    IF d.f = f /\ d.pc = "make" THEN 1
    ELSE IF d.f = f /\ d.pc = "rel1" THEN 2
    ELSE IF d.f = f /\ d.pc \in {"rel2", "drop2"} THEN 1
    ELSE IF \E i \in DOMAIN slots : slots[i].f = f /\ slots[i].st = "p" THEN 2
    ELSE 0
\* references owned by remote thread t: wakers it holds plus the one an unfinished wake / drop still owns
RemoteRefs(t, f) ==
    held[t][f] + (IF r[t].f = f /\ r[t].op \in {"wake", "drop"} /\ r[t].pc \in {"swap", "lock", "pwake", "fsub"} THEN 1 ELSE 0)
RECURSIVE SumRemoteRefs(_, _)
SumRemoteRefs(S, f) == IF S = {} THEN 0 ELSE LET t == CHOOSE t \in S : TRUE IN RemoteRefs(t, f) + SumRemoteRefs(S \ {t}, f)
Owners(f) == SlotRefs(f) + SumRemoteRefs(Remotes, f)
\* the reference count is exact, and the metadata is freed exactly when the last owner is gone
RcExact == Mut = "none" =>
    \A f \in Fs : /\ meta[f].st = "live" => (meta[f].rc = Owners(f) /\ meta[f].rc >= 1)
                  /\ meta[f].st = "freed" => Owners(f) = 0
\* every run terminates with everything released
Terminates == <>AllDone
=============================================================================
