------------------------------ MODULE WakerMeta ------------------------------
(* packages/future_deque/src/waker_meta.rs step by step, for ONE metadata block, through the release/acquire
   memory model of spec/lib/RC11.tla.  The memory orderings are PARAMETERS: checks/c15.py fills them with what the
   instrumented crate actually passed to its atomics (ordering table extracted from the recorded step logs), so
   weakening an Ordering in the source changes the model TLC checks.

   Atomic locations:  rc   = WakerMeta::ref_count      act = WakerMeta::activated
                      mtx  = the Mutex around the shared parent waker (lock = acquire RMW, unlock = release store)
                      box<t> = how a waker clone reaches remote thread t (a release store / acquire load: handing a
                               Waker to another thread needs some synchronisation, e.g. a channel)
   Non-atomic cells:  blk  = the storage of the metadata: EVERY access to a field of the metadata reads it, returning
                             the pool slot (release_ref seeing previous == 1) writes it.  "Metadata is never touched
                             after / concurrently with its release" is the invariant NoRace.
                      data<t> = what remote thread t published before calling wake; the woken future reads it when
                             it is polled again.  "A wake-up is not lost" under weak memory means this read is
                             ordered after the write: also NoRace.
   Thread 0 plays the deque (create, make_waker, poll = parent update + check_activated + contained future, which
   may wake itself, hand a clone to a remote thread or complete; then release_ref twice: the slot's reference and
   the Waker stored in the slot).  Remote threads clone / wake_by_ref / wake / drop.

   Invariants: NoRace (RC11), NoUseAfterFree and RcExact (plain counting, independent of the memory model),
   WakeSeen (the sequentially consistent core of "no lost wake-up": a wake performed after the owner's last
   check_activated leaves the flag set).                                                                      *)
EXTENDS Naturals, Sequences, FiniteSets, TLC

CONSTANTS Remotes,        \* remote thread ids (subset of 1..2)
          MaxPolls, MaxROps,
          OrdMake,        \* make_waker:        ref_count.fetch_add
          OrdClone,       \* clone_raw_waker:   ref_count.fetch_add
          OrdCheck,       \* check_activated:   activated.swap(0)
          OrdWake,        \* wake_by_ref:       activated.swap(1)
          OrdRelease      \* release_ref:       ref_count.fetch_sub

Thread == {0} \cup Remotes
Box(t) == IF t = 1 THEN "box1" ELSE "box2"
Data(t) == IF t = 1 THEN "data1" ELSE "data2"
ALoc == {"rc", "act", "mtx"} \cup { Box(t) : t \in Remotes }
NLoc == {"blk"} \cup { Data(t) : t \in Remotes }

INSTANCE RC11

VARIABLES M,        \* RC11 memory
          o,        \* owner: [pc, polls, t]
          rt,       \* remote t -> [pc, op, has, n, wrote]
          wakers,   \* remote threads whose swap(1) came after the owner's last check_activated
          freed, uaf,
          lastCheckSaw  \* ghost for WakeSeen

vars == <<M, o, rt, wakers, freed, uaf, lastCheckSaw>>

Init ==
    \* create_waker_meta: ref_count = 1, activated = 1, written by thread 0 before anyone else can see the block
    /\ M = InitMem([l \in ALoc |-> IF l \in {"rc", "act"} THEN 1 ELSE 0], 0)
    /\ o = [pc |-> "make", polls |-> 0, t |-> 0]
    /\ rt = [t \in Remotes |-> [pc |-> "wait", op |-> "none", has |-> 0, n |-> 0, wrote |-> FALSE]]
    /\ wakers = {}
    /\ freed = FALSE /\ uaf = FALSE
    /\ lastCheckSaw = 1

\* every access to the metadata block reads its storage; an access after the release is a use after free
Touch(Mem, t) == NARead(Mem, t, "blk")
Touched == uaf' = (uaf \/ freed)

\* release_ref
ReleaseRef(t) ==
    LET prev == LastVal(M, "rc")
        M1 == Rmw(Touch(M, t), t, "rc", IF prev > 0 THEN prev - 1 ELSE 0, OrdRelease) IN
    /\ M' = IF prev = 1 THEN NAWrite(M1, t, "blk") ELSE M1
    /\ freed' = (freed \/ prev = 1)
    /\ Touched

\* shared_parent.lock() ... unlock (no scheduling point inside the critical section)
LockUnlock(Mem, t) == Store(Rmw(Mem, t, "mtx", 1, "acq"), t, "mtx", 0, "rel")

-----------------------------------------------------------------------------
OMake ==
    /\ o.pc = "make"
    /\ M' = Rmw(Touch(M, 0), 0, "rc", LastVal(M, "rc") + 1, OrdMake)
    /\ o' = [o EXCEPT !.pc = "idle"]
    /\ Touched
    /\ UNCHANGED <<rt, wakers, freed, lastCheckSaw>>

OIdle ==
    /\ o.pc = "idle"
    /\ \/ /\ o.polls < MaxPolls
          /\ M' = LockUnlock(M, 0)              \* poll(): parent waker update
          /\ o' = [o EXCEPT !.pc = "check"]
       \/ /\ o' = [o EXCEPT !.pc = "rel1"]      \* the deque is dropped with the future pending
          /\ M' = M
    /\ UNCHANGED <<rt, wakers, freed, uaf, lastCheckSaw>>

\* check_activated, and if it returns true the poll of the contained future (which reads what its wakers published)
RECURSIVE ReadAll(_, _)
ReadAll(Mem, S) == IF S = {} THEN Mem ELSE LET t == CHOOSE t \in S : TRUE IN ReadAll(NARead(Mem, 0, Data(t)), S \ {t})

OCheck ==
    /\ o.pc = "check"
    /\ LET obs == LastVal(M, "act")
           M1 == Rmw(Touch(M, 0), 0, "act", 0, OrdCheck) IN
       /\ lastCheckSaw' = obs
       /\ wakers' = {}
       /\ Touched
       /\ IF obs = 0 THEN /\ M' = M1
                          /\ o' = [o EXCEPT !.pc = "idle", !.polls = @ + 1]
          ELSE /\ M' = ReadAll(M1, wakers)
               /\ \/ o' = [o EXCEPT !.pc = "idle", !.polls = @ + 1]                    \* Pending, silent
                  \/ o' = [o EXCEPT !.pc = "fswap", !.polls = @ + 1]                   \* wakes itself
                  \/ \E t \in Remotes : /\ rt[t].pc = "wait" /\ LastVal(M, Box(t)) = 0
                                        /\ o' = [o EXCEPT !.pc = "ffadd", !.polls = @ + 1, !.t = t]
                  \/ o' = [o EXCEPT !.pc = "rel1", !.polls = @ + 1]                    \* Ready
    /\ UNCHANGED <<rt, freed>>

OFSwap ==
    /\ o.pc = "fswap"
    /\ LET obs == LastVal(M, "act") IN
       /\ M' = Rmw(Touch(M, 0), 0, "act", 1, OrdWake)
       /\ o' = [o EXCEPT !.pc = IF obs = 0 THEN "flock" ELSE "idle"]
    /\ Touched
    /\ UNCHANGED <<rt, wakers, freed, lastCheckSaw>>

OFLock ==
    /\ o.pc = "flock"
    /\ M' = LockUnlock(Touch(M, 0), 0)
    /\ o' = [o EXCEPT !.pc = "idle"]
    /\ Touched
    /\ UNCHANGED <<rt, wakers, freed, lastCheckSaw>>

OFFAdd ==
    /\ o.pc = "ffadd"
    /\ M' = Store(Rmw(Touch(M, 0), 0, "rc", LastVal(M, "rc") + 1, OrdClone), 0, Box(o.t), 1, "rel")
    /\ o' = [o EXCEPT !.pc = "idle"]
    /\ Touched
    /\ UNCHANGED <<rt, wakers, freed, lastCheckSaw>>

ORel ==
    /\ o.pc \in {"rel1", "rel2"}
    /\ ReleaseRef(0)
    /\ o' = [o EXCEPT !.pc = IF o.pc = "rel1" THEN "rel2" ELSE "done"]
    /\ UNCHANGED <<rt, wakers, lastCheckSaw>>

-----------------------------------------------------------------------------
RWait(t) ==
    /\ rt[t].pc = "wait"
    /\ \E i \in Eligible(M, t, Box(t)) :
          /\ M.mo[Box(t)][i].val = 1
          /\ M' = Load(M, t, Box(t), i, "acq")
    /\ rt' = [rt EXCEPT ![t].pc = "rop", ![t].has = 1]
    /\ UNCHANGED <<o, wakers, freed, uaf, lastCheckSaw>>

RStart(t) ==
    /\ rt[t].pc = "rop"
    /\ \/ /\ rt[t].n < MaxROps /\ rt[t].has > 0
          /\ \E op \in {"clone", "wake_by_ref", "wake", "drop"} :
                /\ op = "clone" => rt[t].has < 2
                /\ IF op \in {"wake_by_ref", "wake"} /\ ~rt[t].wrote
                   THEN /\ M' = NAWrite(M, t, Data(t))        \* publish, then wake
                        /\ rt' = [rt EXCEPT ![t].pc = "swap", ![t].op = op, ![t].n = @ + 1, ![t].wrote = TRUE]
                   ELSE /\ M' = M
                        /\ rt' = [rt EXCEPT ![t].pc = IF op = "clone" THEN "fadd" ELSE IF op = "drop" THEN "fsub" ELSE "swap",
                                           ![t].op = op, ![t].n = @ + 1]
       \/ /\ rt[t].n >= MaxROps /\ rt[t].has > 0       \* finally every waker is dropped
          /\ M' = M
          /\ rt' = [rt EXCEPT ![t].pc = "fsub", ![t].op = "drop"]
       \/ /\ rt[t].has = 0
          /\ M' = M
          /\ rt' = [rt EXCEPT ![t].pc = "done"]
    /\ UNCHANGED <<o, wakers, freed, uaf, lastCheckSaw>>

RFAdd(t) ==
    /\ rt[t].pc = "fadd"
    /\ M' = Rmw(Touch(M, t), t, "rc", LastVal(M, "rc") + 1, OrdClone)
    /\ rt' = [rt EXCEPT ![t].pc = "rop", ![t].has = @ + 1]
    /\ Touched
    /\ UNCHANGED <<o, wakers, freed, lastCheckSaw>>

RAfterWake(t) == IF rt[t].op = "wake" THEN "fsub" ELSE "rop"

RSwap(t) ==
    /\ rt[t].pc = "swap"
    /\ LET obs == LastVal(M, "act") IN
       /\ M' = Rmw(Touch(M, t), t, "act", 1, OrdWake)
       /\ rt' = [rt EXCEPT ![t].pc = IF obs = 0 THEN "lock" ELSE RAfterWake(t)]
    /\ wakers' = wakers \cup {t}
    /\ Touched
    /\ UNCHANGED <<o, freed, lastCheckSaw>>

RLock(t) ==
    /\ rt[t].pc = "lock"
    /\ M' = LockUnlock(Touch(M, t), t)       \* meta.shared_parent is read from the block
    /\ rt' = [rt EXCEPT ![t].pc = RAfterWake(t)]
    /\ Touched
    /\ UNCHANGED <<o, wakers, freed, lastCheckSaw>>

RFSub(t) ==
    /\ rt[t].pc = "fsub"
    /\ ReleaseRef(t)
    /\ rt' = [rt EXCEPT ![t].pc = "rop", ![t].has = @ - 1]
    /\ UNCHANGED <<o, wakers, lastCheckSaw>>

Next == OMake \/ OIdle \/ OCheck \/ OFSwap \/ OFLock \/ OFFAdd \/ ORel
        \/ \E t \in Remotes : RWait(t) \/ RStart(t) \/ RFAdd(t) \/ RSwap(t) \/ RLock(t) \/ RFSub(t)

Spec == Init /\ [][Next]_vars

-----------------------------------------------------------------------------
RaceFree == NoRace(M)
NoUseAfterFree == ~uaf

RECURSIVE SumHas(_)
SumHas(S) == IF S = {} THEN 0 ELSE LET t == CHOOSE t \in S : TRUE IN
             rt[t].has + SumHas(S \ {t})
OwnerRefs == IF o.pc = "make" THEN 1 ELSE IF o.pc = "rel2" THEN 1 ELSE IF o.pc = "done" THEN 0 ELSE 2
\* box in flight: cloned by the owner, not yet received
Boxed == Cardinality({ t \in Remotes : rt[t].pc = "wait" /\ LastVal(M, Box(t)) = 1 })
RcExact == LastVal(M, "rc") = OwnerRefs + SumHas(Remotes) + Boxed
FreedExactly == freed <=> (LastVal(M, "rc") = 0)
\* a wake performed since the owner's last check leaves the flag set (the next check_activated returns true)
WakeSeen == (wakers # {}) => LastVal(M, "act") = 1
=============================================================================
