------------------------------ MODULE Trace_FutureDeque ------------------------------
(* Judges the ndjson recorded by harness h_fdeque from the real future_deque crate with FutureDequeAbs.
   Many runs are concatenated; a {"ev":"reset","run":n} record starts a new run with a fresh judge state.
   Stateful judge: the first event of a run the judge cannot accept is printed as REJECT (run id, line, reason,
   record); the rest of that run is skipped and validation continues with the next run.                       *)
EXTENDS FutureDequeAbs, TraceLib

VARIABLES l, J, run

TraceInit == l = 1 /\ J = JInit /\ run = 0

TraceNext ==
    /\ l <= NRec
    /\ l' = l + 1
    /\ LET e == Rec[l] IN
       IF e.ev = "reset" THEN J' = JInit /\ run' = e.run
       ELSE LET J2 == JNext(J, e) IN
            /\ J' = J2
            /\ run' = run
            /\ (J.ok /\ ~J2.ok) =>
                  PrintT(<<"REJECT", ToJson([run |-> run, line |-> l, why |-> J2.why, rec |-> e])>>)

TraceSpec == TraceInit /\ [][TraceNext]_<<l, J, run>>
=============================================================================
