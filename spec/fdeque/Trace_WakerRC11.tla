---- MODULE Trace_WakerRC11 ----
(* spec/lib/TraceRC11 (trace-level happens-before race / use-after-release detector) instantiated for the waker
   metadata of future_deque.  checks/c15.py translates every recorded run of harness h_fdeque into its events:
     objects 1..4          = the WakerMeta block of future f (created at meta_create, released at meta_free)
     atomic locations      = 4+f: ref_count, 8+f: activated, 13: the parent waker mutex (lock = acquire swap, unlock =
                             release store), 13+t: the hand-over of a waker clone to remote thread t (release store by the
                             future, acquire load by the remote thread: what a channel or mutex would provide)
     parts data<t>_<k>     = what remote thread t published before its k-th wake of future f (written at the wake's
                             invocation; read by the future at the poll that follows the check_activated which consumed the
                             activation that wake set OR merely looked at: a wake that finds the flag set and returns relies
                             on that activation, so the poll it leads to must see the publication all the same)
   with the memory orderings the instrumented crate actually passed.  No protocol model is involved.          *)
EXTENDS TraceRC11
====
