------------------------------ MODULE FutureDequeAbs ------------------------------
(* JUDGE for C15: "future deque keeps deque order and never loses a wake-up".

   The judge is a deterministic monitor over API-level events: J' = JNext(J, e).  The same operator is
     - composed with the explorer (FutureDeque.tla: every action feeds the events it produces to the judge and TLC
       checks J.ok for all interleavings), and
     - applied to the events the harness recorded from the real crate (Trace_FutureDeque.tla).
   It states the property and nothing else; wherever the property leaves the implementation free the judge accepts:

   ORDER      pop_front / pop_back / poll_front / poll_back return exactly what a plain deque of the same pushes and
              pops gives, where an item can be taken only once its future returned Ready; poll returns Ready iff no
              contained future is pending.
   POLLED-ONLY-IF  a contained future is polled only while it is in the deque and pending, only inside a deque poll,
              and only if it was never polled before or a wake of its waker completed since its previous poll began,
              or is in progress.  (A wake call that spans a poll start may justify that poll and the next one: the
              judge cannot see where inside the call the wake took effect, so it accepts both.)
   NO LOST WAKE-UP  a wake call (wake / wake_by_ref, any thread) that returned while the future is pending and that
              is not followed by a poll of that future begun after the call was invoked creates a need:
              (R1) every deque poll invoked while the need exists must poll that future before it returns;
              (R2) whenever no deque poll and no wake call is in progress, the parent waker given to the latest deque
                   poll has been woken since that poll was invoked (so the deque's task will poll again).
              The parent may be woken more often than necessary; a wake that finds the future already activated may
              rely on the in-progress wake that activated it (hence "no wake call in progress").
   DROPS      every future is dropped exactly once, never while it is pending in a live deque; every output is
              either handed out by a pop or dropped exactly once by the deque, only while the deque is being dropped.
   METADATA   (events from hook H8) waker metadata of a future is created once, freed exactly once, not while the
              slot or a waker clone may still refer to it (lower bound lo), freed by the time the operation that gave
              up the last reference has returned (upper bound hi), and never accessed afterwards.

   Events (JSON records written by harness h_fdeque; the explorer builds the same records):
     inv(op,f,p) res(op,r,v)         deque operations of task 0: push_front push_back poll poll_front poll_back
                                     pop_front pop_back drop
     fpoll(f,k) fres(f,r,v)          the scripted future is polled / returns
     fdrop(f) odrop(v)               drop of a future / of an output still owned by the deque
     winv(op,f,task) wres(op,f,task) waker operations clone wake wake_by_ref drop (by the future itself or remote)
     pwake(p)                        parent waker p woken
     meta_create(f) meta_free(f) step(f,...)   metadata events and shimmed atomic steps (f = 0: not metadata)
     panic, end(outcome)                                                                                       *)
EXTENDS Naturals, Sequences, FiniteSets

CONSTANTS MaxF,     \* futures are 1..MaxF
          MaxT      \* tasks are 0..MaxT (0 = the deque's task)

Fs == 1..MaxF
Tasks == 0..MaxT

PollOps == {"poll", "poll_front", "poll_back"}
NoWop == [op |-> "none", f |-> 0]

JInit ==
    [ ok     |-> TRUE,
      why    |-> "",
      alive  |-> TRUE,                      \* the deque has not been dropped
      dq     |-> <<>>,                      \* abstract deque: sequence of [f, done, v]
      dop    |-> "none",                    \* deque operation in progress
      df     |-> 0,                         \* future being pushed
      curp   |-> 0,                         \* parent waker of the latest deque poll invoked
      pw     |-> FALSE,                     \* curp woken since that poll was invoked
      pushed |-> {},
      polls  |-> [f \in Fs |-> 0],
      inpoll |-> 0,                         \* future being polled
      fin    |-> {},                        \* futures that returned Ready
      cred   |-> [f \in Fs |-> FALSE],      \* a wake completed since the last poll of f began
      wip    |-> [f \in Fs |-> {}],         \* tasks with a wake call on f in progress
      open   |-> [f \in Fs |-> {}],         \* ... not yet followed by a poll of f
      need   |-> [f \in Fs |-> FALSE],      \* a completed wake is not yet followed by a poll of f
      must   |-> {},                        \* futures the deque poll in progress has to poll (R1)
      rel    |-> {},                        \* futures completed in the deque poll in progress
      fdrops |-> {},
      outs   |-> {},                        \* outputs produced and still owned by the deque
      meta   |-> [f \in Fs |-> "none"],     \* none | live | freed
      lo     |-> [f \in Fs |-> 0],          \* references that certainly still exist
      hi     |-> [f \in Fs |-> 0],          \* references that may still exist
      wop    |-> [t \in Tasks |-> NoWop] ]

Fail(J, why) == [J EXCEPT !.ok = FALSE, !.why = why]

Dec(n) == IF n > 0 THEN n - 1 ELSE 0

PendingIn(dq) == { dq[i].f : i \in { j \in DOMAIN dq : ~dq[j].done } }
InDq(dq) == { dq[i].f : i \in DOMAIN dq }

\* (R2) and the upper bound of METADATA: evaluated after responses
Quiescent(J) == J.dop = "none" /\ \A f \in Fs : J.wip[f] = {}
LostWake(J) == Quiescent(J) /\ J.alive /\ ~J.pw /\ \E f \in PendingIn(J.dq) : J.need[f]
Leaked(J) == \E f \in Fs : J.meta[f] = "live" /\ J.hi[f] = 0

Settle(J) ==
    IF ~J.ok THEN J
    ELSE IF LostWake(J) THEN Fail(J, "wake lost: parent waker not woken after a wake of a pending future")
    ELSE IF Leaked(J) THEN Fail(J, "metadata not freed although its last reference is gone")
    ELSE J

-----------------------------------------------------------------------------
Inv(J, e) ==
    IF J.dop # "none" THEN Fail(J, "deque operations overlap")
    ELSE IF ~J.alive THEN Fail(J, "operation on a dropped deque")
    ELSE IF e.op \in {"push_front", "push_back"} THEN
        IF e.f \notin Fs \/ e.f \in J.pushed THEN Fail(J, "bad future id in push")
        ELSE [J EXCEPT !.dop = e.op, !.df = e.f, !.pushed = @ \cup {e.f}, !.lo[e.f] = 1, !.hi[e.f] = 1]
    ELSE IF e.op \in PollOps THEN
        [J EXCEPT !.dop = e.op, !.curp = e.p, !.pw = FALSE,
                  !.must = { f \in PendingIn(J.dq) : J.need[f] }, !.rel = {}]
    ELSE IF e.op \in {"pop_front", "pop_back"} THEN [J EXCEPT !.dop = e.op]
    ELSE IF e.op = "drop" THEN
        \* the slots' references may be released from now on
        [J EXCEPT !.dop = "drop", !.lo = [f \in Fs |-> IF f \in PendingIn(J.dq) THEN Dec(J.lo[f]) ELSE J.lo[f]]]
    ELSE Fail(J, "unknown deque operation")

\* what the reference deque answers when an end is asked for: <<r, v, remaining deque>>
TakeEnd(dq, front) ==
    IF dq = <<>> THEN <<"none", 0, dq>>
    ELSE LET i == IF front THEN 1 ELSE Len(dq) IN
         IF dq[i].done THEN <<"some", dq[i].v, IF front THEN Tail(dq) ELSE SubSeq(dq, 1, Len(dq) - 1)>>
         ELSE <<"blocked", 0, dq>>

ReleasePolled(J) ==     \* slots of futures completed in this deque poll no longer refer to their metadata
    [J EXCEPT !.hi = [f \in Fs |-> IF f \in J.rel THEN Dec(J.hi[f]) ELSE J.hi[f]], !.rel = {}]

Res(J, e) ==
    IF J.dop # e.op THEN Fail(J, "response without matching invocation")
    ELSE IF J.inpoll # 0 THEN Fail(J, "deque operation returned while a future is being polled")
    ELSE LET J0 == [J EXCEPT !.dop = "none"] IN
    IF e.op \in {"push_front", "push_back"} THEN
        LET it == [f |-> J.df, done |-> FALSE, v |-> 0] IN
        [J0 EXCEPT !.dq = IF e.op = "push_front" THEN <<it>> \o J.dq ELSE Append(J.dq, it), !.df = 0]
    ELSE IF e.op = "poll" THEN
        IF J.must # {} THEN Fail(J, "wake lost: the next deque poll did not poll the woken future")
        ELSE IF e.r # (IF PendingIn(J.dq) = {} THEN "ready" ELSE "pending") THEN Fail(J, "poll: wrong readiness")
        ELSE ReleasePolled(J0)
    ELSE IF e.op \in {"poll_front", "poll_back"} THEN
        LET t == TakeEnd(J.dq, e.op = "poll_front")
            exp == IF t[1] = "blocked" THEN "pending" ELSE t[1] IN
        IF J.must # {} THEN Fail(J, "wake lost: the next deque poll did not poll the woken future")
        ELSE IF e.r # exp \/ (exp = "some" /\ e.v # t[2]) THEN Fail(J, "order: poll_front/poll_back differs from the reference deque")
        ELSE ReleasePolled([J0 EXCEPT !.dq = t[3], !.outs = IF exp = "some" THEN @ \ {t[2]} ELSE @])
    ELSE IF e.op \in {"pop_front", "pop_back"} THEN
        LET t == TakeEnd(J.dq, e.op = "pop_front")
            exp == IF t[1] = "blocked" THEN "none" ELSE t[1] IN
        IF e.r # exp \/ (exp = "some" /\ e.v # t[2]) THEN Fail(J, "order: pop differs from the reference deque")
        ELSE [J0 EXCEPT !.dq = t[3], !.outs = IF exp = "some" THEN @ \ {t[2]} ELSE @]
    ELSE IF e.op = "drop" THEN
        IF J.pushed # J.fdrops THEN Fail(J, "deque dropped but a future was not dropped")
        ELSE IF J.outs # {} THEN Fail(J, "deque dropped but an output it owned was not dropped")
        ELSE [J0 EXCEPT !.alive = FALSE,
                        !.hi = [f \in Fs |-> IF f \in PendingIn(J.dq) THEN Dec(J.hi[f]) ELSE J.hi[f]],
                        !.dq = <<>>, !.need = [f \in Fs |-> FALSE]]
    ELSE Fail(J, "unknown deque operation")

FPoll(J, e) ==
    LET f == e.f IN
    IF f \notin Fs THEN Fail(J, "bad future id")
    ELSE IF J.dop \notin PollOps THEN Fail(J, "future polled outside a deque poll")
    ELSE IF J.inpoll # 0 THEN Fail(J, "nested poll")
    ELSE IF f \notin PendingIn(J.dq) THEN Fail(J, "polled a future that is not pending in the deque")
    ELSE IF ~(J.polls[f] = 0 \/ J.cred[f] \/ J.wip[f] # {}) THEN Fail(J, "future polled although neither inserted nor woken since its last poll")
    ELSE [J EXCEPT !.polls[f] = @ + 1, !.inpoll = f, !.cred[f] = FALSE, !.open[f] = {}, !.need[f] = FALSE,
                   !.must = @ \ {f}]

FRes(J, e) ==
    LET f == e.f IN
    IF J.inpoll # f THEN Fail(J, "future returned but was not being polled")
    ELSE IF e.r = "ready" THEN
        [J EXCEPT !.inpoll = 0, !.fin = @ \cup {f}, !.rel = @ \cup {f}, !.outs = @ \cup {e.v},
                  !.lo[f] = Dec(@), !.need[f] = FALSE, !.open[f] = {},
                  !.dq = [i \in DOMAIN J.dq |-> IF J.dq[i].f = f THEN [f |-> f, done |-> TRUE, v |-> e.v] ELSE J.dq[i]]]
    ELSE [J EXCEPT !.inpoll = 0]

FDrop(J, e) ==
    LET f == e.f IN
    IF f \notin J.pushed THEN Fail(J, "drop of a future that was never pushed")
    ELSE IF f \in J.fdrops THEN Fail(J, "future dropped twice")
    ELSE IF ~(f \in J.fin \/ J.dop = "drop") THEN Fail(J, "pending future discarded")
    ELSE [J EXCEPT !.fdrops = @ \cup {f}]

ODrop(J, e) ==
    IF e.v \notin J.outs THEN Fail(J, "output dropped twice or never produced")
    ELSE IF J.dop # "drop" THEN Fail(J, "completed output discarded")
    ELSE [J EXCEPT !.outs = @ \ {e.v}]

IsWake(op) == op \in {"wake", "wake_by_ref"}

WInv(J, e) ==
    LET f == e.f
        t == e.task IN
    IF f \notin Fs \/ t \notin Tasks THEN Fail(J, "bad waker event")
    ELSE IF J.wop[t].op # "none" THEN Fail(J, "waker operations of one task overlap")
    ELSE LET J1 == [J EXCEPT !.wop[t] = [op |-> e.op, f |-> f]] IN
    IF e.op = "clone" THEN [J1 EXCEPT !.hi[f] = @ + 1]
    ELSE IF e.op = "drop" THEN [J1 EXCEPT !.lo[f] = Dec(@)]
    ELSE IF IsWake(e.op) THEN
        [J1 EXCEPT !.wip[f] = @ \cup {t}, !.open[f] = @ \cup {t},
                   !.lo[f] = IF e.op = "wake" THEN Dec(@) ELSE @]
    ELSE Fail(J, "unknown waker operation")

WRes(J, e) ==
    LET f == e.f
        t == e.task IN
    IF f \notin Fs \/ t \notin Tasks THEN Fail(J, "bad waker event")
    ELSE IF J.wop[t] # [op |-> e.op, f |-> f] THEN Fail(J, "waker response without matching invocation")
    ELSE LET J1 == [J EXCEPT !.wop[t] = NoWop] IN
    IF e.op = "clone" THEN [J1 EXCEPT !.lo[f] = @ + 1]
    ELSE IF e.op = "drop" THEN [J1 EXCEPT !.hi[f] = Dec(@)]
    ELSE \* wake / wake_by_ref completed
        [J1 EXCEPT !.wip[f] = @ \ {t}, !.cred[f] = TRUE, !.open[f] = @ \ {t},
                   !.need[f] = @ \/ (t \in J.open[f] /\ J.alive /\ f \in PendingIn(J.dq)),
                   !.hi[f] = IF e.op = "wake" THEN Dec(@) ELSE @]

MetaCreate(J, e) ==
    IF e.f \notin Fs THEN Fail(J, "metadata created outside a push")
    ELSE IF J.meta[e.f] # "none" THEN Fail(J, "metadata created twice")
    ELSE [J EXCEPT !.meta[e.f] = "live"]

MetaFree(J, e) ==
    IF e.f \notin Fs THEN Fail(J, "unknown metadata freed")
    ELSE IF J.meta[e.f] = "freed" THEN Fail(J, "metadata freed twice")
    ELSE IF J.meta[e.f] # "live" THEN Fail(J, "unknown metadata freed")
    ELSE IF J.lo[e.f] > 0 THEN Fail(J, "metadata freed while a reference to it exists")
    ELSE [J EXCEPT !.meta[e.f] = "freed"]

StepEv(J, e) ==
    IF e.f \in Fs /\ J.meta[e.f] = "freed" THEN Fail(J, "metadata accessed after it was freed") ELSE J

End(J, e) ==
    IF e.outcome # "completed" THEN Fail(J, "run did not complete (deadlock or hang)")
    ELSE IF J.alive THEN Fail(J, "run ended with a live deque")
    ELSE IF \E f \in Fs : J.meta[f] = "live" THEN Fail(J, "metadata never freed")
    ELSE IF \E t \in Tasks : J.wop[t].op # "none" THEN Fail(J, "waker operation never returned")
    ELSE J

JNext(J, e) ==
    IF ~J.ok THEN J
    ELSE CASE e.ev = "inv" -> Inv(J, e)
           [] e.ev = "res" -> Settle(Res(J, e))
           [] e.ev = "fpoll" -> FPoll(J, e)
           [] e.ev = "fres" -> FRes(J, e)
           [] e.ev = "fdrop" -> FDrop(J, e)
           [] e.ev = "odrop" -> ODrop(J, e)
           [] e.ev = "winv" -> WInv(J, e)
           [] e.ev = "wres" -> Settle(WRes(J, e))
           [] e.ev = "pwake" -> IF e.p = J.curp THEN [J EXCEPT !.pw = TRUE] ELSE J
           [] e.ev = "meta_create" -> MetaCreate(J, e)
           [] e.ev = "meta_free" -> MetaFree(J, e)
           [] e.ev = "step" -> StepEv(J, e)
           [] e.ev = "panic" -> Fail(J, "panic in the code under test")
           [] e.ev = "end" -> End(J, e)
           [] OTHER -> J

RECURSIVE JRun(_, _)
JRun(J, evs) == IF evs = <<>> THEN J ELSE JRun(JNext(J, Head(evs)), Tail(evs))
=============================================================================
