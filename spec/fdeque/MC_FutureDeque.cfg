CONSTANTS NF = 2  MaxF = 2  MaxT = 2  Remotes = {1, 2}  Parents = {1, 2}
          MaxDOps = 3  MinDOps = 0  MaxPolls = 2  MaxROps = 2  MaxHeld = 2  Mut = "none"  RecordHist = FALSE
SPECIFICATION Spec
INVARIANT TypeOK JudgeOkP EndOkP RcExact
CHECK_DEADLOCK FALSE
