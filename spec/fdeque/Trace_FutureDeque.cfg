CONSTANTS MaxF = 4  MaxT = 3
SPECIFICATION TraceSpec
POSTCONDITION Accepted
CHECK_DEADLOCK FALSE
