CONSTANTS MaxTask = 4  MaxId = 17  Parts = {"data1", "data2", "data3"}  MutexParts = {}
SPECIFICATION TraceSpec
POSTCONDITION Accepted
CHECK_DEADLOCK FALSE
