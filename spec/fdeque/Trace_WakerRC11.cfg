CONSTANTS MaxTask = 4  MaxId = 17  Parts = {"data1_1", "data1_2", "data1_3", "data2_1", "data2_2", "data2_3", "data3_1", "data3_2", "data3_3"}  MutexParts = {}
SPECIFICATION TraceSpec
POSTCONDITION Accepted
CHECK_DEADLOCK FALSE
