---- MODULE MC_StoreKeys ----
EXTENDS StoreKeys, TLC, Json
CONSTANT MaxLen
VARIABLE key

Keys == UNION { [1..n -> Alphabet] : n \in 0..MaxLen }
Init == key \in Keys
Next == UNCHANGED key

\* the code's rule never admits a key the judge must see rejected, and admitted keys are literal paths
RuleSound == Valid(key) => (~Escapes(key) /\ Literal(key))
\* the code's rule is not needlessly strict on this alphabet: every literal, non-escaping key is admitted
RuleComplete == (~Escapes(key) /\ Literal(key)) => Valid(key)

GenCase == PrintT(<<"KCASE", ToJson([key |-> key, valid |-> Valid(key), escapes |-> Escapes(key)])>>)
====
