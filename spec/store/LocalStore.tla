------------------------------ MODULE LocalStore ------------------------------
(* EXPLORER for C19: packages/cbh_storage/src/local.rs, one key, step for step.

   File system (what survives a process):
     dir            the parent directory of the key exists
     files[name]    name 0 is the key's path; name 10*a+i is the temp file of actor a's i-th operation
                    (TEMP_PREFIX + pid + nanos + counter: unique per write, reserved prefix)
                    [ex |-> exists, obj |-> object whose encoded bytes are being written, n |-> chunks present]
                    an object is complete when n = NChunks; the codec is an abstract bijection with an integrity check:
                    decoding n < NChunks chunks fails (gzip trailer: CRC-32 + length), decoding NChunks chunks yields obj.

   Actors: Writers run put / put_overwrite / delete, Readers run get / list; every writer runs WOps operations, every reader ROps.
   The program counter of an actor is the NAME OF THE HOOK POINT (crate::verif::point) at which the real thread is
   parked; one action = what the code does between that point and the next one (exactly one file-system operation):

     start|next  -> invoke                                   (harness: log the invocation, call the method)
     put:start   -> key_path (validate)                      put and put_overwrite
     put:mkdirs  -> create_dir_all
     put:exists  -> try_exists; true: return AlreadyExists   put only
     wa:create   -> File::create(temp)                        write_atomic
     wa:write    -> write_all (one action per chunk; only the last one moves on)
     wa:flush    -> flush, close
     wa:rename   -> rename(temp, key)
     wa:done     -> return Ok
     wa:cleanup  -> remove_file(temp), return the error       (reached when IoFail lets a step fail)
     del:unlink  -> remove_file(key), return
     get:read    -> read(key) + decompress, return
     list:dir    -> read_dir, skip reserved-prefix names, return
   Crash(a) is enabled at every pc at which an operation is in flight: the process dies, files stay.

   Deliberate deviations, named: the three switches below are TRUE/TRUE/TRUE for the code as it is; setting one to FALSE
   gives the model of a seeded mutation (used only to show that the invariants are not vacuous):
     ViaTemp       FALSE: write straight to the key's path
     TempReserved  FALSE: temp names do not carry the reserved prefix
     CheckExists   FALSE: put skips the existence check
   The judge (StoreAbs) is threaded through as the monitor variables `configs`, `cur`.                              *)
EXTENDS StoreAbs, TLC

CONSTANTS Writers, Readers,       \* disjoint sets of small naturals, Threads = Writers \cup Readers
          WOps, ROps,             \* operations per writer / per reader
          NChunks,                    \* chunks per encoded object (>= 1)
          WriterKinds,            \* subset of {"put", "puto", "del"}
          ReaderKinds,            \* subset of {"get", "list"}
          InitVals,               \* subset of {0, OldObj}: what the key holds initially
          IoFail,                 \* BOOLEAN: write / flush / rename may fail (I/O error), leading to cleanup
          ViaTemp, TempReserved, CheckExists

VARIABLES dir, files, pc, op, nops, configs, cur, hist

OldObj == 9
Actors == Writers \cup Readers
MaxOps(a) == IF a \in Writers THEN WOps ELSE ROps
Names == {0} \cup { 10 * a + i : a \in Writers, i \in 1..WOps }
Absent == [ex |-> FALSE, obj |-> 0, n |-> 0]
ObjOf(a, i) == 10 * a + i
TempOf(a) == IF ViaTemp THEN 10 * a + nops[a] + 1 ELSE 0
Reserved(name) == name # 0 /\ TempReserved

fsvars == <<dir, files>>
vars == <<dir, files, pc, op, nops, configs, cur, hist>>

Init ==
    /\ \E v \in InitVals :
        /\ files = [nm \in Names |-> IF nm = 0 /\ v # 0 THEN [ex |-> TRUE, obj |-> v, n |-> NChunks] ELSE Absent]
        /\ \E d \in (IF v # 0 THEN {TRUE} ELSE BOOLEAN) :
            /\ dir = d
            /\ hist = <<[a |-> 0, p |-> "init", k |-> IF v # 0 THEN "old" ELSE IF d THEN "emptydir" ELSE "empty"]>>
        /\ configs = {InitConfig(v)}
    /\ pc = [a \in Actors |-> "start"]
    /\ op = [a \in Actors |-> NoOp]
    /\ nops = [a \in Actors |-> 0]
    /\ cur = [a \in Actors |-> NoOp]

Log(a, k) == hist' = Append(hist, [a |-> a, p |-> pc[a], k |-> k])

Goto(a, p) == pc' = [pc EXCEPT ![a] = p]

\* the operation of actor a returns res (junk: foreign names in a listing)
Return(a, res, junk) ==
    /\ configs' = AfterRespond(configs, a, res, junk)
    /\ pc' = [pc EXCEPT ![a] = "next"]
    /\ nops' = [nops EXCEPT ![a] = @ + 1]
    /\ UNCHANGED <<cur, op>>

Silent == UNCHANGED <<configs, cur, op, nops>>

Invoke(a) ==
    /\ pc[a] \in {"start", "next"}
    /\ nops[a] < MaxOps(a)
    /\ \E k \in (IF a \in Writers THEN WriterKinds ELSE ReaderKinds) :
        LET o == [kind |-> k, obj |-> IF k \in {"put", "puto"} THEN ObjOf(a, nops[a] + 1) ELSE 0] IN
        /\ op' = [op EXCEPT ![a] = o]
        /\ cur' = [cur EXCEPT ![a] = o]
        /\ configs' = AfterInvoke(configs, cur, a, o)
        /\ Goto(a, CASE k \in {"put", "puto"} -> "put:start" [] k = "del" -> "del:unlink"
                     [] k = "get" -> "get:read" [] k = "list" -> "list:dir")
        /\ Log(a, k)
    /\ UNCHANGED <<fsvars, nops>>

Validate(a) ==
    /\ pc[a] = "put:start"
    /\ Goto(a, "put:mkdirs") /\ Log(a, "") /\ Silent /\ UNCHANGED fsvars

Mkdirs(a) ==
    /\ pc[a] = "put:mkdirs"
    /\ dir' = TRUE
    /\ Goto(a, IF op[a].kind = "put" THEN "put:exists" ELSE "wa:create")
    /\ Log(a, "") /\ Silent /\ UNCHANGED files

Exists(a) ==
    /\ pc[a] = "put:exists"
    /\ Log(a, "")
    /\ UNCHANGED fsvars
    /\ IF CheckExists /\ files[0].ex
       THEN Return(a, Res("exists", 0), 0)
       ELSE Goto(a, "wa:create") /\ Silent

Create(a) ==
    /\ pc[a] = "wa:create"
    /\ dir      \* create_dir_all ran before and nothing removes directories
    /\ files' = [files EXCEPT ![TempOf(a)] = [ex |-> TRUE, obj |-> op[a].obj, n |-> 0]]   \* File::create truncates
    /\ Goto(a, "wa:write") /\ Log(a, "") /\ Silent /\ UNCHANGED dir

\* a file that was unlinked while open keeps accepting writes; they just are not visible under any name
WriteChunk(a) ==
    /\ pc[a] = "wa:write"
    /\ LET t == TempOf(a)
           mine == files[t].ex /\ files[t].obj = op[a].obj
           k == IF mine THEN files[t].n + 1 ELSE NChunks
       IN /\ files' = IF mine THEN [files EXCEPT ![t].n = k] ELSE files
          /\ Goto(a, IF k >= NChunks THEN "wa:flush" ELSE "wa:write")
    /\ Log(a, "") /\ Silent /\ UNCHANGED dir

Flush(a) ==
    /\ pc[a] = "wa:flush"
    /\ Goto(a, "wa:rename") /\ Log(a, "") /\ Silent /\ UNCHANGED fsvars

Rename(a) ==
    /\ pc[a] = "wa:rename"
    /\ LET t == TempOf(a) IN
       IF t = 0 THEN UNCHANGED fsvars /\ Goto(a, "wa:done")
       ELSE IF files[t].ex
            THEN /\ files' = [files EXCEPT ![0] = files[t], ![t] = Absent]
                 /\ Goto(a, "wa:done") /\ UNCHANGED dir
            ELSE UNCHANGED fsvars /\ Goto(a, "wa:cleanup")    \* temp vanished: rename fails with NotFound
    /\ Log(a, "") /\ Silent

Done(a) ==
    /\ pc[a] = "wa:done"
    /\ Log(a, "") /\ UNCHANGED fsvars
    /\ Return(a, Res("ok", 0), 0)

\* an I/O error in write_all, flush or rename
Fail(a) ==
    /\ IoFail
    /\ pc[a] \in {"wa:write", "wa:flush", "wa:rename"}
    /\ Goto(a, "wa:cleanup") /\ Log(a, "fail") /\ Silent /\ UNCHANGED fsvars

Cleanup(a) ==
    /\ pc[a] = "wa:cleanup"
    /\ LET t == TempOf(a) IN
       files' = IF t # 0 THEN [files EXCEPT ![t] = Absent] ELSE [files EXCEPT ![0] = Absent]
    /\ Log(a, "") /\ UNCHANGED dir
    /\ Return(a, Res("err", 0), 0)

Unlink(a) ==
    /\ pc[a] = "del:unlink"
    /\ Log(a, "") /\ UNCHANGED dir
    /\ IF files[0].ex
       THEN files' = [files EXCEPT ![0] = Absent] /\ Return(a, Res("ok", 0), 0)
       ELSE UNCHANGED files /\ Return(a, Res("notfound", 0), 0)

Read(a) ==
    /\ pc[a] = "get:read"
    /\ Log(a, "") /\ UNCHANGED fsvars
    /\ LET f == files[0] IN
       IF ~f.ex THEN Return(a, Res("notfound", 0), 0)
       ELSE IF f.n = NChunks THEN Return(a, Res("ok", f.obj), 0)
       ELSE Return(a, Res("corrupt", 0), 0)

ListDir(a) ==
    /\ pc[a] = "list:dir"
    /\ Log(a, "") /\ UNCHANGED fsvars
    /\ LET shown == IF dir THEN { nm \in Names : files[nm].ex /\ ~Reserved(nm) } ELSE {} IN
       Return(a, Res("ok", IF 0 \in shown THEN 1 ELSE 0), Cardinality(shown \ {0}))

InFlight(a) == pc[a] \notin {"start", "next", "dead"}

Crash(a) ==
    /\ a \in Writers
    /\ InFlight(a)
    /\ pc' = [pc EXCEPT ![a] = "dead"]
    /\ configs' = AfterCrash(configs, a)
    /\ hist' = Append(hist, [a |-> a, p |-> pc[a], k |-> "crash"])
    /\ UNCHANGED <<fsvars, cur, op, nops>>

Step(a) ==
    \/ Invoke(a) \/ Validate(a) \/ Mkdirs(a) \/ Exists(a) \/ Create(a) \/ WriteChunk(a) \/ Flush(a) \/ Rename(a)
    \/ Done(a) \/ Fail(a) \/ Cleanup(a) \/ Unlink(a) \/ Read(a) \/ ListDir(a)

Next ==
    \E a \in Actors : Step(a) \/ Crash(a)

Spec == Init /\ [][Next]_vars
FairSpec == Spec /\ WF_vars(\E a \in Actors : Step(a))

-----------------------------------------------------------------------------
TypeOK ==
    /\ dir \in BOOLEAN
    /\ \A nm \in Names : files[nm].ex \in BOOLEAN /\ files[nm].n \in 0..NChunks
    /\ \A a \in Actors : nops[a] \in 0..MaxOps(a)

\* the key's path never holds a partial object
KeyNeverPartial == files[0].ex => files[0].n = NChunks

\* the judge explains the whole history (put semantics per the constant Strict)
Linearizable == configs # {}

\* temp files never outlive a writer that was not killed
NoOrphanWithoutCrash ==
    (\A a \in Writers : pc[a] \in {"start", "next"}) => \A nm \in Names \ {0} : ~files[nm].ex

Terminal == \A a \in Actors : pc[a] = "dead" \/ (pc[a] \in {"start", "next"} /\ nops[a] = MaxOps(a))
Terminates == <>Terminal
=============================================================================
