------------------------------ MODULE Trace_Store ------------------------------
(* Judges what harness/h_store recorded from the real cbh_storage::LocalStorage with StoreAbs (+ StoreKeys).

   Records (one JSON object per line):
     {"ev":"reset","init":v}                       new scenario; the key initially holds object v (0 = nothing)
     {"ev":"inv","t":c,"kind":k,"obj":o}           client c calls put|puto|get|del|list (o = object written, else 0)
     {"ev":"res","t":c,"r":r,"obj":o,"junk":j}     it returned: ok|exists|notfound|err|corrupt; get: o = object read
                                                   (99999 = bytes that are no object of the scenario); list: o = 1 iff
                                                   the key is listed, j = number of other names listed
     {"ev":"crash","t":c}                          client c died inside its operation (killed process / unwound thread)
     {"ev":"tree","outside":n,...}                 the harness walked the real directory tree: n entries beside the root
     {"ev":"key","key":[..],"valid":b,"put":..,"get":..,"listed":[[..]],"files":n,"outside":n}    one replayed key

   The monitor is a function of the history, so this specification is deterministic: every record is consumed; a
   record the judge cannot explain is printed as REJECT and the rest of that scenario (up to the next reset) is skipped,
   so one run reports every failing scenario.                                                                        *)
EXTENDS StoreAbs, StoreKeys, TraceLib

VARIABLES l, configs, cur, bad, strictio

Idle == [t \in Threads |-> NoOp]

TraceInit == l = 1 /\ configs = {InitConfig(0)} /\ cur = Idle /\ bad = FALSE /\ strictio = FALSE

Reject(r) ==
    /\ PrintT(<<"REJECT", ToJson([line |-> l, strict |-> Strict, rec |-> r])>>)
    /\ bad' = TRUE
    /\ UNCHANGED <<configs, cur, strictio>>

Keep == UNCHANGED <<configs, cur, bad, strictio>>

Consume(r) ==
    \* "nofault":1 on a reset: nothing in this scenario injects an I/O failure or a crash, so no operation may answer "err"
    \* (every stored object reads back, whatever its payload)
    IF r.ev = "reset" THEN /\ configs' = {InitConfig(r.init)} /\ cur' = Idle /\ bad' = FALSE
                           /\ strictio' = ("nofault" \in DOMAIN r /\ r.nofault = 1)
    ELSE IF r.ev = "tree" THEN IF TreeOk(r.outside) THEN Keep ELSE Reject(r)
    ELSE IF r.ev = "key" THEN
        IF KeyRecOk(r.key, r.valid, r.put, r.get, r.listed, r.files, r.outside) THEN Keep ELSE Reject(r)
    ELSE IF bad THEN Keep
    ELSE IF r.ev = "inv" THEN
        IF r.t \in Threads /\ CanInvoke(configs, r.t)
        THEN LET o == [kind |-> r.kind, obj |-> r.obj] IN
             /\ configs' = AfterInvoke(configs, cur, r.t, o)
             /\ cur' = [cur EXCEPT ![r.t] = o]
             /\ bad' = FALSE /\ UNCHANGED strictio
        ELSE Reject(r)
    ELSE IF r.ev = "res" THEN
        LET n == AfterRespond(configs, r.t, Res(r.r, r.obj), r.junk) IN
        IF n # {} /\ ~(strictio /\ r.r = "err") THEN configs' = n /\ UNCHANGED <<cur, bad, strictio>> ELSE Reject(r)
    ELSE IF r.ev = "crash" THEN configs' = AfterCrash(configs, r.t) /\ UNCHANGED <<cur, bad, strictio>>
    ELSE Reject(r)

TraceNext == l <= NRec /\ Consume(Rec[l]) /\ l' = l + 1

TraceSpec == TraceInit /\ [][TraceNext]_<<l, configs, cur, bad, strictio>>
=============================================================================
