------------------------------ MODULE StoreKeys ------------------------------
(* Object keys of the history store (packages/cbh_storage/src/keys.rs), over a small alphabet of symbol codes.

   A key is a sequence of symbols; code Slash separates segments.  Two layers:

   EXPLORER  Valid(key): the rule keys.rs implements on a Unix host.  validate_key splits at '/', and
             is_plain_segment(seg) asks std::path for the components of the segment: exactly one Component::Normal.
             A segment contains no '/', so std yields: nothing for "", CurDir for ".", ParentDir for "..", and one
             Normal component for every other string (backslash, colon, dash and longer dot runs are ordinary
             characters of a Unix file name).

   JUDGE     what the property demands, stated on path resolution, not on the code's rule:
             * a key whose resolution below the root climbs above the root at any point MUST be rejected (Escapes);
             * a key that is accepted must name exactly one object: what was put is read back, the listing of the
               whole store shows exactly that key (so no two accepted spellings can alias one file, and a key cannot
               come back renamed), exactly one file exists below the root and nothing at all was created beside it.
             The judge does not demand that any particular key is accepted.

   TLC checks (MC_StoreKeys) for every key up to MaxLen: Valid(key) => ~Escapes(key) /\ the resolved path is the
   literal segment sequence (no aliasing), and distinct valid keys resolve to distinct paths.                       *)
EXTENDS Naturals, Sequences, FiniteSets

\* symbol codes (the harness maps them to characters; see SymChars in harness/h_store/src/keys.rs)
SymA == 1   SymDot == 2   Slash == 3   Backslash == 4   Dash == 5   Colon == 6
Alphabet == 1..6

RECURSIVE SplitAt(_, _, _)
\* segments of s after position i, cur = segment being collected
SplitAt(s, i, cur) ==
    IF i > Len(s) THEN <<cur>>
    ELSE IF s[i] = Slash THEN <<cur>> \o SplitAt(s, i + 1, <<>>)
    ELSE SplitAt(s, i + 1, Append(cur, s[i]))

\* like str::split('/'): "" -> [""], "a/" -> ["a", ""], "/" -> ["", ""]
Segments(key) == SplitAt(key, 1, <<>>)

Dot == <<SymDot>>
DotDot == <<SymDot, SymDot>>

-----------------------------------------------------------------------------
\* explorer (keys.rs, Unix)
IsPlainSegment(seg) == seg # <<>> /\ seg # Dot /\ seg # DotDot
Valid(key) == \A i \in DOMAIN Segments(key) : IsPlainSegment(Segments(key)[i])

-----------------------------------------------------------------------------
\* judge (path resolution)
RECURSIVE Walk(_, _, _)
\* resolve segments left to right on a stack of directory names; escaped = climbed above the root at some point
Walk(segs, i, st) ==
    IF i > Len(segs) THEN [path |-> st.path, escaped |-> st.escaped]
    ELSE LET g == segs[i] IN
         IF g = <<>> \/ g = Dot THEN Walk(segs, i + 1, st)
         ELSE IF g = DotDot THEN
              IF st.path = <<>> THEN Walk(segs, i + 1, [path |-> <<>>, escaped |-> TRUE])
              ELSE Walk(segs, i + 1, [path |-> SubSeq(st.path, 1, Len(st.path) - 1), escaped |-> st.escaped])
         ELSE Walk(segs, i + 1, [path |-> Append(st.path, g), escaped |-> st.escaped])

Resolve(key) == Walk(Segments(key), 1, [path |-> <<>>, escaped |-> FALSE])

\* an absolute key (leading '/') would replace the root when pushed onto a PathBuf: it escapes as well
Absolute(key) == Len(key) >= 1 /\ key[1] = Slash
Escapes(key) == Resolve(key).escaped \/ Absolute(key)
Literal(key) == Resolve(key).path = Segments(key)

(* One replayed key:  valid = what validate_key said; put/get = outcome classes; listed = keys reported by list("")
   (as symbol sequences); files = regular files below the root afterwards; outside = entries created beside the root. *)
KeyRecOk(key, valid, put, get, listed, files, outside) ==
    /\ Escapes(key) => ~valid
    /\ outside = 0
    /\ IF valid
       THEN /\ put = "ok" => /\ get = "same"
                             /\ listed = <<key>>
                             /\ files = 1
            /\ put \in {"ok", "err"}
            /\ put = "err" => get # "same" /\ get # "corrupt"
       ELSE /\ put = "invalid"            \* a rejected key must be rejected by put as well, and nothing is written
            /\ files = 0
            /\ listed = <<>>
=============================================================================
