CONSTANTS
  Threads = {1, 2, 3, 4, 5, 6}
  Strict = FALSE
SPECIFICATION TraceSpec
POSTCONDITION Accepted
CHECK_DEADLOCK FALSE
