CONSTANT MaxLen = 3
INIT Init
NEXT Next
INVARIANT RuleSound RuleComplete GenCase
CHECK_DEADLOCK FALSE
