CONSTANTS
  Writers = {1, 2}
  Readers = {3}
  Threads = {1, 2, 3}
  WOps = 1
  ROps = 2
  NChunks = 2
  WriterKinds = {"put", "puto", "del"}
  ReaderKinds = {"get", "list"}
  InitVals = {0, 9}
  IoFail = TRUE
  ViaTemp = TRUE
  TempReserved = TRUE
  CheckExists = TRUE
  Strict = FALSE
SPECIFICATION FairSpec
VIEW View
INVARIANT TypeOK KeyNeverPartial LinOrWitness NoOrphanWithoutCrash
PROPERTY Terminates
CHECK_DEADLOCK FALSE
