------------------------------ MODULE StoreAbs ------------------------------
(* JUDGE for C19: what the local history store owes its clients, stated on ONE key at the level of the Storage port
   (put / put_overwrite / get / delete / list), for any number of concurrent clients and for clients that die.

     * a key holds nothing (0) or one complete object (an object id > 0);
     * put(o)            : key empty -> holds o, "ok";  key holds something -> "exists", unchanged      (write-once)
     * put_overwrite(o)  : holds o, "ok"
     * delete            : holds something -> empty, "ok";  empty -> "notfound"
     * get               : the object held ("ok", obj) or "notfound" -- never anything else: a reader that is handed a
                           partial / undecodable / foreign object reports "corrupt", which no behaviour of this
                           specification produces
     * list              : exactly the key if it holds an object, nothing otherwise, and never any other name
                           (junk = number of other names reported, must be 0: temporary files are not objects)
     * any operation may fail with "err" and then has had no effect at all
     * a client that dies in the middle of an operation has either completed the effect of that operation or had no
       effect: afterwards everybody sees exactly the old content or the complete new object.

   Concurrent histories are judged by linearizability against that sequential register, decided with the
   configuration-set monitor (DESIGN 3.2): `configs` is the set of all (register value, per-client progress) pairs that are
   consistent with the invocations and responses seen so far; the history is linearizable iff the set never becomes
   empty.  Everything is a pure function of the history, so the monitor is deterministic: the same operators are used
   by the explorer (LocalStore.tla, all interleavings) and by the trace judge (Trace_Store.tla, real executions).

   Strict = TRUE   put is one atomic test-and-write: the write-once register the port documentation and the
                   repository's design document describe ("a second clean run of the same commit fails atomically
                   with nothing written").
   Strict = FALSE  put is  test (key empty at some instant of the call) ; later, write (unconditionally, atomically).
                   This is all an exists-check followed by a rename can guarantee; it differs from the strict register
                   only for a put that OVERLAPS another successful write of the same key.  A history accepted here
                   and rejected under Strict is exactly the known check/publish split (S10); a history rejected here is
                   something else.                                                                               *)
EXTENDS Naturals, FiniteSets, Sequences

CONSTANTS Threads,    \* client ids
          Strict

Kinds == {"put", "puto", "get", "del", "list"}

NoOp  == [kind |-> "none", obj |-> 0]
NoRes == [r |-> "none", obj |-> 0]
Res(r, o) == [r |-> r, obj |-> o]

\* one configuration: register value, and for every client: idle | pend (invoked, nothing happened yet) |
\* chk (non-strict put that has seen the key empty) | lin (took effect; `out` is what it must return)
InitConfig(v) == [val |-> v, st |-> [t \in Threads |-> "idle"], out |-> [t \in Threads |-> NoRes]]

Lin(c, t, v, res) == [val |-> v, st |-> [c.st EXCEPT ![t] = "lin"], out |-> [c.out EXCEPT ![t] = res]]

\* successors of configuration c by one atomic step of client t's pending operation
StepT(c, t, ops) ==
    LET o == ops[t] IN
    IF c.st[t] = "pend" THEN
        {Lin(c, t, c.val, Res("err", 0))} \cup
        (CASE o.kind = "put"  -> IF c.val # 0 THEN {Lin(c, t, c.val, Res("exists", 0))}
                                 ELSE IF Strict THEN {Lin(c, t, o.obj, Res("ok", 0))}
                                 ELSE {[c EXCEPT !.st[t] = "chk"]}
           [] o.kind = "puto" -> {Lin(c, t, o.obj, Res("ok", 0))}
           [] o.kind = "del"  -> IF c.val # 0 THEN {Lin(c, t, 0, Res("ok", 0))} ELSE {Lin(c, t, 0, Res("notfound", 0))}
           [] o.kind = "get"  -> IF c.val # 0 THEN {Lin(c, t, c.val, Res("ok", c.val))}
                                 ELSE {Lin(c, t, 0, Res("notfound", 0))}
           [] o.kind = "list" -> {Lin(c, t, c.val, Res("ok", IF c.val # 0 THEN 1 ELSE 0))}
           [] OTHER -> {})
    ELSE IF c.st[t] = "chk" THEN {Lin(c, t, o.obj, Res("ok", 0)), Lin(c, t, c.val, Res("err", 0))}
    ELSE {}

RECURSIVE Close(_, _)
Close(S, ops) ==
    LET N == S \cup UNION { StepT(p[1], p[2], ops) : p \in S \X Threads }
    IN IF N = S THEN S ELSE Close(N, ops)

-----------------------------------------------------------------------------
(* The monitor as pure functions of (configs, ops).  An empty result means: no linearization explains the history. *)

CanInvoke(cf, t) == \A c \in cf : c.st[t] = "idle"

AfterInvoke(cf, ops, t, o) ==
    Close({ [c EXCEPT !.st[t] = "pend"] : c \in cf }, [ops EXCEPT ![t] = o])

\* res = [r, obj];  junk = number of names a listing reported that are not the key
AfterRespond(cf, t, res, junk) ==
    IF junk # 0 THEN {}
    ELSE { [c EXCEPT !.st[t] = "idle", !.out[t] = NoRes] :
             c \in { d \in cf : d.st[t] = "lin" /\ d.out[t].r = res.r /\ d.out[t].obj = res.obj } }

\* the client died: whatever its operation did so far stays, the rest never happens
AfterCrash(cf, t) == { [c EXCEPT !.st[t] = "idle", !.out[t] = NoRes] : c \in cf }

-----------------------------------------------------------------------------
(* Stateless parts of the judge (single-client observations made on the real directory tree). *)

\* nothing the store did may live outside its root: `outside` = number of directory entries found beside the root
TreeOk(outside) == outside = 0

=============================================================================
