---- MODULE MC_LocalStore ----
EXTENDS LocalStore, Json
\* the schedule so far is not part of the state's identity: one witness per distinct state
View == <<dir, files, pc, op, nops, configs, cur>>
\* generator: the schedule that led to each distinct terminal state (stimulus for harness/h_store `sched`)
GenTerminal == Terminal => PrintT(<<"SCHED", ToJson(hist)>>)
\* Linearizable, printing the offending schedule when it fails
LinOrWitness == Linearizable \/ (PrintT(<<"CEX", ToJson(hist)>>) /\ FALSE)
====
