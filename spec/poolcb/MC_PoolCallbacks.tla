---- MODULE MC_PoolCallbacks ----
(* TLC-only part of the C04 explorer: constants and the generator (one PROG line per finished program). *)
EXTENDS PoolCallbacks, Json

AllDiscs == {"mutex", "refcell", "none"}

\* Generator: printed once per terminal state = once per program (execution is deterministic after Init).
GenProg == Done => PrintT(<<"PROG", ToJson([prog |-> prog, hist |-> hist, term |-> term,
                                             len |-> length, occ |-> Cardinality(Occ), m |-> guard.m])>>)
====
