------------------------------ MODULE PoolCallbacksAbs ------------------------------
(* JUDGE for C04: pools stay usable and consistent when user code they run panics or re-enters.

   The judge knows nothing about mutexes, RefCells, slabs or the order of steps inside an operation. It watches the
   events of one single-threaded program (harness h_poolcb, or the explorer's predicted `hist`) and keeps the abstract
   pool: which objects exist, who holds handles to them. Every event has a guard; an event whose guard is false is a
   violation of C04 in that execution. The guards, by clause of the property:

     TERMINATES   the process ends by itself ("end exit"); "end hung" (watchdog) and "end abort" are never accepted,
                  except an abort the user code itself causes (a second user panic while one is unwinding)
     OUTCOME      a top-level operation panics iff user code panicked in it or a re-entrant call made BY user code was
                  refused with a panic (refusing re-entrance by panicking is a terminating answer; hanging is not);
                  a panic raised by the pool on its own (poisoned lock, iterator out of slabs ...) is never accepted
     ONCE         a destructor runs only for an object that exists, at most once, and only when no handle is left
     NO-LEAK      when a top-level operation is over, every object without a handle (or whose only holder is gone)
                  has been destroyed -- also when the operation panicked
     ACCOUNTING   at quiescence len = number of existing objects, iteration yields exactly the existing objects,
                  capacity >= len and capacity - len further objects fit without capacity growing ("capfill");
                  inside user code len may additionally count objects destroyed in this operation

   Deliberately NOT required: any particular panic message, which re-entrant calls are served and which are refused,
   the value of capacity, slot reuse policy, whether bookkeeping happens before or after a destructor.           *)
EXTENDS Naturals, Sequences, FiniteSets, TLC

JMain == 0
JNone == 99
JObj == 1..40

VARIABLES
    jlive,      \* objects in the pool whose destructor has not run
    jdead,      \* objects whose destructor has run
    jown,       \* JObj -> JMain | object | JNone : holder of the handle(s)
    jrc,        \* JObj -> number of handles
    jfill,      \* silent filler objects (counted by len / iteration, never touched)
    jcall,      \* [active, a, o] the top-level operation in progress
    jacts,      \* open re-entrant actions of user code (stack of [a, o])
    jpan,       \* a user panic or a refusal happened in this operation
    jdouble,    \* user code panicked while a panic was already unwinding
    jcdead,     \* objects destroyed during this operation
    jcins       \* objects inserted during this operation

jvars == <<jlive, jdead, jown, jrc, jfill, jcall, jacts, jpan, jdouble, jcdead, jcins>>

Idle == [active |-> FALSE, a |-> "-", o |-> 0]

JInit ==
    /\ jlive = {} /\ jdead = {}
    /\ jown = [o \in JObj |-> JNone] /\ jrc = [o \in JObj |-> 0]
    /\ jfill = 0 /\ jcall = Idle /\ jacts = <<>> /\ jpan = FALSE /\ jdouble = FALSE /\ jcdead = {} /\ jcins = {}

SeqToSet(s) == { s[i] : i \in DOMAIN s }

\* NO-LEAK: every existing object is held, by main or by an object that still exists
NoLeak == \A o \in jlive : jrc[o] >= 1 /\ (jown[o] = JMain \/ jown[o] \in jlive)

DropHandleOf(o) ==
    /\ jrc' = [jrc EXCEPT ![o] = @ - 1]
    /\ jown' = IF jrc[o] = 1 THEN [jown EXCEPT ![o] = JNone] ELSE jown

-----------------------------------------------------------------------------------------------------------
(* one action per event kind; r is the record *)

JSetup(r) ==
    /\ r.ev = "setup" /\ ~jcall.active
    /\ jlive' = { r.objs[i].o : i \in DOMAIN r.objs }
    /\ jown' = [o \in JObj |-> IF \E i \in DOMAIN r.objs : r.objs[i].o = o
                               THEN (LET i == CHOOSE i \in DOMAIN r.objs : r.objs[i].o = o IN r.objs[i].owner)
                               ELSE JNone]
    /\ jrc' = [o \in JObj |-> IF \E i \in DOMAIN r.objs : r.objs[i].o = o
                              THEN (LET i == CHOOSE i \in DOMAIN r.objs : r.objs[i].o = o IN r.objs[i].rc)
                              ELSE 0]
    /\ jfill' = r.v
    /\ UNCHANGED <<jdead, jcall, jacts, jpan, jdouble, jcdead, jcins>>

JCall(r) ==
    /\ r.ev = "call" /\ ~jcall.active
    /\ jcall' = [active |-> TRUE, a |-> r.a, o |-> r.o]
    /\ jacts' = <<>> /\ jpan' = FALSE /\ jdouble' = FALSE /\ jcdead' = {} /\ jcins' = {}
    /\ IF r.a = "drop"
       THEN /\ r.o \in jlive /\ jown[r.o] = JMain /\ jrc[r.o] >= 1
            /\ DropHandleOf(r.o)
       ELSE UNCHANGED <<jown, jrc>>
    /\ UNCHANGED <<jlive, jdead, jfill>>

JCb(r) ==
    /\ r.ev = "cb" /\ jcall.active
    /\ IF r.a = "dtor"
       THEN /\ r.o \in jlive                 \* ONCE: exists, not destroyed before
            /\ jrc[r.o] = 0                  \* ONCE: only when the last handle is gone
            /\ jlive' = jlive \ {r.o} /\ jdead' = jdead \cup {r.o} /\ jcdead' = jcdead \cup {r.o}
       ELSE /\ jcall.a \in {"iw", "wi", "iter"}
            /\ UNCHANGED <<jlive, jdead, jcdead>>
    /\ UNCHANGED <<jown, jrc, jfill, jcall, jacts, jpan, jdouble, jcins>>

JCbEnd(r) ==
    /\ r.ev = "cbend" /\ jcall.active
    /\ UNCHANGED jvars

JUPanic(r) ==
    /\ r.ev = "upanic" /\ jcall.active
    /\ jdouble' = (jdouble \/ jpan)          \* a panic is already in flight: the process will abort, by the user's doing
    /\ jpan' = TRUE
    /\ UNCHANGED <<jlive, jdead, jown, jrc, jfill, jcall, jacts, jcdead, jcins>>

JPanic(r) ==
    /\ r.ev = "panic" /\ jcall.active
    /\ \/ r.a = "user" /\ jpan                                   \* announced by upanic
       \/ r.a \notin {"user", "cleanup"} /\ jacts # <<>>         \* OUTCOME: a re-entrant call of user code is refused
       \/ r.a = "cleanup" /\ jdouble                             \* TERMINATES: only the user's own double panic
    /\ jpan' = TRUE
    /\ UNCHANGED <<jlive, jdead, jown, jrc, jfill, jcall, jacts, jdouble, jcdead, jcins>>

JAct(r) ==
    /\ r.ev = "act" /\ jcall.active
    /\ jacts' = Append(jacts, [a |-> r.a, o |-> r.o])
    /\ IF r.a = "drop"
       THEN /\ r.o \in jlive /\ jrc[r.o] >= 1
            /\ DropHandleOf(r.o)
       ELSE UNCHANGED <<jown, jrc>>
    /\ UNCHANGED <<jlive, jdead, jfill, jcall, jpan, jdouble, jcdead, jcins>>

JActRet(r) ==
    /\ r.ev = "actret" /\ jcall.active /\ jacts # <<>>
    /\ LET t == jacts[Len(jacts)] IN
       /\ t.a = r.a
       /\ t.a = "drop" => (jrc[t.o] = 0 => t.o \in jdead)        \* the last handle's drop destroyed the object
       /\ t.a = "len" => /\ r.v >= Cardinality(jlive) + jfill    \* ACCOUNTING inside user code
                         /\ r.v <= Cardinality(jlive) + Cardinality(jcdead) + jfill
    /\ jacts' = SubSeq(jacts, 1, Len(jacts) - 1)
    /\ UNCHANGED <<jlive, jdead, jown, jrc, jfill, jcall, jpan, jdouble, jcdead, jcins>>

JIns(r) ==
    /\ r.ev = "ins" /\ jcall.active
    /\ r.o \notin jlive \cup jdead
    /\ jlive' = jlive \cup {r.o} /\ jcins' = jcins \cup {r.o}
    /\ jown' = [jown EXCEPT ![r.o] = JMain] /\ jrc' = [jrc EXCEPT ![r.o] = 1]
    /\ UNCHANGED <<jdead, jfill, jcall, jacts, jpan, jdouble, jcdead>>

JIterated(r) ==
    /\ r.ev = "iterated" /\ jcall.active
    /\ LET ids == SeqToSet(r.ids) IN
       IF jcall.a = "iter"
       THEN /\ ids = jlive /\ r.v = Cardinality(jlive) + jfill   \* ACCOUNTING at quiescence
       ELSE /\ (jlive \ jcins) \subseteq ids /\ ids \subseteq jlive \cup jcdead
            /\ r.v = Cardinality(ids) + jfill
    /\ UNCHANGED jvars

JRet(r) ==
    /\ r.ev = "ret" /\ jcall.active
    /\ (r.a = "panicked") <=> jpan                               \* OUTCOME
    /\ NoLeak                                                    \* NO-LEAK
    /\ (r.a = "returned" /\ jcall.a = "len") => r.v = Cardinality(jlive) + jfill
    /\ (r.a = "returned" /\ jcall.a = "cap") => r.v >= Cardinality(jlive) + jfill
    /\ (r.a = "returned" /\ jcall.a = "capfill") => r.v = 0     \* capacity-len more objects fit without growing
    /\ jcall' = Idle /\ jacts' = <<>>
    /\ UNCHANGED <<jlive, jdead, jown, jrc, jfill, jpan, jdouble, jcdead, jcins>>

JEnd(r) ==
    /\ r.ev = "end"
    /\ \/ r.a = "exit" /\ ~jcall.active                          \* TERMINATES
       \/ r.a = "abort" /\ jdouble
    /\ UNCHANGED jvars

\* diagnosis only (used in REJECT lines): which clause the unacceptable record breaks
\* Summary of a multi-threaded run (h_poolmt dtor-race): one thread dropped r.bombs handles of objects whose destructor
\* panics while 3 threads called len() and one inserted/dropped harmless objects on the same pool.  The destructor panic of
\* one thread is "the earlier event" for every operation of the others: none of them may panic (or observe more than the two
\* objects that can be alive), no thread may die, and afterwards the pool is empty and usable.
JRace(r) ==
    /\ r.ev = "dtorrace"
    /\ r.bomb_panics <= r.bombs
    /\ r.obs_panics = 0 /\ r.wr_panics = 0 /\ r.wrong_len = 0
    /\ r.joined = 4 /\ r.final_len = 0 /\ r.final_cycle = 1
    /\ UNCHANGED jvars

JWhy(r) ==
    CASE r.ev = "end" -> r.a
      [] r.ev = "dtorrace" -> IF r.obs_panics + r.wr_panics > 0 THEN "other-thread-op-panicked"
                              ELSE IF r.final_len # 0 \/ r.final_cycle # 1 THEN "pool-broken-afterwards" ELSE "wrong-len-or-thread-died"
      [] r.ev = "panic" -> "pool-panic"
      [] r.ev = "ret" /\ ~jcall.active -> "protocol"
      [] r.ev = "ret" /\ ~((r.a = "panicked") <=> jpan) -> "outcome"
      [] r.ev = "ret" /\ ~NoLeak -> "leak"
      [] r.ev = "ret" -> "stale-" \o jcall.a
      [] r.ev = "iterated" -> "bad-iteration"
      [] r.ev = "cb" /\ r.a = "dtor" /\ r.o \in jdead -> "double-destroy"
      [] r.ev = "cb" /\ r.a = "dtor" /\ r.o \in jlive -> "destroyed-while-held"
      [] r.ev = "actret" -> "bad-reentrant-result"
      [] OTHER -> "protocol"

JStep(r) ==
    \/ JSetup(r) \/ JCall(r) \/ JCb(r) \/ JCbEnd(r) \/ JUPanic(r) \/ JPanic(r) \/ JAct(r) \/ JActRet(r)
    \/ JIns(r) \/ JIterated(r) \/ JRet(r) \/ JEnd(r) \/ JRace(r)
=============================================================================
