------------------------------ MODULE PoolCallbacks ------------------------------
(* EXPLORER for C04: what the infinity_pool code does, step by step, when user code that a pool runs
   (an object's destructor, an insert_with initialiser, a with_iter closure) panics or re-enters the pool.

   One behaviour = one single-threaded PROGRAM, chosen nondeterministically in Init:
     * a guard discipline        mutex   (OpaquePool / PinnedPool / BlindPool:  Arc<Mutex<raw pool>>)
                                 refcell (LocalOpaquePool / LocalPinnedPool / LocalBlindPool: Rc<RefCell<raw pool>>)
                                 none    (RawOpaquePool / RawPinnedPool / RawBlindPool: &mut self, no re-entrance possible)
     * an object graph           object 1 is held by main; objects 2,3 are owned (as fields) by other objects
     * a destructor body per object   ret | panic | len (query the pool) | insert (insert a fresh object)
     * a triggering operation    drop(handle of 1) | insert_with(closure) | with_iter(closure),
                                 closure script plain | panic | len | insert | drop (the captured handle of 1)
   followed by the fixed probe sequence of the harness (len, iterate, capacity, insert, drop, drop everything, len).
   Everything after Init is deterministic: the stack machine below interprets the program with the step order
   of the code and Rust's unwinding rules.

   Step order mirrored (file: function):
     handles/managed_mut.rs, managed.rs (Remover), blind_managed*.rs : Drop = lock().expect(NEVER_POISONED);
                                       [DropCatches: catch_unwind(] pool.remove(h) [); drop(guard); resume_unwind]
     handles/local_mut.rs, local.rs, blind_local*.rs                 : Drop = borrow_mut(); pool.remove(h)
     opaque/pool_raw.rs remove       : [BookFirst: length-1, vacancy]  slab.remove(h)  [~BookFirst: length-1, vacancy]
     opaque/slab.rs remove           : slot := Vacant, free list, count-1, THEN drop(old_meta) = the destructor
     opaque/pool_managed.rs insert_with / with_iter : lock; catch_unwind(closure); drop(guard); resume_unwind
     opaque/pool_local.rs   insert_with / with_iter : borrow_mut / borrow; closure   (RefMut/Ref released by unwinding)
     opaque/pool_raw.rs RawOpaquePoolIterator       : yields occupied slots while yielded < length;
                                                      panics ("there must still be a slab") when slabs run out first
   Rust rules mirrored: a struct's fields are dropped after its Drop::drop body, also when the body panicked
   (then during unwinding); a panic that escapes a destructor which runs during unwinding aborts the process;
   MutexGuard::drop poisons iff the thread is panicking now and was not when the lock was taken;
   std Mutex self-relock never returns (deadlock); RefCell refuses a conflicting borrow by panicking.

   The behaviour is exported as the event list `hist` in the vocabulary of the harness (h_poolcb) so that
   (a) the judge PoolCallbacksAbs can be run on the PREDICTED trace, and (b) the real trace can be compared
   event by event with the prediction (fidelity / drift measurement).                                        *)
EXTENDS Naturals, Sequences, FiniteSets, TLC

CONSTANTS
    Discs,        \* subset of {"mutex", "refcell", "none"}
    MaxN,         \* scripted objects per program (<= 3)
    MaxDepth,     \* bound on nested callbacks
    CatchUnwind,  \* TRUE = managed insert_with / with_iter catch the unwind before releasing the guard (the code)
    DropCatches,  \* TRUE = the managed handles' Drop catches the destructor's unwind, releases the guard, resumes
    BookFirst     \* TRUE = RawOpaquePool::remove updates length/vacancy before the destructor runs

MaxObj  == 12                     \* scripted 1..3, bystander, fresh objects
Obj     == 1..MaxObj
Main    == 0
NoOwner == 99

VARIABLES
    prog,     \* the program (never changes)
    ost,      \* Obj -> "none" | "live" | "dead"            (dead = destructor has run)
    slot,     \* Obj -> "none" | "occ" | "vac"              (slot tag in the slab)
    owner,    \* Obj -> Main | Obj | NoOwner                (who holds the handle(s))
    rc,       \* Obj -> number of handles (shared handle clones)
    count,    \* slab-level count of occupied slots (Slab::count)
    length,   \* pool-level length (RawOpaquePool::length)
    slabs,    \* number of slabs (0 or 1 here; capacity = slabs * slab capacity)
    guard,    \* [m : "free"|"held"|"poisoned", ex : BOOLEAN, sh : Nat]
    stack,    \* call stack of frames
    unw,      \* a panic is unwinding through the stack
    term,     \* "" | "deadlock" | "abort"
    mpc,      \* index of the next top-level operation of main
    busy,     \* a top-level call is in progress
    next,     \* next fresh object id
    rv,       \* value returned by the last completed inner operation
    hist      \* event list

vars == <<prog, ost, slot, owner, rc, count, length, slabs, guard, stack, unw, term, mpc, busy, next, rv, hist>>

-----------------------------------------------------------------------------------------------------------
(* Programs *)

BodyActs(d) == IF d = "none" THEN {"ret", "panic"} ELSE {"ret", "panic", "len", "insert"}
ClosureScripts(d) == IF d = "none" THEN {"plain", "panic"} ELSE {"plain", "panic", "len", "insert", "drop"}

\* shapes: <<number of scripted objects, parent of 1, of 2, of 3, height>>
Shapes ==
    { s \in { <<1, 0, 0, 0, 1>>, <<2, 0, 1, 0, 2>>, <<3, 0, 1, 1, 2>>, <<3, 0, 1, 2, 3>> } : s[1] <= MaxN }

Scripts(d, n) == { f \in [1..3 -> BodyActs(d)] : \A i \in 1..3 : i > n => f[i] = "ret" }

DropShapes == { s \in Shapes : s[5] <= MaxDepth }
ClosureShapes == { s \in Shapes : s[5] + 1 <= MaxDepth }

Prog(d, it, s, f, b, hk, op, sc) ==
    [disc |-> d, it |-> it, n |-> s[1], par |-> <<s[2], s[3], s[4]>>, dt |-> f, by |-> b, hk |-> hk, op |-> op, sc |-> sc]

NoShape == <<0, 0, 0, 0, 0>>

ProgramsOf(d) ==
    \* drop(handle of 1)
    \* (raw handles have no Drop: an object of a raw pool cannot own another object's removal, so one object only)
    UNION { { Prog(d, it, s, f, b, hk, "drop", "-") :
                f \in Scripts(d, s[1]), b \in {0, 1}, it \in BOOLEAN,
                hk \in (IF d = "none" THEN {"unique"} ELSE {"unique", "shared"}) } :
            s \in { s \in DropShapes : d = "none" => s[1] = 1 } }
    \cup
    \* insert_with / with_iter whose closure does not touch a scripted object
    { Prog(d, it, NoShape, [i \in 1..3 |-> "ret"], b, "unique", op, sc) :
                op \in {"iw", "wi"}, sc \in ClosureScripts(d) \ {"drop"}, b \in {0, 1}, it \in BOOLEAN }
    \cup
    \* insert_with / with_iter whose closure drops the captured handle of object 1
    (IF d = "none" THEN {} ELSE
     UNION { { Prog(d, it, s, f, b, "unique", op, "drop") :
                op \in {"iw", "wi"}, f \in Scripts(d, s[1]), b \in {0, 1}, it \in BOOLEAN } : s \in ClosureShapes })

Programs == UNION { ProgramsOf(d) : d \in Discs }

WellFormed(p) ==
    /\ \A i \in 1..3 : i > p.n => p.dt[i] = "ret"
    /\ p.op = "wi" => (p.it /\ p.disc # "none")      \* with_iter(closure) exists on opaque/pinned managed + local pools
    /\ (p.disc = "none" /\ p.op = "wi") => FALSE

-----------------------------------------------------------------------------------------------------------
(* Helpers *)

Ev(e, a, o, v) == [ev |-> e, a |-> a, o |-> o, v |-> v]
Log(e) == hist' = Append(hist, e)
Log2(e1, e2) == hist' = hist \o <<e1, e2>>

\* uw (destructor frames): 0 = running normally
\*   1 = a field's drop panicked: the slice glue's landing pad drops the remaining fields (calls from a landing pad)
\*   2 = the Drop::drop body panicked: the fields are dropped by ONE call made from the object glue's landing pad
\*   3 = inside 2 a field's drop panicked: remaining fields dropped from the slice glue's landing pad; when that is
\*       done the second panic leaves a call made from a landing pad: abort
Frame(k, o, a) == [k |-> k, pc |-> 1, o |-> o, a |-> a, g |-> "none", pal |-> FALSE, cl |-> FALSE, uw |-> 0]

Top == stack[Len(stack)]
Below == SubSeq(stack, 1, Len(stack) - 1)
SetTop(f) == [stack EXCEPT ![Len(stack)] = f]
Panicking == \E i \in 1..Len(stack) : stack[i].uw > 0     \* std::thread::panicking() (a panic is in flight)
CbDepth == Cardinality({ i \in 1..Len(stack) : stack[i].k \in {"dtor", "init", "itc"} })

Occ == { o \in Obj : slot[o] = "occ" }
Owned(x) == { y \in Obj : owner[y] = x /\ rc[y] > 0 }
Min(S) == CHOOSE x \in S : \A y \in S : x <= y

FreeGuard == [m |-> "free", ex |-> FALSE, sh |-> 0]

\* acquisition: "ok" | "deadlock" | "poisoned" | "borrow"
TryAcq(mode) ==
    CASE prog.disc = "none" -> "ok"
      [] prog.disc = "mutex" -> (CASE guard.m = "free" -> "ok" [] guard.m = "held" -> "deadlock" [] OTHER -> "poisoned")
      [] OTHER -> IF mode = "ex" THEN (IF guard.ex \/ guard.sh > 0 THEN "borrow" ELSE "ok")
                  ELSE (IF guard.ex THEN "borrow" ELSE "ok")

Acquired(mode) ==
    CASE prog.disc = "none" -> guard
      [] prog.disc = "mutex" -> [guard EXCEPT !.m = "held"]
      [] OTHER -> IF mode = "ex" THEN [guard EXCEPT !.ex = TRUE] ELSE [guard EXCEPT !.sh = @ + 1]

\* release of the guard held by frame f; `panicking` = the release happens on a landing pad
Released(f, panicking, catches) ==
    CASE f.g = "none" -> guard
      [] prog.disc = "mutex" -> IF panicking /\ ~f.pal /\ ~catches THEN [guard EXCEPT !.m = "poisoned"] ELSE [guard EXCEPT !.m = "free"]
      [] prog.disc = "refcell" -> IF f.g = "ex" THEN [guard EXCEPT !.ex = FALSE] ELSE [guard EXCEPT !.sh = @ - 1]
      [] OTHER -> guard

\* A panic is raised by the top frame (message class cls) and starts unwinding. (It aborts the process later, if and
\* when it tries to leave a call that was made from a landing pad: see Unwind.)
RaiseVars(cls, pre) ==
    /\ hist' = hist \o pre \o <<Ev("panic", cls, 0, 0)>>
    /\ unw' = TRUE /\ term' = term

-----------------------------------------------------------------------------------------------------------
(* Init *)

InitOst(p) == [o \in Obj |-> IF o <= p.n + p.by THEN "live" ELSE "none"]

Init ==
    /\ prog \in { p \in Programs : WellFormed(p) }
    /\ ost = InitOst(prog)
    /\ slot = [o \in Obj |-> IF o <= prog.n + prog.by THEN "occ" ELSE "none"]
    /\ owner = [o \in Obj |-> IF o <= prog.n THEN prog.par[o] ELSE IF o <= prog.n + prog.by THEN Main ELSE NoOwner]
    /\ rc = [o \in Obj |-> IF o <= prog.n + prog.by THEN (IF o = 1 /\ prog.hk = "shared" THEN 2 ELSE 1) ELSE 0]
    /\ count = prog.n + prog.by
    /\ length = prog.n + prog.by
    /\ slabs = IF prog.n + prog.by > 0 THEN 1 ELSE 0
    /\ guard = FreeGuard
    /\ stack = <<>>
    /\ unw = FALSE
    /\ term = ""
    /\ mpc = 1
    /\ busy = FALSE
    /\ next = prog.n + prog.by + 1
    /\ rv = 0
    /\ hist = <<>>

-----------------------------------------------------------------------------------------------------------
(* Main program: the trigger, then the probes of the harness.
   MainOps: 1 trigger (for a shared handle: first the clone, which only decrements), then
   len, iter, cap, ins (probe insert), len, then "fin": drop every handle main still holds (lowest id first),
   then len, capfill (insert capacity-len silent objects: capacity must not grow; remove them), for raw pools
   droppool (the pool was built with DropPolicy::MustNotDropContents and is empty now), then end.                                                                    *)

MainOwned == { o \in Obj : owner[o] = Main /\ rc[o] > 0 }

\* next top-level call as <<kind, object>>
NextCall ==
    CASE mpc = 1 -> IF prog.op = "drop" THEN <<"drop", 1>> ELSE <<prog.op, 0>>
      [] mpc = 2 -> IF prog.op = "drop" /\ prog.hk = "shared" THEN <<"drop", 1>> ELSE <<"skip", 0>>
      [] mpc = 3 -> <<"len", 0>>
      [] mpc = 4 -> IF prog.it THEN <<"iter", 0>> ELSE <<"skip", 0>>
      [] mpc = 5 -> <<"cap", 0>>
      [] mpc = 6 -> <<"ins", 0>>
      [] mpc = 7 -> <<"len", 0>>
      [] mpc = 8 -> IF MainOwned # {} THEN <<"drop", Min(MainOwned)>> ELSE <<"skip", 0>>
      [] mpc = 9 -> <<"len", 0>>
      [] mpc = 10 -> <<"capfill", 0>>
      [] mpc = 11 -> IF prog.disc = "none" THEN <<"droppool", 0>> ELSE <<"skip", 0>>
      [] OTHER -> <<"end", 0>>

MainStart ==
    /\ term = "" /\ stack = <<>> /\ ~unw /\ mpc <= 11 /\ ~busy
    /\ busy' = (NextCall[1] # "skip")
    /\ LET c == NextCall IN
       CASE c[1] = "skip" ->
              /\ mpc' = mpc + 1
              /\ UNCHANGED <<prog, ost, slot, owner, rc, count, length, slabs, guard, stack, unw, term, next, rv, hist>>
         [] c[1] = "drop" ->
              /\ stack' = <<Frame("drop", c[2], "-")>>
              /\ Log(Ev("call", "drop", c[2], 0))
              /\ UNCHANGED <<prog, ost, slot, owner, rc, count, length, slabs, guard, unw, term, mpc, next, rv>>
         [] c[1] = "ins" ->
              /\ stack' = <<Frame("insert", next, "-")>>
              /\ next' = next + 1
              /\ Log(Ev("call", "ins", 0, 0))
              /\ UNCHANGED <<prog, ost, slot, owner, rc, count, length, slabs, guard, unw, term, mpc, rv>>
         [] c[1] \in {"cap", "capfill", "droppool"} ->
              \* capacity() takes the guard like len(); modelled through the len frame, value not predicted.
              \* capfill starts with capacity(); dropping an empty raw pool touches no guard (disc = none).
              /\ stack' = <<Frame("len", 0, "cap")>>
              /\ Log(Ev("call", c[1], 0, 0))
              /\ UNCHANGED <<prog, ost, slot, owner, rc, count, length, slabs, guard, unw, term, mpc, next, rv>>
         [] c[1] = "iter" ->
              /\ stack' = <<Frame("wi", 0, "probe")>>
              /\ Log(Ev("call", "iter", 0, 0))
              /\ UNCHANGED <<prog, ost, slot, owner, rc, count, length, slabs, guard, unw, term, mpc, next, rv>>
         [] OTHER ->   \* len, iw, wi
              /\ stack' = <<Frame(c[1], 0, IF c[1] \in {"iw", "wi"} THEN prog.sc ELSE "-")>>
              /\ Log(Ev("call", c[1], 0, 0))
              /\ UNCHANGED <<prog, ost, slot, owner, rc, count, length, slabs, guard, unw, term, mpc, next, rv>>

\* the top-level call is over (returned or the panic reached main's catch_unwind)
MainFinish ==
    /\ term = "" /\ stack = <<>> /\ busy /\ mpc <= 11
    /\ busy' = FALSE
    /\ Log(Ev("ret", IF unw THEN "panicked" ELSE "returned", 0, IF unw THEN 0 ELSE rv))
    /\ unw' = FALSE
    \* "fin" (8) repeats while main still owns handles
    /\ mpc' = IF mpc = 8 /\ MainOwned # {} THEN 8 ELSE mpc + 1
    /\ UNCHANGED <<prog, ost, slot, owner, rc, count, length, slabs, guard, stack, term, next, rv>>

MainEnd ==
    /\ term = "" /\ stack = <<>> /\ mpc = 12 /\ ~unw /\ ~busy
    /\ UNCHANGED busy
    /\ mpc' = 13
    /\ Log(Ev("end", "exit", 0, 0))
    /\ UNCHANGED <<prog, ost, slot, owner, rc, count, length, slabs, guard, stack, unw, term, next, rv>>

-----------------------------------------------------------------------------------------------------------
(* Frames executing normally (no panic in flight) *)

Running == term = "" /\ stack # <<>> /\ ~unw

\* generic: acquire the guard in `mode` at pc 1, continue at pc 2
AcquireStep(mode) ==
    LET f == Top  r == TryAcq(mode) IN
    CASE r = "ok" ->
           /\ guard' = Acquired(mode)
           /\ stack' = SetTop([f EXCEPT !.pc = 2, !.g = IF prog.disc = "none" THEN "none" ELSE mode, !.pal = Panicking])
           /\ UNCHANGED <<hist, unw, term>>
      [] r = "deadlock" ->
           /\ term' = "deadlock"
           /\ UNCHANGED <<guard, stack, hist, unw>>
      [] OTHER ->      \* poisoned: lock() returned Err, expect() panics;  borrow: RefCell refuses
           /\ RaiseVars(r, <<>>)
           /\ UNCHANGED <<guard, stack>>

(* drop of one handle of object f.o:  Arc/Rc decrement; last one: take the guard, pool.remove *)
DropFrame ==
    /\ Running /\ Top.k = "drop"
    /\ UNCHANGED busy
    /\ LET f == Top  x == f.o IN
       CASE f.pc = 1 /\ rc[x] > 1 ->            \* not the last handle: only the reference count changes
              /\ rc' = [rc EXCEPT ![x] = @ - 1]
              /\ stack' = Below
              /\ rv' = 0
              /\ UNCHANGED <<prog, ost, slot, owner, count, length, slabs, guard, unw, term, mpc, next, hist>>
         [] f.pc = 1 /\ rc[x] <= 1 ->           \* last handle: the handle is gone whatever happens next
              /\ rc' = [rc EXCEPT ![x] = 0]
              /\ owner' = [owner EXCEPT ![x] = NoOwner]
              /\ AcquireStep("ex")
              /\ UNCHANGED <<prog, ost, slot, count, length, slabs, mpc, next, rv>>
         [] f.pc = 2 ->                          \* Slab::remove up to drop(old_meta); then the destructor
              /\ slot' = [slot EXCEPT ![x] = "vac"]
              /\ count' = count - 1
              /\ length' = IF BookFirst THEN length - 1 ELSE length
              /\ stack' = Append(SetTop([f EXCEPT !.pc = 3]), Frame("dtor", x, "-"))
              /\ UNCHANGED <<prog, ost, owner, rc, slabs, guard, unw, term, mpc, next, rv, hist>>
         [] f.pc = 3 ->                          \* destructor returned: bookkeeping (pre-fix order), release
              /\ length' = IF BookFirst THEN length ELSE length - 1
              /\ guard' = Released(f, FALSE, FALSE)
              /\ stack' = Below
              /\ rv' = 0
              /\ UNCHANGED <<prog, ost, slot, owner, rc, count, slabs, unw, term, mpc, next, hist>>
         [] OTHER -> FALSE

DtorBody(x) == IF x <= prog.n THEN prog.dt[x] ELSE "ret"

(* destructor of object f.o: Drop::drop body, then the fields (owned handles), lowest id first *)
DtorFrame ==
    /\ Running /\ Top.k = "dtor"
    /\ UNCHANGED busy
    /\ LET f == Top  x == f.o  b == DtorBody(x) IN
       CASE f.pc = 1 /\ b = "ret" ->
              /\ ost' = [ost EXCEPT ![x] = "dead"]
              /\ Log2(Ev("cb", "dtor", x, 0), Ev("cbend", "dtor", x, 0))
              /\ stack' = SetTop([f EXCEPT !.pc = 3])
              /\ UNCHANGED <<prog, slot, owner, rc, count, length, slabs, guard, unw, term, mpc, next, rv>>
         [] f.pc = 1 /\ b = "panic" ->
              /\ ost' = [ost EXCEPT ![x] = "dead"]
              /\ RaiseVars("user", <<Ev("cb", "dtor", x, 0), Ev("upanic", "dtor", x, 0)>>)
              /\ UNCHANGED <<prog, slot, owner, rc, count, length, slabs, guard, stack, mpc, next, rv>>
         [] f.pc = 1 /\ b = "len" ->
              /\ ost' = [ost EXCEPT ![x] = "dead"]
              /\ Log2(Ev("cb", "dtor", x, 0), Ev("act", "len", 0, 0))
              /\ stack' = Append(SetTop([f EXCEPT !.pc = 2]), Frame("len", 0, "-"))
              /\ UNCHANGED <<prog, slot, owner, rc, count, length, slabs, guard, unw, term, mpc, next, rv>>
         [] f.pc = 1 /\ b = "insert" ->
              /\ ost' = [ost EXCEPT ![x] = "dead"]
              /\ Log2(Ev("cb", "dtor", x, 0), Ev("act", "insert", 0, 0))
              /\ stack' = Append(SetTop([f EXCEPT !.pc = 2]), Frame("insert", next, "-"))
              /\ next' = next + 1
              /\ UNCHANGED <<prog, slot, owner, rc, count, length, slabs, guard, unw, term, mpc, rv>>
         [] f.pc = 2 ->                          \* the body's re-entrant call returned
              /\ Log2(Ev("actret", b, 0, rv), Ev("cbend", "dtor", x, 0))
              /\ stack' = SetTop([f EXCEPT !.pc = 3])
              /\ UNCHANGED <<prog, ost, slot, owner, rc, count, length, slabs, guard, unw, term, mpc, next, rv>>
         [] f.pc = 3 /\ Owned(x) # {} ->         \* drop glue: next owned handle
              /\ LET y == Min(Owned(x)) IN
                 /\ Log(Ev("act", "drop", y, 0))
                 /\ stack' = Append(SetTop([f EXCEPT !.pc = 4]), [Frame("drop", y, "-") EXCEPT !.cl = (f.uw \in {1, 3})])
              /\ UNCHANGED <<prog, ost, slot, owner, rc, count, length, slabs, guard, unw, term, mpc, next, rv>>
         [] f.pc = 4 ->
              /\ Log(Ev("actret", "drop", 0, 0))
              /\ stack' = SetTop([f EXCEPT !.pc = 3])
              /\ UNCHANGED <<prog, ost, slot, owner, rc, count, length, slabs, guard, unw, term, mpc, next, rv>>
         [] f.pc = 3 /\ Owned(x) = {} /\ f.uw < 3 ->   \* glue finished; if a panic is in flight, keep unwinding
              /\ stack' = Below
              /\ unw' = (f.uw > 0)
              /\ UNCHANGED <<prog, ost, slot, owner, rc, count, length, slabs, guard, term, mpc, next, rv, hist>>
         [] f.pc = 3 /\ Owned(x) = {} /\ f.uw = 3 ->   \* the second panic leaves the call made from the landing pad
              /\ term' = "abort"
              /\ Log(Ev("panic", "cleanup", 0, 0))
              /\ UNCHANGED <<prog, ost, slot, owner, rc, count, length, slabs, guard, stack, unw, mpc, next, rv>>
         [] OTHER -> FALSE

(* pool.len() / capacity(): guard (shared for RefCell), read, release *)
LenFrame ==
    /\ Running /\ Top.k = "len"
    /\ UNCHANGED busy
    /\ LET f == Top IN
       CASE f.pc = 1 ->
              /\ AcquireStep("sh")
              /\ UNCHANGED <<prog, ost, slot, owner, rc, count, length, slabs, mpc, next, rv>>
         [] f.pc = 2 ->
              /\ rv' = IF f.a = "cap" THEN 0 ELSE length
              /\ guard' = Released(f, FALSE, FALSE)
              /\ stack' = Below
              /\ UNCHANGED <<prog, ost, slot, owner, rc, count, length, slabs, unw, term, mpc, next, hist>>
         [] OTHER -> FALSE

(* pool.insert(fresh plain object f.o) *)
InsertFrame ==
    /\ Running /\ Top.k = "insert"
    /\ UNCHANGED busy
    /\ LET f == Top  o == f.o IN
       CASE f.pc = 1 ->
              /\ AcquireStep("ex")
              /\ UNCHANGED <<prog, ost, slot, owner, rc, count, length, slabs, mpc, next, rv>>
         [] f.pc = 2 ->
              /\ slot' = [slot EXCEPT ![o] = "occ"]
              /\ ost' = [ost EXCEPT ![o] = "live"]
              /\ owner' = [owner EXCEPT ![o] = Main]
              /\ rc' = [rc EXCEPT ![o] = 1]
              /\ count' = count + 1
              /\ length' = length + 1
              /\ slabs' = 1
              /\ guard' = Released(f, FALSE, FALSE)
              /\ stack' = Below
              /\ rv' = o
              /\ Log(Ev("ins", "insert", o, 0))
              /\ UNCHANGED <<prog, unw, term, mpc, next>>
         [] OTHER -> FALSE

(* the action of a closure script; continues at pc 2 (after a re-entrant call) or 3 *)
ClosureAct(f, kind) ==
    CASE f.a = "plain" ->
           /\ Log(Ev("cb", kind, 0, 0))
           /\ stack' = SetTop([f EXCEPT !.pc = 3])
           /\ UNCHANGED <<owner, rc, next, unw, term>>
      [] f.a = "panic" ->
           /\ RaiseVars("user", <<Ev("cb", kind, 0, 0), Ev("upanic", kind, 0, 0)>>)
           /\ UNCHANGED <<owner, rc, next, stack>>
      [] f.a = "len" ->
           /\ Log2(Ev("cb", kind, 0, 0), Ev("act", "len", 0, 0))
           /\ stack' = Append(SetTop([f EXCEPT !.pc = 2]), Frame("len", 0, "-"))
           /\ UNCHANGED <<owner, rc, next, unw, term>>
      [] f.a = "insert" ->
           /\ Log2(Ev("cb", kind, 0, 0), Ev("act", "insert", 0, 0))
           /\ stack' = Append(SetTop([f EXCEPT !.pc = 2]), Frame("insert", next, "-"))
           /\ next' = next + 1
           /\ UNCHANGED <<owner, rc, unw, term>>
      [] OTHER ->    \* "drop": the closure drops the handle of object 1 it captured
           /\ Log2(Ev("cb", kind, 0, 0), Ev("act", "drop", 1, 0))
           /\ stack' = Append(SetTop([f EXCEPT !.pc = 2]), Frame("drop", 1, "-"))
           /\ UNCHANGED <<owner, rc, next, unw, term>>

(* insert_with(closure): guard; [slab]; closure initialises in place; slot occupied, count, length; release *)
IwFrame ==
    /\ Running /\ Top.k = "iw"
    /\ UNCHANGED busy
    /\ LET f == Top IN
       CASE f.pc = 1 ->
              /\ AcquireStep("ex")
              /\ UNCHANGED <<prog, ost, slot, owner, rc, count, length, slabs, mpc, next, rv>>
         [] f.pc = 2 ->       \* index_of_slab_to_insert_into may allocate; then the closure runs
              /\ slabs' = 1
              /\ stack' = Append(SetTop([f EXCEPT !.pc = 3]), Frame("init", 0, f.a))
              /\ UNCHANGED <<prog, ost, slot, owner, rc, count, length, guard, unw, term, mpc, next, rv, hist>>
         [] f.pc = 3 ->       \* closure returned: rv = id of the object it wrote
              /\ slot' = [slot EXCEPT ![rv] = "occ"]
              /\ ost' = [ost EXCEPT ![rv] = "live"]
              /\ owner' = [owner EXCEPT ![rv] = Main]
              /\ rc' = [rc EXCEPT ![rv] = 1]
              /\ count' = count + 1
              /\ length' = length + 1
              /\ guard' = Released(f, FALSE, FALSE)
              /\ stack' = Below
              /\ Log(Ev("ins", "iw", rv, 0))
              /\ UNCHANGED <<prog, slabs, unw, term, mpc, next, rv>>
         [] OTHER -> FALSE

InitFrame ==
    /\ Running /\ Top.k = "init"
    /\ UNCHANGED busy
    /\ LET f == Top IN
       CASE f.pc = 1 ->
              /\ ClosureAct(f, "init")
              /\ UNCHANGED <<prog, ost, slot, count, length, slabs, guard, mpc, rv>>
         [] f.pc = 2 ->
              /\ Log(Ev("actret", f.a, 0, rv))
              /\ stack' = SetTop([f EXCEPT !.pc = 3])
              /\ UNCHANGED <<prog, ost, slot, owner, rc, count, length, slabs, guard, unw, term, mpc, next, rv>>
         [] f.pc = 3 ->       \* construct the object in place
              /\ rv' = next
              /\ next' = next + 1
              /\ Log(Ev("cbend", "init", next, 0))
              /\ stack' = Below
              /\ UNCHANGED <<prog, ost, slot, owner, rc, count, length, slabs, guard, unw, term, mpc>>
         [] OTHER -> FALSE

RECURSIVE SortedSeq(_)
SortedSeq(S) == IF S = {} THEN <<>> ELSE <<Min(S)>> \o SortedSeq(S \ {Min(S)})

\* what RawOpaquePoolIterator yields when driven to the end, and whether it panics
IterYield == IF length <= Cardinality(Occ) THEN length ELSE Cardinality(Occ)
IterPanics == length > Cardinality(Occ)

(* with_iter(closure) (f.a = script), or the harness's iteration probe (f.a = "probe"):
   guard (shared for RefCell); closure; release. Raw pools iterate directly (probe only).                     *)
WiFrame ==
    /\ Running /\ Top.k = "wi"
    /\ UNCHANGED busy
    /\ LET f == Top IN
       CASE f.pc = 1 ->
              /\ AcquireStep("sh")
              /\ UNCHANGED <<prog, ost, slot, owner, rc, count, length, slabs, mpc, next, rv>>
         [] f.pc = 2 ->
              /\ stack' = Append(SetTop([f EXCEPT !.pc = 3]), Frame("itc", 0, IF f.a = "probe" THEN "plain" ELSE f.a))
              /\ UNCHANGED <<prog, ost, slot, owner, rc, count, length, slabs, guard, unw, term, mpc, next, rv, hist>>
         [] f.pc = 3 ->
              /\ guard' = Released(f, FALSE, FALSE)
              /\ stack' = Below
              /\ UNCHANGED <<prog, ost, slot, owner, rc, count, length, slabs, unw, term, mpc, next, rv, hist>>
         [] OTHER -> FALSE

ItcFrame ==
    /\ Running /\ Top.k = "itc"
    /\ UNCHANGED busy
    /\ LET f == Top IN
       CASE f.pc = 1 ->
              /\ ClosureAct(f, "iter")
              /\ UNCHANGED <<prog, ost, slot, count, length, slabs, guard, mpc, rv>>
         [] f.pc = 2 ->
              /\ Log(Ev("actret", f.a, 0, rv))
              /\ stack' = SetTop([f EXCEPT !.pc = 3])
              /\ UNCHANGED <<prog, ost, slot, owner, rc, count, length, slabs, guard, unw, term, mpc, next, rv>>
         [] f.pc = 3 /\ ~IterPanics ->      \* drive the iterator to the end
              /\ rv' = IterYield
              /\ Log2([ev |-> "iterated", a |-> "iter", o |-> 0, v |-> IterYield, ids |-> SortedSeq(Occ)],
                      Ev("cbend", "iter", 0, 0))
              /\ stack' = Below
              /\ UNCHANGED <<prog, ost, slot, owner, rc, count, length, slabs, guard, unw, term, mpc, next>>
         [] f.pc = 3 /\ IterPanics ->
              /\ RaiseVars("slab", <<>>)
              /\ UNCHANGED <<prog, ost, slot, owner, rc, count, length, slabs, guard, stack, mpc, next, rv>>
         [] OTHER -> FALSE

-----------------------------------------------------------------------------------------------------------
(* Unwinding: the top frame is left through its landing pad *)

Unwind ==
    /\ term = "" /\ unw /\ stack # <<>>
    /\ LET f == Top IN
       CASE f.cl ->
              \* the panic is about to leave a call that was made from a landing pad:
              \* "panic in a destructor during cleanup", abort
              /\ term' = "abort"
              /\ hist' = Append(hist, Ev("panic", "cleanup", 0, 0))
              /\ UNCHANGED <<guard, stack, unw>>
         [] f.k = "dtor" /\ f.uw \in {0, 2} ->
              \* the body panicked (pc <= 2): fields dropped by a call from the glue's landing pad (2);
              \* a field's drop panicked (pc = 4): the remaining fields are dropped from the slice glue's landing pad (1, 3)
              /\ stack' = SetTop([f EXCEPT !.pc = 3, !.uw = IF f.uw = 2 THEN 3 ELSE IF f.pc = 4 THEN 1 ELSE 2])
              /\ unw' = FALSE
              /\ UNCHANGED <<guard, hist, term>>
         [] f.k \in {"iw", "wi"} ->
              \* managed: catch_unwind, drop(guard) outside the panic, resume_unwind;  local: RefMut/Ref dropped
              /\ guard' = Released(f, TRUE, CatchUnwind)
              /\ stack' = Below
              /\ UNCHANGED <<unw, hist, term>>
         [] OTHER ->
              /\ guard' = Released(f, TRUE, f.k = "drop" /\ DropCatches)
              /\ stack' = Below
              /\ UNCHANGED <<unw, hist, term>>
    /\ UNCHANGED <<prog, ost, slot, owner, rc, count, length, slabs, mpc, busy, next, rv>>

\* the process is gone (deadlock -> killed by the watchdog; abort)
Dead ==
    /\ term # "" /\ mpc # 13
    /\ UNCHANGED busy
    /\ mpc' = 13
    /\ Log(Ev("end", IF term = "deadlock" THEN "hung" ELSE "abort", 0, 0))
    /\ UNCHANGED <<prog, ost, slot, owner, rc, count, length, slabs, guard, stack, unw, term, next, rv>>

Next ==
    \/ MainStart \/ MainFinish \/ MainEnd
    \/ DropFrame \/ DtorFrame \/ LenFrame \/ InsertFrame \/ IwFrame \/ InitFrame \/ WiFrame \/ ItcFrame
    \/ Unwind \/ Dead

Spec == Init /\ [][Next]_vars
FairSpec == Spec /\ WF_vars(Next)

-----------------------------------------------------------------------------------------------------------
(* Properties of the explorer itself *)

TypeOK ==
    /\ ost \in [Obj -> {"none", "live", "dead"}]
    /\ slot \in [Obj -> {"none", "occ", "vac"}]
    /\ owner \in [Obj -> (0..MaxObj) \cup {NoOwner}]
    /\ rc \in [Obj -> 0..2]
    /\ count \in 0..MaxObj /\ length \in 0..MaxObj /\ slabs \in 0..1
    /\ guard.m \in {"free", "held", "poisoned"} /\ guard.ex \in BOOLEAN /\ guard.sh \in 0..4
    /\ unw \in BOOLEAN /\ term \in {"", "deadlock", "abort"}
    /\ mpc \in 1..13 /\ busy \in BOOLEAN /\ next \in 1..MaxObj
    /\ CbDepth <= MaxDepth

Done == mpc = 13

\* every program runs to its end (there is no hidden hang in the interpreter)
Terminates == <>Done

\* the slab's own invariant (Slab::remove restores the slot before the destructor): count = occupied slots, always
SlabConsistent == count = Cardinality(Occ)

\* the property, stated on the explorer: programs in which no user code panics or re-enters (a nested handle
\* is a re-entrant drop) end clean
Quiet(p) == p.sc \in {"-", "plain"} /\ p.n <= 1 /\ \A i \in 1..3 : p.dt[i] = "ret"
QuietProgramsClean ==
    (Done /\ Quiet(prog)) => /\ term = "" /\ guard = FreeGuard /\ length = 0 /\ Occ = {}
                             /\ \A o \in Obj : ost[o] # "live"

\* at every quiescent point of main (between top-level calls) in a run without a stale-bookkeeping event:
\* the guard is free again unless poisoned
GuardReleasedAtQuiescence ==
    (stack = <<>> /\ ~unw /\ term = "") => (guard.ex = FALSE /\ guard.sh = 0 /\ guard.m # "held")
=============================================================================
