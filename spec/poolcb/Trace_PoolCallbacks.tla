------------------------------ MODULE Trace_PoolCallbacks ------------------------------
(* Validates the event traces of h_poolcb (real pools) -- and the explorer's predicted traces -- against the judge
   PoolCallbacksAbs. Many programs are concatenated: a {"ev":"reset"} record starts a new one. The first event of a
   program that the judge cannot take is reported (REJECT, with the program's index) and the rest of that program is
   skipped, so one run yields the verdict of every program.                                                        *)
EXTENDS PoolCallbacksAbs, TraceLib

VARIABLES l, jmode, jidx

tvars == <<l, jmode, jidx>>

TraceInit == l = 1 /\ jmode = "run" /\ jidx = 0 /\ JInit

IsReset(r) == r.ev = "reset"

TraceNext ==
    /\ l <= NRec
    /\ l' = l + 1
    /\ LET r == Rec[l] IN
       IF IsReset(r)
       THEN /\ jmode' = "run" /\ jidx' = r.idx
            /\ jlive' = {} /\ jdead' = {}
            /\ jown' = [o \in JObj |-> JNone] /\ jrc' = [o \in JObj |-> 0]
            /\ jfill' = 0 /\ jcall' = Idle /\ jacts' = <<>> /\ jpan' = FALSE /\ jdouble' = FALSE
            /\ jcdead' = {} /\ jcins' = {}
       ELSE IF jmode = "skip"
       THEN UNCHANGED <<jmode, jidx>> /\ UNCHANGED jvars
       ELSE IF ENABLED JStep(r)
       THEN JStep(r) /\ UNCHANGED <<jmode, jidx>>
       ELSE /\ PrintT(<<"REJECT", ToJson([line |-> l, idx |-> jidx, why |-> JWhy(r), rec |-> r])>>)
            /\ jmode' = "skip"
            /\ UNCHANGED jidx /\ UNCHANGED jvars

TraceSpec == TraceInit /\ [][TraceNext]_<<tvars, jvars>>
=============================================================================
