CONSTANTS
  Discs <- AllDiscs
  MaxN = 3
  MaxDepth = 2
  CatchUnwind = TRUE
  BookFirst = FALSE
SPECIFICATION FairSpec
INVARIANT TypeOK SlabConsistent QuietProgramsClean GuardReleasedAtQuiescence GenProg
PROPERTY Terminates
CHECK_DEADLOCK FALSE
