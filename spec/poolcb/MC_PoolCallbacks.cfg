CONSTANTS
  Discs <- AllDiscs
  MaxN = 3
  MaxDepth = 2
  CatchUnwind = TRUE
  DropCatches = TRUE
  BookFirst = TRUE
SPECIFICATION FairSpec
INVARIANT TypeOK SlabConsistent QuietProgramsClean GuardReleasedAtQuiescence GenProg
PROPERTY Terminates
CHECK_DEADLOCK FALSE
