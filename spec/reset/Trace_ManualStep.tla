------------------------------ MODULE Trace_ManualStep ------------------------------
(* Step-level conformance of the real manual-reset event to the explorer ManualResetImpl: every atomic step the instrumented
   build logged at a scheduling point (hook H3: location class, operation, value observed, value written) must be
   an enabled action of the explorer, taken by the same thread, with the same effect on the state byte / lifecycle
   byte.  A recorded run that is NOT a behaviour of the explorer means the explorer no longer mirrors the code
   (fidelity, DESIGN 2.2): reported as drift by the check, never as a violation.  For every matched step the trace
   spec prints the explorer label with the memory ordering(s) the code passed: the measured ordering table.

   Records: {"ev":"reset"} new run | {"ev":"inv","p":p,"op":..} | {"ev":"step","p":p,"loc":"state|lc|mutex","op":..,
   "w":wait,"obs":v,"wr":v|-1,"ord":..,"ord2":..}
   (generated from spec/reset/labels.json by the same table checks/c08.py uses to turn behaviours into scripts)  *)
EXTENDS TraceLib, Integers, ManualResetImpl

VARIABLES l, want          \* want[p]: the operation process p last invoked (disambiguates equal first steps)

r == Rec[l]

AllMenu == [t \in Threads |-> {"set", "reset", "try", "poll", "drop"}]

\* label -> <<location class, operation announced by the shim, API operation it belongs to>>
Site(lab) ==
    CASE lab = "m_ld" -> <<"state", "load", "set">>
      [] lab = "m_cas" -> <<"state", "cas", "set">>
      [] lab = "m_lock0" -> <<"mutex", "lock", "set">>
      [] lab = "m_pub" -> <<"state", "fetch_or", "set">>
      [] lab = "m_lock" -> <<"mutex", "lock", "set">>
      [] lab = "m_notify" -> <<"lc", "store", "set">>
      [] lab = "m_clr" -> <<"state", "fetch_and", "set">>
      [] lab = "m_clrend" -> <<"state", "fetch_and", "set">>
      [] lab = "r_fa" -> <<"state", "fetch_and", "reset">>
      [] lab = "y_ld" -> <<"state", "load", "try">>
      [] lab = "q_ld1" -> <<"state", "load", "poll">>
      [] lab = "q_tn1" -> <<"lc", "cas", "poll">>
      [] lab = "q_lock" -> <<"mutex", "lock", "poll">>
      [] lab = "q_tn2" -> <<"lc", "cas", "poll">>
      [] lab = "q_ld2" -> <<"state", "load", "poll">>
      [] lab = "q_or" -> <<"state", "fetch_or", "poll">>
      [] lab = "q_ld3" -> <<"state", "load", "poll">>
      [] lab = "q_reg" -> <<"lc", "store", "poll">>
      [] lab = "q_clr" -> <<"state", "fetch_and", "poll">>
      [] lab = "e_isreg" -> <<"lc", "load", "drop">>
      [] lab = "e_lock" -> <<"mutex", "lock", "drop">>
      [] lab = "e_unreg" -> <<"lc", "store", "drop">>
      [] lab = "e_clr" -> <<"state", "fetch_and", "drop">>

EncSt(s) == (IF "SIG" \in s THEN 1 ELSE 0) + (IF "HW" \in s THEN 2 ELSE 0)
EncLc(x) == CASE x = "idle" -> 0 [] x = "waiting" -> 1 [] x = "notified" -> 2

\* the values the real step observed / wrote agree with the explorer's step
Agrees ==
    CASE r.loc = "state" ->
            /\ (r.op # "store" => r.obs = EncSt(st))
            /\ (r.wr # -1 => r.wr = EncSt(st'))
            /\ (r.wr = -1 => st' = st)
      [] r.loc = "lc" ->
            /\ (r.op # "store" => r.obs = EncLc(lc[r.w]))
            /\ (r.wr # -1 => r.wr = EncLc(lc'[r.w]))
      [] OTHER -> TRUE

StepRec ==
    /\ r.ev = "step"
    /\ \E lab \in Labels :
          /\ Site(lab)[1] = r.loc /\ Site(lab)[2] = r.op /\ Site(lab)[3] = want[r.p]
          /\ Act(r.p, lab)
          /\ Agrees
          /\ PrintT(<<"SITE", lab, r.ord, r.ord2, IF r.wr = -1 THEN "nowrite" ELSE "write">>)
    /\ UNCHANGED want

InvRec ==
    /\ r.ev = "inv"
    /\ want' = [want EXCEPT ![r.p] = r.op]
    /\ UNCHANGED vars

ResetRec ==
    /\ r.ev = "reset"
    /\ want' = [p \in Threads |-> "none"]
    /\ st' = {} /\ mutex' = {} /\ wl' = <<>>
    /\ lc' = [t \in Threads |-> "idle"]
    /\ pc' = [t \in Threads |-> "idle"]
    /\ wst' = [t \in Threads |-> "none"]
    /\ nops' = [t \in Threads |-> 0]
    /\ npoll' = [t \in Threads |-> 0]
    /\ woke' = [t \in Threads |-> {}]
    /\ configs' = L!LinInit(AbsInit("manual"))
    /\ gen' = 1 /\ seen' = [t \in Threads |-> {}]

TraceInit == l = 1 /\ want = [p \in Threads |-> "none"] /\ Init

TraceNext ==
    /\ l <= NRec
    /\ ResetRec \/ InvRec \/ StepRec
    /\ l' = l + 1

TraceSpec == TraceInit /\ [][TraceNext]_<<l, want, vars>>
=============================================================================
