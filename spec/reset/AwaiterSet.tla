------------------------------ MODULE AwaiterSet ------------------------------
(* EXPLORER for the awaiter set on its own: the intrusive doubly linked list of packages/awaiter_set/src/set.rs
   (head, tail, per-node next/prev, generation stamp, stored waker) and the per-node lifecycle byte of awaiter.rs,
   driven through the public API: register / unregister / notify_one / advance_generation /
   notify_one_prior_generation / take_notification, in every order that respects the unsafe API's preconditions.

   Stale link fields are modelled as in the code: leaving WAITING does NOT clear next/prev/generation.

   TLC checks, for all histories of MaxOpsS operations over the nodes:
     WellFormed    head/tail/next/prev form one doubly linked chain whose members are exactly the WAITING nodes
     GenMonotone   generation stamps are non-decreasing head -> tail and never ahead of the set's generation
                   (what lets notify_one_prior_generation look at the head only)
     Abstraction   the chain, read head -> tail, equals the sequence maintained by the AwaiterSeq operators
                   (which is what the event explorers use), and its contents equal the AwaiterSetAbs judge state
     JudgeAccepts  every result produced is one the judge allows
   and emits one witness history per transition (edge cover) for the replay through the real API.               *)
EXTENDS Naturals, Sequences, FiniteSets, TLC, AwaiterSeq

CONSTANTS NodeCount, MaxOpsS, MaxGen

Nodes == 1..NodeCount
Null == 0

J == INSTANCE AwaiterSetAbs WITH Nodes <- Nodes

VARIABLES head, tail, nxt, prv, life, wkr, ngen, gen,    \* the data structure
          shadow, abs,                                    \* AwaiterSeq view, judge state
          nw, nops, last                                  \* next waker id, operations done, last operation + result

vars == <<head, tail, nxt, prv, life, wkr, ngen, gen, shadow, abs, nw, nops, last>>

Init ==
    /\ head = Null /\ tail = Null
    /\ nxt = [n \in Nodes |-> Null] /\ prv = [n \in Nodes |-> Null]
    /\ life = [n \in Nodes |-> "idle"]
    /\ wkr = [n \in Nodes |-> 0] /\ ngen = [n \in Nodes |-> 0]
    /\ gen = 1
    /\ shadow = <<>> /\ abs = J!SInit
    /\ nw = 1 /\ nops = 0
    /\ last = [op |-> "init", n |-> 0, k |-> 0, r |-> 0]

More == nops < MaxOpsS /\ nops' = nops + 1
Did(op, n, k, r) == last' = [op |-> op, n |-> n, k |-> k, r |-> r]
OnlyOne(S) == CHOOSE x \in S : TRUE

\* set.rs unlink(prev, next): splice out the node whose links were pv / nx
\* (returns the new <<head, tail, nxt, prv>>)
Unlink(pv, nx) ==
    << IF pv = Null THEN nx ELSE head,
       IF nx = Null THEN pv ELSE tail,
       IF pv = Null THEN nxt ELSE [nxt EXCEPT ![pv] = nx],
       IF nx = Null THEN prv ELSE [prv EXCEPT ![nx] = pv] >>

\* register(awaiter n, fresh waker)
Register(n) ==
    /\ More /\ life[n] # "notified"                         \* precondition of the API
    /\ nw' = nw + 1 /\ Did("register", n, nw, 0)
    /\ IF life[n] = "waiting"
       THEN /\ wkr' = [wkr EXCEPT ![n] = nw]                \* already registered: update the waker in place
            /\ shadow' = SeqSetWaker(shadow, n, nw)
            /\ UNCHANGED <<head, tail, nxt, prv, life, ngen>>
       ELSE /\ wkr' = [wkr EXCEPT ![n] = nw]
            /\ nxt' = [(IF tail = Null THEN nxt ELSE [nxt EXCEPT ![tail] = n]) EXCEPT ![n] = Null]
            /\ prv' = [prv EXCEPT ![n] = tail]
            /\ ngen' = [ngen EXCEPT ![n] = gen]
            /\ head' = (IF tail = Null THEN n ELSE head)
            /\ tail' = n
            /\ life' = [life EXCEPT ![n] = "waiting"]
            /\ shadow' = SeqAppend(shadow, n, nw, gen)
    /\ abs' = OnlyOne(J!SRegister(abs, n, nw))
    /\ UNCHANGED gen

\* unregister(awaiter n)
Unregister(n) ==
    /\ More /\ life[n] # "idle"                             \* precondition of the API
    /\ Did("unregister", n, 0, 0)
    /\ IF life[n] = "notified"
       THEN UNCHANGED <<head, tail, nxt, prv, life, wkr, shadow>>
       ELSE LET u == Unlink(prv[n], nxt[n]) IN
            /\ head' = u[1] /\ tail' = u[2] /\ nxt' = u[3] /\ prv' = u[4]
            /\ wkr' = [wkr EXCEPT ![n] = 0]
            /\ life' = [life EXCEPT ![n] = "idle"]
            /\ shadow' = SeqRemove(shadow, n)
    /\ abs' = OnlyOne(J!SUnregister(abs, n))
    /\ UNCHANGED <<ngen, gen, nw>>

\* remove(p): unlink, take the waker, publish NOTIFIED; "returns" the waker through last.r
Remove(p, opname) ==
    LET u == Unlink(prv[p], nxt[p]) IN
    /\ head' = u[1] /\ tail' = u[2] /\ nxt' = u[3] /\ prv' = u[4]
    /\ wkr' = [wkr EXCEPT ![p] = 0]
    /\ life' = [life EXCEPT ![p] = "notified"]
    /\ shadow' = SeqRemove(shadow, p)
    /\ Did(opname, 0, 0, wkr[p])

\* notify_one(): debug builds pick head or tail by address
NotifyOne ==
    /\ More
    /\ IF head = Null
       THEN /\ Did("notify_one", 0, 0, 0) /\ abs' = OnlyOne(J!SNotifyOne(abs, 0))
            /\ UNCHANGED <<head, tail, nxt, prv, life, wkr, shadow>>
       ELSE \E p \in {head, tail} :
               /\ Remove(p, "notify_one")
               /\ abs' = OnlyOne(J!SNotifyOne(abs, wkr[p]))
    /\ UNCHANGED <<ngen, gen, nw>>

Advance ==
    /\ More /\ gen < MaxGen
    /\ gen' = gen + 1 /\ Did("advance", 0, 0, 0)
    /\ abs' = OnlyOne(J!SAdvance(abs))
    /\ UNCHANGED <<head, tail, nxt, prv, life, wkr, ngen, shadow, nw>>

\* notify_one_prior_generation(): inspects the head only
NotifyPrior ==
    /\ More
    /\ IF head = Null \/ (head # Null /\ ngen[head] >= gen)
       THEN /\ Did("notify_prior", 0, 0, 0)
            /\ UNCHANGED <<head, tail, nxt, prv, life, wkr, shadow>>
            /\ abs' = (IF J!SNotifyPrior(abs, 0) = {} THEN [abs EXCEPT !.gen = 0]   \* judge disagrees: poison (JudgeAccepts)
                       ELSE OnlyOne(J!SNotifyPrior(abs, 0)))
       ELSE /\ Remove(head, "notify_prior")
            /\ abs' = (IF J!SNotifyPrior(abs, wkr[head]) = {} THEN [abs EXCEPT !.gen = 0]
                       ELSE OnlyOne(J!SNotifyPrior(abs, wkr[head])))
    /\ UNCHANGED <<ngen, gen, nw>>

\* Awaiter::take_notification()
Take(n) ==
    /\ More /\ life[n] # "waiting"       \* (a waiting awaiter's owner may call it too: returns false, no effect; covered by "idle")
    /\ Did("take", n, 0, IF life[n] = "notified" THEN 1 ELSE 0)
    /\ life' = [life EXCEPT ![n] = "idle"]
    /\ abs' = OnlyOne(J!STake(abs, n, life[n] = "notified"))
    /\ UNCHANGED <<head, tail, nxt, prv, wkr, ngen, gen, shadow, nw>>

Next ==
    \/ \E n \in Nodes : Register(n) \/ Unregister(n) \/ Take(n)
    \/ NotifyOne \/ Advance \/ NotifyPrior

Spec == Init /\ [][Next]_vars

\* ------------------------------------------------------------------------------------------------ properties
\* the chain read from the head: at most NodeCount hops
RECURSIVE Walk(_, _)
Walk(n, fuel) == IF n = Null \/ fuel = 0 THEN <<>> ELSE <<n>> \o Walk(nxt[n], fuel - 1)
Chain == Walk(head, NodeCount + 1)
ChainSet == { Chain[i] : i \in DOMAIN Chain }

TypeOK ==
    /\ head \in Nodes \cup {Null} /\ tail \in Nodes \cup {Null}
    /\ nxt \in [Nodes -> Nodes \cup {Null}] /\ prv \in [Nodes -> Nodes \cup {Null}]
    /\ life \in [Nodes -> {"idle", "waiting", "notified"}]

WellFormed ==
    /\ (head = Null) <=> (tail = Null)
    /\ Len(Chain) <= NodeCount                                         \* no cycle
    /\ \A i, j \in DOMAIN Chain : i # j => Chain[i] # Chain[j]
    /\ ChainSet = { n \in Nodes : life[n] = "waiting" }
    /\ head # Null => /\ prv[head] = Null
                      /\ Chain[Len(Chain)] = tail
                      /\ nxt[tail] = Null
    /\ \A i \in DOMAIN Chain : i > 1 => prv[Chain[i]] = Chain[i - 1]
    /\ \A n \in Nodes : life[n] = "waiting" => wkr[n] # 0

GenMonotone ==
    /\ \A i, j \in DOMAIN Chain : i < j => ngen[Chain[i]] <= ngen[Chain[j]]
    /\ \A i \in DOMAIN Chain : ngen[Chain[i]] >= 1 /\ ngen[Chain[i]] <= gen

Abstraction ==
    /\ shadow = [i \in DOMAIN Chain |-> Node(Chain[i], wkr[Chain[i]], ngen[Chain[i]])]
    /\ SeqWellFormed(shadow)
    /\ abs.reg = ChainSet
    /\ abs.notif = { n \in Nodes : life[n] = "notified" }
    /\ \A n \in ChainSet : abs.wk[n] = wkr[n] /\ abs.ng[n] = ngen[n]

JudgeAccepts == abs.gen = gen
=============================================================================
