---- MODULE MCG_ManualReset ----
(* Generator for the manual-reset explorer: the schedule (sequence of <<thread, label>>) is a history variable hidden
   from the fingerprint by VIEW, so TLC still visits every state of the explorer once; the schedule that led to a
   state is printed (one JSON line) when the state is final (GenFinal: one witness per distinct final state) or,
   with -simulate, at the end of every random behaviour.  checks/c08.py turns a schedule into a vrt::sched Script. *)
EXTENDS MC_ManualReset, Json
VARIABLE hist
GInit == Init /\ hist = <<>>
GNext == \E t \in Threads : \E l \in Labels : Act(t, l) /\ hist' = Append(hist, <<t, l>>)
GView == vars
\* final: nothing left to do for anybody
Final == Quiet /\ \A t \in Threads : wst[t] # "ready" /\ (nops[t] = MaxOps \/ Menu[t] = {})
GenFinal == Final => PrintT(<<"SCHED", ToJson(hist)>>)
\* state cover: one witness (the BFS path) per distinct state of the explorer; the driver keeps the witnesses that
\* are not a prefix of another one
GenAll == Len(hist) > 0 => PrintT(<<"SCHED", ToJson(hist)>>)
====
