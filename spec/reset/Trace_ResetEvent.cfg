CONSTANTS MaxProc = 5 MaxWait = 4
SPECIFICATION TraceSpec
INVARIANT TraceTypeOK
POSTCONDITION Accepted
CHECK_DEADLOCK FALSE
