---- MODULE MCG_AutoReset ----
(* Generator for the auto-reset explorer: the schedule (sequence of <<thread, label>>) is a history variable hidden
   from the fingerprint by VIEW, so TLC still visits every state of the explorer once; the schedule that led to a
   state is printed (one JSON line) when the state is final (GenFinal: one witness per distinct final state) or,
   with -simulate, at the end of every random behaviour.  checks/c08.py turns a schedule into a vrt::sched Script. *)
EXTENDS MC_AutoReset, Json
VARIABLE hist
GInit == Init /\ hist = <<>>
\* a notification that had a choice (head or tail): the real code picks the one with the higher address, so the
\* schedule records <<picked, head, tail>> and the harness lays the wait futures out accordingly
PickInfo == LET S == { a \in Threads : lc'[a] = "notified" /\ lc[a] = "waiting" } IN
            IF S = {} \/ Len(wl) < 2 THEN <<>> ELSE << CHOOSE a \in S : TRUE, wl[1].a, wl[Len(wl)].a >>
GNext == \E t \in Threads : \E l \in Labels : Act(t, l) /\ hist' = Append(hist, <<t, l>> \o PickInfo)
GView == vars
\* final: nothing left to do for anybody
Final == Quiet /\ \A t \in Threads : wst[t] # "ready" /\ (nops[t] = MaxOps \/ Menu[t] = {})
GenFinal == Final => PrintT(<<"SCHED", ToJson(hist)>>)
\* state cover: one witness (the BFS path) per distinct state of the explorer; the driver keeps the witnesses that
\* are not a prefix of another one
GenAll == Len(hist) > 0 => PrintT(<<"SCHED", ToJson(hist)>>)
====
