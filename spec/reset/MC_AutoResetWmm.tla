---- MODULE MC_AutoResetWmm ----
(* TLC constants for the weak-memory explorer.  OrdAsBuilt = the orderings of auto.rs / awaiter.rs when the explorer was
   written; checks/c08.py writes a sibling module with the table MEASURED from the logged atomic steps. *)
EXTENDS AutoResetWmm
CONSTANTS t1, t2, t3
OrdAsBuilt == [s \in Sites |->
    CASE s = "s_cas_ok" -> "rel" [] s = "s_cas_fail" -> "rlx" [] s = "s_load" -> "rlx" [] s = "s_store" -> "rel"
      [] s = "s_notify" -> "rel" [] s = "s_clr" -> "rlx" [] s = "t_fa" -> "acq"
      [] s = "p_try1" -> "acq" [] s = "p_tn1_ok" -> "acq" [] s = "p_tn1_fail" -> "rlx" [] s = "p_tn2_ok" -> "acq"
      [] s = "p_tn2_fail" -> "rlx" [] s = "p_try2" -> "acq" [] s = "p_or" -> "rlx" [] s = "p_try3" -> "acq"
      [] s = "p_reg" -> "rel" [] s = "p_clr" -> "rlx"
      [] s = "d_isreg" -> "acq" [] s = "d_isnot" -> "acq" [] s = "d_unreg" -> "rel" [] s = "d_clr" -> "rlx"
      [] s = "d_store" -> "rel" [] s = "d_notify" -> "rel"]
MenuFull == [t \in Threads |-> {"set", "try", "poll", "drop"}]
MenuRoles == [t \in Threads |-> IF t = t1 THEN {"set", "try"} ELSE IF t = t2 THEN {"poll", "drop"} ELSE {"poll", "drop", "set"}]
MenuPair == [t \in Threads |-> IF t = t1 THEN {"set"} ELSE {"poll", "drop"}]
====
