------------------------------ MODULE AwaiterSetAbs ------------------------------
(* JUDGE for the awaiter set on its own (packages/awaiter_set: AwaiterSet + Awaiter public API), as a contract over
   sets: which awaiter a notification picks is unspecified (the code: head in release builds, head or tail in debug
   builds); which waker comes back is not: the LATEST one registered for the picked awaiter.

   Abstract state  [reg, notif, wk, ng, gen]
     reg     awaiters in the set (WAITING)            notif   awaiters notified and not yet consumed (NOTIFIED)
     wk      awaiter -> latest waker (0 = none)       ng      awaiter -> generation stamped when it entered the set
     gen     the set's generation

   Each operator below is  Op(s, args, result) -> set of next states  (empty = the observed result is not allowed).
   Preconditions of the unsafe API (register: not NOTIFIED; unregister: not IDLE) are the caller's duty; the
   generator (AwaiterSet.tla) only produces histories that respect them.                                          *)
EXTENDS Naturals, FiniteSets

CONSTANT Nodes

SInit == [reg |-> {}, notif |-> {}, wk |-> [n \in Nodes |-> 0], ng |-> [n \in Nodes |-> 0], gen |-> 1]

\* register(n, waker k): enters at the current generation, or (already waiting) only the waker is replaced
SRegister(s, n, k) ==
    IF n \in s.notif THEN {}
    ELSE IF n \in s.reg THEN { [s EXCEPT !.wk[n] = k] }
    ELSE { [s EXCEPT !.reg = @ \cup {n}, !.wk[n] = k, !.ng[n] = s.gen] }

\* unregister(n): a notified awaiter is already out (no-op, stays notified)
SUnregister(s, n) ==
    IF n \in s.reg THEN { [s EXCEPT !.reg = @ \ {n}, !.wk[n] = 0] }
    ELSE IF n \in s.notif THEN { s } ELSE {}

Notify(s, n) == [s EXCEPT !.reg = @ \ {n}, !.notif = @ \cup {n}, !.wk[n] = 0]

\* notify_one() returned waker r (0 = None)
SNotifyOne(s, r) ==
    IF s.reg = {} THEN (IF r = 0 THEN { s } ELSE {})
    ELSE { Notify(s, n) : n \in { m \in s.reg : s.wk[m] = r /\ r # 0 } }

SAdvance(s) == { [s EXCEPT !.gen = @ + 1] }

\* notify_one_prior_generation() returned waker r (0 = None): None iff no awaiter of a prior generation exists
SNotifyPrior(s, r) ==
    LET el == { m \in s.reg : s.ng[m] < s.gen } IN
    IF el = {} THEN (IF r = 0 THEN { s } ELSE {})
    ELSE { Notify(s, n) : n \in { m \in el : s.wk[m] = r /\ r # 0 } }

\* take_notification(n) returned b
STake(s, n, b) ==
    IF (n \in s.notif) # b THEN {}
    ELSE { [s EXCEPT !.notif = @ \ {n}] }

\* observations after every operation: is_empty(), { n : is_registered(n) }, { n : is_notified(n) }
SObserve(s, empty, registered, notified) ==
    /\ empty = (s.reg = {})
    /\ registered = s.reg \cup s.notif
    /\ notified = s.notif
=============================================================================
