---- MODULE MC_ManualReset ----
(* TLC constants for the manual-reset explorer. *)
EXTENDS ManualResetImpl
CONSTANTS t1, t2, t3
Full == {"set", "reset", "try", "poll", "drop"}
MenuFull == [t \in Threads |-> Full]
MenuRoles == [t \in Threads |-> IF t = t1 THEN {"poll", "reset"} ELSE IF t = t2 THEN {"set", "try"} ELSE {"poll", "drop"}]
MenuSetters == [t \in Threads |-> IF t = t1 THEN {"poll", "drop"} ELSE {"set", "reset"}]
Sym == Permutations(Threads)
====
