------------------------------ MODULE Trace_ResetEvent ------------------------------
(* Judges invocation/response histories recorded from the real reset events (harness h_reset; thread-safe variants
   under the deterministic scheduler, single-threaded variants with re-entrant wakers where the "process" is the
   re-entrancy depth) with LinMonitor instantiated by ResetEventAbs.  STATEFUL and deterministic: the configuration
   set is the state, one successor per record; the trace is rejected at the first response that leaves no
   configuration (POSTCONDITION Accepted prints it).

   Records
     {"ev":"reset","kind":"auto"|"manual", ...}     a new history starts (fresh event)
     {"ev":"inv","p":p,"op":"set|reset|try|poll|drop","w":w,"k":k}
     {"ev":"resp","p":p,"v":"ok|true|false|ready|pending"}
     {"ev":"wake","p":p,"w":w,"k":k}                 process p invoked waker k of wait w (logged when it happens)
     {"ev":"end","outcome":"completed"}              the run ended normally (anything else -- deadlock, step limit,
                                                      stuck -- is not a behaviour of a reset event: no action matches)
   A response "panic" matches nothing either.                                                                     *)
EXTENDS TraceLib, FiniteSets

CONSTANTS MaxProc, MaxWait

Procs == 1..MaxProc
Waits == 1..MaxWait

INSTANCE ResetEventAbs

L == INSTANCE LinMonitor WITH SeqApply <- Apply

VARIABLES l, configs

r == Rec[l]

OpOf(x) ==
    CASE x.op = "set" -> OpSet [] x.op = "reset" -> OpReset [] x.op = "try" -> OpTry
      [] x.op = "poll" -> OpPoll(x.w, x.k) [] x.op = "drop" -> OpDrop(x.w)

TraceInit == l = 1 /\ configs = L!LinInit(AbsInit("auto"))

Start == r.ev = "reset" /\ configs' = L!LinInit(AbsInit(r.kind))

Inv ==
    /\ r.ev = "inv" /\ r.p \in Procs
    /\ \A c \in configs : c.pend[r.p] = NoOp               \* well-formed history: one pending operation per process
    /\ configs' = L!LinInvoke(configs, r.p, OpOf(r))

Resp ==
    /\ r.ev = "resp" /\ r.p \in Procs
    /\ configs' = L!LinRespond(configs, r.p, Res(r.v))
    /\ configs' # {}                                       \* C08: some sequential order explains the history so far

WakeEv == r.ev = "wake" /\ configs' = L!LinUpdate(configs, LAMBDA s : WakeAll(s, { <<r.w, r.k>> }))

End == r.ev = "end" /\ r.outcome = "completed" /\ UNCHANGED configs

TraceNext ==
    /\ l <= NRec
    /\ Start \/ Inv \/ Resp \/ WakeEv \/ End
    /\ l' = l + 1

TraceSpec == TraceInit /\ [][TraceNext]_<<l, configs>>

\* the judge's own sanity on every trace
TraceTypeOK == \A c \in configs : AbsTypeOK(c.s)
=============================================================================
