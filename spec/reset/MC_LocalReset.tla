---- MODULE MC_LocalReset ----
(* Generator for the single-threaded explorer: the history (hidden from the fingerprint by VIEW) of every complete
   program (all top-level calls issued, stack unwound) is printed once per distinct final state. *)
EXTENDS LocalResetImpl, Json
VARIABLE hist
GInit == Init /\ hist = <<>>
GNext == Next /\ hist' = Append(hist, last')
GView == <<sig, wl, lc, gen, fut, kc, dropping, stack, ntop, configs>>
Final == Quiet /\ ntop = MaxTop
GenLocal == Final => PrintT(<<"LOCALP", ToJson(hist)>>)
====
