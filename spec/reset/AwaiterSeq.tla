------------------------------ MODULE AwaiterSeq ------------------------------
(* The awaiter list of packages/awaiter_set/src/set.rs at the level the event explorers need: a sequence of nodes
   [a |-> awaiter (wait id), k |-> waker stored, g |-> generation stamped at registration], head first.
   AwaiterSet.tla (pointer level: head/tail/next/prev, lifecycle byte) is checked by TLC to implement exactly these
   operators (its invariant Abstraction), so the event explorers can use the sequence.                           *)
EXTENDS Naturals, Sequences, FiniteSets

Node(a, k, g) == [a |-> a, k |-> k, g |-> g]

SeqMembers(l) == { l[i].a : i \in DOMAIN l }

\* register(): IDLE -> append at the tail, stamped with the set's generation; WAITING -> only the waker is replaced
SeqAppend(l, a, k, g) == Append(l, Node(a, k, g))
SeqSetWaker(l, a, k) == [i \in DOMAIN l |-> IF l[i].a = a THEN [l[i] EXCEPT !.k = k] ELSE l[i]]

\* unlink (unregister / remove)
SeqRemove(l, a) == SelectSeq(l, LAMBDA n : n.a # a)

\* notify_one(): release builds take the head; debug builds take head or tail depending on their addresses
\* (pick_one), i.e. either, as far as a model can tell
SeqPickable(l) == IF l = <<>> THEN {} ELSE { l[1], l[Len(l)] }

\* notify_one_prior_generation(): only the head is inspected (generations are non-decreasing head -> tail)
SeqPriorHead(l, gen) == IF l # <<>> /\ l[1].g < gen THEN { l[1] } ELSE {}

SeqWellFormed(l) ==
    /\ \A i, j \in DOMAIN l : i # j => l[i].a # l[j].a
    /\ \A i, j \in DOMAIN l : i < j => l[i].g <= l[j].g
=============================================================================
