------------------------------ MODULE AutoResetWmm ------------------------------
(* WEAK-MEMORY EXPLORER for C08, auto-reset event: the steps of AutoResetImpl.tla (auto.rs over awaiter_set), with the
   state byte, the awaiter lifecycle bytes and the mutex living in the RC11 release/acquire memory of spec/lib/RC11.tla
   and every non-atomic datum a race-checked cell:

     atomic locations   <<"state", None>>   EventInner::state            values 0..3 (SIGNALED = 1, HAS_WAITERS = 2)
                        <<"mutex", None>>   EventInner::slow (the lock)  0 free / 1 held; lock = acquire RMW,
                                                                         unlock = release store
                        <<"lc", w>>         Awaiter::lifecycle of wait w 0 IDLE / 1 WAITING / 2 NOTIFIED
     non-atomic cells   <<"list", None>>    AwaiterSet (head, tail, generation): only under the mutex
                        <<"inner", w>>      Awaiter::inner of wait w (waker, next, prev, generation): under the mutex
                        <<"blk", w>>        the storage of wait w's future: every access to the awaiter reads it,
                                            creating and destroying the future writes it
                        <<"pay", t, k>>     what the k-th set() of thread t publishes: written by the setter just
                                            before set(), read by whoever consumes that signal (try_wait -> true, a
                                            wait completing on the stored signal or on the notification, directly or
                                            after forwarding).  "set() happens-before the completion it causes" is
                                            then part of NoRace.  Which signal a value stands for is ghost state carried
                                            IN the value: the state byte is <<bits, payloads>>, a lifecycle byte
                                            <<phase, payloads>>.

   The ordering of every atomic operation is the parameter Ord[site]; checks/c08.py fills it from the orderings the
   instrumented code LOGGED (label -> ordering table produced by Trace_AutoStep), so weakening an Ordering in
   auto.rs / awaiter.rs changes the model TLC checks (DESIGN 3.1).  SC = TRUE restricts every load to the mo-latest
   message (then this model has exactly the behaviours of AutoResetImpl).

   Loads and FAILED compare-exchanges may read any message RC11 makes eligible (stale values); RMWs and successful
   compare-exchanges read the mo-latest one.  Checked for every RC11 outcome: NoRace (the release/acquire edges the
   code requests order every access to an awaiter before its future's storage goes away, and every access to the
   list), ListOk, HwInv, NoLostSignal at quiescence.

   NOT decided here: linearizability w.r.t. real time under RC11.  All decisions of the protocol are RMWs on the single
   location `state` (coherence makes them totally ordered) except set()'s Relaxed load / failed compare-exchange,
   which may see an mo-earlier SIGNALED and coalesce with a signal that was consumed "before" in real time but not
   in happens-before: equivalent to an earlier linearization point, which no happens-before observer can refute.   *)
EXTENDS Naturals, Sequences, FiniteSets, TLC, AwaiterSeq

CONSTANTS Threads, Menu, MaxOps,
          None,        \* a value that is not a thread (second component of locations that belong to no wait)
          SC,
          Ord          \* [site -> "rlx" | "acq" | "rel" | "acqrel" | "sc"]

Sites == { "s_cas_ok", "s_cas_fail", "s_load", "s_store", "s_notify", "s_clr", "t_fa",
           "p_try1", "p_tn1_ok", "p_tn1_fail", "p_tn2_ok", "p_tn2_fail", "p_try2", "p_or", "p_try3", "p_reg", "p_clr",
           "d_isreg", "d_isnot", "d_unreg", "d_clr", "d_store", "d_notify" }

State == <<"state", None>>
Mutex == <<"mutex", None>>
Lc(w) == <<"lc", w>>
List == <<"list", None>>
Inner(w) == <<"inner", w>>
Blk(w) == <<"blk", w>>

ALoc == { State, Mutex } \cup { Lc(w) : w \in Threads }
Pay(t, k) == <<"pay", t, k>>
NLoc == { List } \cup { Inner(w) : w \in Threads } \cup { Blk(w) : w \in Threads }
        \cup { Pay(t, k) : t \in Threads, k \in 1..MaxOps }

M == INSTANCE RC11 WITH Thread <- Threads, ALoc <- ALoc, NLoc <- NLoc

\* state byte values <<bits, P>>: bits 0..3 (SIGNALED = 1, HAS_WAITERS = 2), P = payloads the stored signal stands for
HasSig(v) == v[1] = 1 \/ v[1] = 3
HasHw(v) == v[1] = 2 \/ v[1] = 3
ClrSig(v) == << IF HasSig(v) THEN v[1] - 1 ELSE v[1], {} >>
ClrHw(v) == << IF HasHw(v) THEN v[1] - 2 ELSE v[1], v[2] >>
SetHw(v) == << IF HasHw(v) THEN v[1] ELSE v[1] + 2, v[2] >>
Signaled(P) == << 1, P >>            \* store(SIGNALED) / IDLE -> SIGNALED
\* lifecycle values <<phase, P>>: 0 IDLE / 1 WAITING / 2 NOTIFIED carrying the payloads of the signal handed over
LcV(ph, P) == << ph, P >>

VARIABLES mem, wl, pc, wst, nops, npoll,
          held      \* held[t]: payloads of the signal thread t is holding in its hands (being handed over / forwarded)

vars == <<mem, wl, pc, wst, nops, npoll, held>>

Creator == CHOOSE t \in Threads : TRUE

Init ==
    /\ mem = M!InitMem([l \in ALoc |-> IF l = Mutex THEN 0 ELSE <<0, {}>>], Creator)
    /\ held = [t \in Threads |-> {}]
    /\ wl = <<>>
    /\ pc = [t \in Threads |-> "idle"]
    /\ wst = [t \in Threads |-> "none"]
    /\ nops = [t \in Threads |-> 0]
    /\ npoll = [t \in Threads |-> 0]

Goto(t, l) == pc' = [pc EXCEPT ![t] = l]
Idle(t) == pc' = [pc EXCEPT ![t] = "idle"]
CanCall(t, what) == pc[t] = "idle" /\ what \in Menu[t] /\ nops[t] < MaxOps
Count(t) == nops' = [nops EXCEPT ![t] = @ + 1]

Elig(t, l) == IF SC THEN M!EligibleSC(mem, t, l) ELSE M!Eligible(mem, t, l)
Val(l, i) == mem.mo[l][i].val
Latest(l) == M!LastVal(mem, l)
Held(t) == pc[t] \in { "s_store", "s_notify", "s_clr", "p_tn2", "p_try2", "p_or", "p_try3", "p_reg", "p_clr",
                       "d_isnot", "d_unreg", "d_clr", "d_store", "d_notify" }

\* every access to the awaiter of wait w needs its storage
Touch(m, t, w) == M!NARead(m, t, Blk(w))
\* the consumer of a signal reads what its set() published
RECURSIVE Consume(_, _, _)
Consume(m, t, P) == IF P = {} THEN m ELSE LET x == CHOOSE x \in P : TRUE IN Consume(M!NARead(m, t, x), t, P \ {x})
MyPay(t) == Pay(t, nops[t] + 1)
\* lock = acquire RMW 0 -> 1 (enabled only when free); unlock = release store of 0
Lock(m, t) == M!Rmw(m, t, Mutex, 1, "acq")
Unlock(m, t) == M!Store(m, t, Mutex, 0, "rel")
Free == Latest(Mutex) = 0

\* non-atomic accesses of the critical sections
ReadList(m, t) == M!NARead(m, t, List)
\* unlink / link node a: writes the set's head/tail and the link fields of a and of its neighbours
Neighbours(a) == LET i == CHOOSE i \in DOMAIN wl : wl[i].a = a IN
                 { wl[j].a : j \in { i - 1, i + 1 } \cap DOMAIN wl }
RECURSIVE WriteInners(_, _, _)
WriteInners(m, t, S) == IF S = {} THEN m
                        ELSE LET x == CHOOSE x \in S : TRUE IN
                             WriteInners(M!NAWrite(Touch(m, t, x), t, Inner(x)), t, S \ {x})
UnlinkMem(m, t, a) == WriteInners(M!NAWrite(m, t, List), t, {a} \cup Neighbours(a))
LinkMem(m, t, a) == WriteInners(M!NAWrite(m, t, List), t, {a} \cup (IF wl = <<>> THEN {} ELSE { wl[Len(wl)].a }))

\* ----------------------------------------------------------------------------------------------------- set()
\* compare_exchange(IDLE, SIGNALED, Release, Relaxed): succeeds only on the mo-latest value; a failure is a load
s_cas(t) ==
    /\ CanCall(t, "set") /\ Count(t)
    /\ LET m0 == M!NAWrite(mem, t, MyPay(t)) IN                 \* the caller publishes, then calls set()
       \/ /\ Latest(State)[1] = 0
          /\ mem' = M!Rmw(m0, t, State, Signaled({MyPay(t)}), Ord["s_cas_ok"]) /\ UNCHANGED <<pc, held>>
       \/ \E i \in Elig(t, State) :
             /\ Val(State, i)[1] # 0
             /\ mem' = M!Load(m0, t, State, i, Ord["s_cas_fail"]) /\ Goto(t, "s_load")
             /\ held' = [held EXCEPT ![t] = {MyPay(t)}]
    /\ UNCHANGED <<wl, wst, npoll>>

s_load(t) ==
    /\ pc[t] = "s_load"
    /\ \E i \in Elig(t, State) :
          /\ mem' = M!Load(mem, t, State, i, Ord["s_load"])
          /\ IF HasSig(Val(State, i)) THEN Idle(t) ELSE Goto(t, "s_lock")
    /\ UNCHANGED <<wl, wst, nops, npoll, held>>

s_lock(t) ==
    /\ pc[t] = "s_lock" /\ Free
    /\ mem' = ReadList(Lock(mem, t), t)                           \* notify_one(): head.is_null()?
    /\ Goto(t, IF wl = <<>> THEN "s_store" ELSE "s_notify")
    /\ UNCHANGED <<wl, wst, nops, npoll, held>>

s_store(t) ==
    /\ pc[t] = "s_store"
    /\ mem' = Unlock(M!Store(mem, t, State, Signaled(held[t]), Ord["s_store"]), t)
    /\ Idle(t)
    /\ UNCHANGED <<wl, wst, nops, npoll, held>>

\* remove(n): unlink, take the waker, lifecycle.store(NOTIFIED); is_empty()
s_notify(t) ==
    /\ pc[t] = "s_notify"
    /\ \E n \in SeqPickable(wl) :
          LET m1 == UnlinkMem(mem, t, n.a)
              m2 == M!Store(Touch(m1, t, n.a), t, Lc(n.a), LcV(2, held[t]), Ord["s_notify"])
              m3 == ReadList(m2, t) IN
          /\ wl' = SeqRemove(wl, n.a)
          /\ IF SeqRemove(wl, n.a) = <<>>
             THEN mem' = m3 /\ Goto(t, "s_clr")
             ELSE mem' = Unlock(m3, t) /\ Idle(t)
    /\ UNCHANGED <<wst, nops, npoll, held>>

s_clr(t) ==
    /\ pc[t] = "s_clr"
    /\ mem' = Unlock(M!Rmw(mem, t, State, ClrHw(Latest(State)), Ord["s_clr"]), t)
    /\ Idle(t)
    /\ UNCHANGED <<wl, wst, nops, npoll, held>>

\* ------------------------------------------------------------------------------------------------ try_wait()
t_fa(t) ==
    /\ CanCall(t, "try") /\ Count(t)
    /\ LET v == Latest(State) IN
       mem' = Consume(M!Rmw(mem, t, State, ClrSig(v), Ord["t_fa"]), t, IF HasSig(v) THEN v[2] ELSE {})
    /\ UNCHANGED <<wl, pc, wst, npoll, held>>

\* ----------------------------------------------------------------------------------------------- poll_wait()
Ready(t) == Idle(t) /\ wst' = [wst EXCEPT ![t] = "ready"]
Pending(t) == Idle(t) /\ wst' = [wst EXCEPT ![t] = "pending"]

\* a fresh future: its storage and its awaiter are (re)initialised by the owner
Create(m, t) ==
    IF wst[t] = "none"
    THEN M!Store(M!NAWrite(M!NAWrite(m, t, Blk(t)), t, Inner(t)), t, Lc(t), LcV(0, {}), "rlx")
    ELSE m

p_try1(t) ==
    /\ CanCall(t, "poll") /\ wst[t] \in {"none", "pending"} /\ Count(t)
    /\ npoll' = [npoll EXCEPT ![t] = @ + 1]
    /\ LET m0 == Create(mem, t)
           v == M!LastVal(m0, State) IN
       /\ mem' = Consume(M!Rmw(m0, t, State, ClrSig(v), Ord["p_try1"]), t, IF HasSig(v) THEN v[2] ELSE {})
       /\ IF HasSig(v) THEN Ready(t) ELSE Goto(t, "p_tn1") /\ wst' = [wst EXCEPT ![t] = "pending"]
    /\ UNCHANGED <<wl, held>>

\* take_notification(): compare_exchange(NOTIFIED, IDLE, Acquire, Relaxed)
TakeNotif(t, okSite, failSite, onOk(_), onFail) ==
    \/ /\ Latest(Lc(t))[1] = 2
       /\ mem' = onOk(Consume(M!Rmw(Touch(mem, t, t), t, Lc(t), LcV(0, {}), Ord[okSite]), t, Latest(Lc(t))[2]))
       /\ Ready(t)
    \/ \E i \in Elig(t, Lc(t)) :
          /\ Val(Lc(t), i)[1] # 2
          /\ mem' = M!Load(Touch(mem, t, t), t, Lc(t), i, Ord[failSite])
          /\ Goto(t, onFail) /\ UNCHANGED wst

p_tn1(t) ==
    /\ pc[t] = "p_tn1"
    /\ TakeNotif(t, "p_tn1_ok", "p_tn1_fail", LAMBDA m : m, "p_lock")
    /\ UNCHANGED <<wl, nops, npoll, held>>

p_lock(t) ==
    /\ pc[t] = "p_lock" /\ Free
    /\ mem' = Lock(mem, t) /\ Goto(t, "p_tn2")
    /\ UNCHANGED <<wl, wst, nops, npoll, held>>

p_tn2(t) ==
    /\ pc[t] = "p_tn2"
    /\ TakeNotif(t, "p_tn2_ok", "p_tn2_fail", LAMBDA m : Unlock(m, t), "p_try2")
    /\ UNCHANGED <<wl, nops, npoll, held>>

p_try2(t) ==
    /\ pc[t] = "p_try2"
    /\ LET v == Latest(State)
           m1 == M!Rmw(mem, t, State, ClrSig(v), Ord["p_try2"]) IN
       IF HasSig(v) THEN mem' = Unlock(Consume(m1, t, v[2]), t) /\ Ready(t)
       ELSE mem' = m1 /\ Goto(t, "p_or") /\ UNCHANGED wst
    /\ UNCHANGED <<wl, nops, npoll, held>>

p_or(t) ==
    /\ pc[t] = "p_or"
    /\ mem' = M!Rmw(mem, t, State, SetHw(Latest(State)), Ord["p_or"])
    /\ Goto(t, "p_try3")
    /\ UNCHANGED <<wl, wst, nops, npoll, held>>

\* try_wait() #3; no signal: register().  lifecycle_phase() is a Relaxed load of the owner's own byte under the mutex:
\* the only other writer (a notifier) holds the mutex when it writes, so the value is the latest one
p_try3(t) ==
    /\ pc[t] = "p_try3"
    /\ LET v == Latest(State)
           m1 == M!Rmw(mem, t, State, ClrSig(v), Ord["p_try3"]) IN
       IF HasSig(v) THEN mem' = Consume(m1, t, v[2]) /\ Goto(t, "p_clr") /\ UNCHANGED <<wl, wst>>
       ELSE IF Latest(Lc(t))[1] = 1
            THEN /\ mem' = Unlock(M!NAWrite(Touch(m1, t, t), t, Inner(t)), t)          \* replace the waker in place
                 /\ wl' = SeqSetWaker(wl, t, npoll[t]) /\ Pending(t)
            ELSE mem' = m1 /\ Goto(t, "p_reg") /\ UNCHANGED <<wl, wst>>
    /\ UNCHANGED <<nops, npoll, held>>

p_reg(t) ==
    /\ pc[t] = "p_reg"
    /\ mem' = Unlock(M!Store(LinkMem(mem, t, t), t, Lc(t), LcV(1, {}), Ord["p_reg"]), t)
    /\ wl' = SeqAppend(wl, t, npoll[t], 1)
    /\ Pending(t)
    /\ UNCHANGED <<nops, npoll, held>>

p_clr(t) ==
    /\ pc[t] = "p_clr"
    /\ mem' = Unlock(M!Rmw(mem, t, State, ClrHw(Latest(State)), Ord["p_clr"]), t)
    /\ Ready(t)
    /\ UNCHANGED <<wl, nops, npoll, held>>

\* ----------------------------------------------------------------------------------------------- drop_wait()
\* the future is destroyed: its storage (awaiter included) goes away
Destroy(m, t) == M!NAWrite(M!NAWrite(m, t, Inner(t)), t, Blk(t))
Dropped(t) == Idle(t) /\ wst' = [wst EXCEPT ![t] = "none"]

\* is_registered(): lifecycle.load(Acquire)
d_isreg(t) ==
    /\ pc[t] = "idle"
    /\ \/ wst[t] = "pending" /\ "drop" \in Menu[t] /\ nops[t] < MaxOps /\ Count(t)
       \/ wst[t] = "ready" /\ UNCHANGED nops
    /\ \E i \in Elig(t, Lc(t)) :
          LET m1 == M!Load(Touch(mem, t, t), t, Lc(t), i, Ord["d_isreg"]) IN
          IF Val(Lc(t), i)[1] = 0 THEN mem' = Destroy(m1, t) /\ Dropped(t)
          ELSE mem' = m1 /\ Goto(t, "d_lock") /\ UNCHANGED wst
    /\ UNCHANGED <<wl, npoll, held>>

d_lock(t) ==
    /\ pc[t] = "d_lock" /\ Free
    /\ mem' = Lock(mem, t) /\ Goto(t, "d_isnot")
    /\ UNCHANGED <<wl, wst, nops, npoll, held>>

\* is_notified(): lifecycle.load(Acquire) under the mutex
d_isnot(t) ==
    /\ pc[t] = "d_isnot"
    /\ \E i \in Elig(t, Lc(t)) :
          /\ mem' = ReadList(M!Load(Touch(mem, t, t), t, Lc(t), i, Ord["d_isnot"]), t)
          /\ Goto(t, IF Val(Lc(t), i)[1] = 2 THEN (IF wl = <<>> THEN "d_store" ELSE "d_notify") ELSE "d_unreg")
          /\ held' = [held EXCEPT ![t] = Val(Lc(t), i)[2]]          \* the signal being forwarded
    /\ UNCHANGED <<wl, wst, nops, npoll>>

\* unregister(): believed WAITING.  (If the belief came from a stale read the awaiter is not in the list: that would
\* corrupt the list -- InList is an invariant of this step, see StaleUnregister.)
d_unreg(t) ==
    /\ pc[t] = "d_unreg"
    /\ t \in SeqMembers(wl)
    /\ LET m1 == M!Store(UnlinkMem(mem, t, t), t, Lc(t), LcV(0, {}), Ord["d_unreg"])
           m2 == ReadList(m1, t) IN
       /\ wl' = SeqRemove(wl, t)
       /\ IF SeqRemove(wl, t) = <<>>
          THEN mem' = m2 /\ Goto(t, "d_clr") /\ UNCHANGED wst
          ELSE mem' = Destroy(Unlock(m2, t), t) /\ Dropped(t)
    /\ UNCHANGED <<nops, npoll, held>>

d_clr(t) ==
    /\ pc[t] = "d_clr"
    /\ mem' = Destroy(Unlock(M!Rmw(mem, t, State, ClrHw(Latest(State)), Ord["d_clr"]), t), t)
    /\ Dropped(t)
    /\ UNCHANGED <<wl, nops, npoll, held>>

d_store(t) ==
    /\ pc[t] = "d_store"
    /\ mem' = Destroy(Unlock(M!Store(mem, t, State, Signaled(held[t]), Ord["d_store"]), t), t)
    /\ Dropped(t)
    /\ UNCHANGED <<wl, nops, npoll, held>>

d_notify(t) ==
    /\ pc[t] = "d_notify"
    /\ \E n \in SeqPickable(wl) :
          LET m1 == UnlinkMem(mem, t, n.a)
              m2 == M!Store(Touch(m1, t, n.a), t, Lc(n.a), LcV(2, held[t]), Ord["d_notify"])
              m3 == ReadList(m2, t) IN
          /\ wl' = SeqRemove(wl, n.a)
          /\ IF SeqRemove(wl, n.a) = <<>>
             THEN mem' = m3 /\ Goto(t, "d_clr") /\ UNCHANGED wst
             ELSE mem' = Destroy(Unlock(m3, t), t) /\ Dropped(t)
    /\ UNCHANGED <<nops, npoll, held>>

Next ==
    \E t \in Threads :
        \/ s_cas(t) \/ s_load(t) \/ s_lock(t) \/ s_store(t) \/ s_notify(t) \/ s_clr(t) \/ t_fa(t)
        \/ p_try1(t) \/ p_tn1(t) \/ p_lock(t) \/ p_tn2(t) \/ p_try2(t) \/ p_or(t) \/ p_try3(t) \/ p_reg(t) \/ p_clr(t)
        \/ d_isreg(t) \/ d_lock(t) \/ d_isnot(t) \/ d_unreg(t) \/ d_clr(t) \/ d_store(t) \/ d_notify(t)

Spec == Init /\ [][Next]_vars

\* ------------------------------------------------------------------------------------------------ properties
NoRace == M!NoRace(mem)

\* list and lifecycle bytes (latest values) agree whenever the mutex is free
ListOk ==
    /\ SeqWellFormed(wl)
    /\ (\A t \in Threads : ~Held(t)) =>
          \A a \in Threads : (a \in SeqMembers(wl)) <=> (Latest(Lc(a))[1] = 1)

HwInv == ~HasHw(Latest(State)) => wl = <<>>

\* a thread about to unregister really is in the list (a stale lifecycle read must not send it there)
StaleUnregister == \A t \in Threads : pc[t] = "d_unreg" => t \in SeqMembers(wl)

Quiet == \A t \in Threads : pc[t] = "idle"
NoLostSignal == Quiet => ~(HasSig(Latest(State)) /\ \E i \in DOMAIN wl : wst[wl[i].a] = "pending")
=============================================================================
