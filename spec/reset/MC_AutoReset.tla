---- MODULE MC_AutoReset ----
(* TLC constants for the auto-reset explorer.  Threads are model values so that SYMMETRY applies. *)
EXTENDS AutoResetImpl
CONSTANTS t1, t2, t3
Full == {"set", "try", "poll", "drop"}
MenuFull == [t \in Threads |-> Full]
\* one thread signals and probes, the others wait / re-poll / cancel (the roles of the prototype)
MenuRoles == [t \in Threads |-> IF t = t1 THEN {"set", "try"} ELSE IF t = t2 THEN {"poll", "drop"} ELSE {"poll", "drop", "set"}]
MenuSetters == [t \in Threads |-> IF t = t1 THEN {"poll", "drop"} ELSE {"set", "try"}]
Sym == Permutations(Threads)
SymWaiters == Permutations(Threads \ {t1})
SmallConfigs == Cardinality(configs) <= 40
====
