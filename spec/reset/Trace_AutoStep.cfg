CONSTANTS Threads = {1, 2, 3}  MaxOps = 1000  Menu <- AllMenu
SPECIFICATION TraceSpec
POSTCONDITION Accepted
CHECK_DEADLOCK FALSE
