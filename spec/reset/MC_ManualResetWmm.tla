---- MODULE MC_ManualResetWmm ----
(* TLC constants for the weak-memory explorer of the manual-reset event; OrdAsBuilt = manual.rs / awaiter.rs as built. *)
EXTENDS ManualResetWmm
CONSTANTS t1, t2, t3
OrdAsBuilt == [s \in Sites |->
    CASE s = "m_ld" -> "rlx" [] s = "m_cas_ok" -> "rel" [] s = "m_cas_fail" -> "rlx" [] s = "m_pub" -> "rel"
      [] s = "m_notify" -> "rel" [] s = "m_clr" -> "rlx" [] s = "m_clrend" -> "rlx" [] s = "r_fa" -> "rel" [] s = "y_ld" -> "acq"
      [] s = "q_ld1" -> "acq" [] s = "q_tn1_ok" -> "acq" [] s = "q_tn1_fail" -> "rlx" [] s = "q_tn2_ok" -> "acq"
      [] s = "q_tn2_fail" -> "rlx" [] s = "q_ld2" -> "acq" [] s = "q_or" -> "rlx" [] s = "q_ld3" -> "acq"
      [] s = "q_reg" -> "rel" [] s = "q_clr" -> "rlx"
      [] s = "e_isreg" -> "acq" [] s = "e_unreg" -> "rel" [] s = "e_clr" -> "rlx"]
MenuFull == [t \in Threads |-> {"set", "reset", "try", "poll", "drop"}]
MenuPair == [t \in Threads |-> IF t = t1 THEN {"set", "reset"} ELSE {"poll", "drop", "try"}]
====
