------------------------------ MODULE Trace_AwaiterSet ------------------------------
(* Judges operation records of the real awaiter_set::AwaiterSet / Awaiter (harness h_reset awset) with
   AwaiterSetAbs.  Stateful: the abstract set is the state; the trace is rejected at the first record whose result
   or observation (is_empty, is_registered, is_notified of every awaiter) the contract does not allow.          *)
EXTENDS TraceLib, FiniteSets

CONSTANT MaxNodes
Nodes == 1..MaxNodes

INSTANCE AwaiterSetAbs

VARIABLES l, s

r == Rec[l]

Start == r.ev = "reset" /\ s' = SInit

NextStates ==
    CASE r.op = "register" -> SRegister(s, r.n, r.k)
      [] r.op = "unregister" -> SUnregister(s, r.n)
      [] r.op = "notify_one" -> SNotifyOne(s, r.r)
      [] r.op = "advance" -> SAdvance(s)
      [] r.op = "notify_prior" -> SNotifyPrior(s, r.r)
      [] r.op = "take" -> STake(s, r.n, r.r = 1)
      [] OTHER -> {}

Op ==
    /\ ~Has(r, "ev") /\ ~Has(r, "panic")
    /\ s' \in NextStates
    /\ SObserve(s', r.empty, ToSet(r.reg), ToSet(r.notif))

TraceInit == l = 1 /\ s = SInit
TraceNext ==
    /\ l <= NRec
    /\ IF Has(r, "ev") THEN Start ELSE Op
    /\ l' = l + 1
TraceSpec == TraceInit /\ [][TraceNext]_<<l, s>>
=============================================================================
