------------------------------ MODULE LocalResetImpl ------------------------------
(* EXPLORER for C08, single-threaded variants: packages/events/src/local_auto.rs (Kind = "auto") and local_manual.rs
   (Kind = "manual").  No threads: every call is sequential, but a Waker invoked by set() / drop may RE-ENTER the
   event (set, reset, try_wait, poll another or a fresh wait, drop another wait), so the model is a call stack.

   stack: sequence of frames, top = last
     [f |-> "prog"]                      the top-level program (always the bottom frame)
     [f |-> "cb",  left |-> n]           a waker callback that may still issue n calls
     [f |-> "ret", p, wakes, dw]         an operation of process p waiting for the callback of the waker it invoked
                                         to return; then it returns itself (dw = the wait it is dropping, or 0)
     [f |-> "mset", p, wakes]            manual set(): the drain loop `loop { notify_one_prior_generation()?.wake() }`
   The process of an operation is its re-entrancy depth (1 = top level, d+1 = issued from a callback run by an
   operation of process d): the recorded history (harness `local`) uses the same numbering, and LinMonitor treats
   an operation and the operations nested in it as concurrent -- which is what they are, semantically.

   Waits 1..NW are future slots: "none" (no future), "live", "done" (completed, not dropped).                  *)
EXTENDS Naturals, Sequences, FiniteSets, TLC, AwaiterSeq

CONSTANTS Kind,       \* "auto" | "manual"
          NW,         \* wait slots
          MaxTop,     \* calls of the top-level program
          CbOps,      \* calls a callback may issue
          Depth       \* callbacks nest at most this deep (a callback run at depth Depth+1 issues nothing)

Waits == 1..NW
Procs == 1..(Depth + 1)

INSTANCE ResetEventAbs

L == INSTANCE LinMonitor WITH SeqApply <- Apply
Woken(C, S) == L!LinUpdate(C, LAMBDA s : WakeAll(s, S))

VARIABLES sig, wl, lc, gen,            \* InnerState::Set / is_set; awaiter list; lifecycle; generation
          fut, kc, dropping,           \* future slot state, polls so far per slot, slots inside drop_wait
          stack, ntop,
          last,                        \* what the last step did (for the generator): [e, p, op, w, k]
          configs

vars == <<sig, wl, lc, gen, fut, kc, dropping, stack, ntop, last, configs>>

Init ==
    /\ sig = FALSE /\ wl = <<>> /\ gen = 1
    /\ lc = [w \in Waits |-> "idle"]
    /\ fut = [w \in Waits |-> "none"]
    /\ kc = [w \in Waits |-> 0]
    /\ dropping = {}
    /\ stack = << [f |-> "prog", left |-> 0, p |-> 0, wakes |-> {}, dw |-> 0] >>
    /\ ntop = 0
    /\ last = [e |-> "init", p |-> 0, op |-> "", w |-> 0, k |-> 0, wa |-> 0, wk |-> 0]
    /\ configs = L!LinInit(AbsInit(Kind))

Top == stack[Len(stack)]
Pop == SubSeq(stack, 1, Len(stack) - 1)
\* depth of the code currently running = number of operations suspended below it + 1
CurP == Cardinality({ i \in DOMAIN stack : stack[i].f \in {"ret", "mset"} }) + 1
Frame(f, left, p, wakes, dw) == [f |-> f, left |-> left, p |-> p, wakes |-> wakes, dw |-> dw]
\* the callback of a waker invoked by an operation of process p runs at depth p + 1
CbFrame(p) == Frame("cb", IF p <= Depth THEN CbOps ELSE 0, 0, {}, 0)

\* the frame issuing calls spends one call
Spend(s) ==
    IF Top.f = "prog" THEN s ELSE [s EXCEPT ![Len(s)] = [@ EXCEPT !.left = @ - 1]]
CanIssue == \/ Top.f = "prog" /\ ntop < MaxTop
            \/ Top.f = "cb" /\ Top.left > 0
Issued == ntop' = (IF Top.f = "prog" THEN ntop + 1 ELSE ntop)

\* e: "op" a call that returned at once | "opw" a call that is now suspended (it invoked waker wk of wait wa, or is
\* a manual set() about to drain) | "wake" the drain loop invoked a waker | "cbret" a callback returned | "ret" a
\* suspended call returned
Note(e, p, op, w, k, wa, wk) == last' = [e |-> e, p |-> p, op |-> op, w |-> w, k |-> k, wa |-> wa, wk |-> wk]

\* an operation that completes without invoking a waker
Simple(op, res) ==
    /\ configs' = L!LinAtomic(configs, CurP, op, res)
    /\ stack' = Spend(stack)
    /\ Note("op", CurP, op.op, op.w, op.k, 0, 0)

\* an operation that invokes waker <<a, k>> and returns when the callback has returned
Waking(op, a, k) ==
    /\ configs' = Woken(L!LinInvoke(configs, CurP, op), { <<a, k>> })
    /\ stack' = Spend(stack) \o << Frame("ret", 0, CurP, { <<a, k>> }, IF op.op = "drop" THEN op.w ELSE 0),
                                   CbFrame(CurP) >>
    /\ Note("opw", CurP, op.op, op.w, op.k, a, k)

\* ------------------------------------------------------------------------------------------------------ set
AutoSet ==
    /\ Kind = "auto" /\ CanIssue /\ Issued
    /\ IF sig THEN Simple(OpSet, Res("ok")) /\ UNCHANGED <<sig, wl, lc>>                   \* InnerState::Set: nothing
       ELSE IF wl = <<>> THEN sig' = TRUE /\ Simple(OpSet, Res("ok")) /\ UNCHANGED <<wl, lc>>
       ELSE \E n \in SeqPickable(wl) :
               /\ wl' = SeqRemove(wl, n.a) /\ lc' = [lc EXCEPT ![n.a] = "notified"]
               /\ Waking(OpSet, n.a, n.k) /\ UNCHANGED sig
    /\ UNCHANGED <<gen, fut, kc, dropping>>

ManualSet ==
    /\ Kind = "manual" /\ CanIssue /\ Issued
    /\ IF sig THEN Simple(OpSet, Res("ok")) /\ UNCHANGED <<sig, gen>>                       \* already set: return
       ELSE /\ sig' = TRUE /\ gen' = gen + 1
            /\ configs' = L!LinInvoke(configs, CurP, OpSet)
            /\ stack' = Spend(stack) \o << Frame("mset", 0, CurP, {}, 0) >>
            /\ Note("opw", CurP, "set", 0, 0, 0, 0)
    /\ UNCHANGED <<wl, lc, fut, kc, dropping>>

\* the drain loop of manual set(), one iteration
ManualDrain ==
    /\ Top.f = "mset"
    /\ IF SeqPriorHead(wl, gen) # {}
       THEN LET n == wl[1] IN
            /\ wl' = Tail(wl) /\ lc' = [lc EXCEPT ![n.a] = "notified"]
            /\ stack' = [stack EXCEPT ![Len(stack)] = [@ EXCEPT !.wakes = @ \cup { <<n.a, n.k>> }]]
                        \o << CbFrame(Top.p) >>
            /\ Note("wake", Top.p, "", 0, 0, n.a, n.k)
            /\ configs' = Woken(configs, { <<n.a, n.k>> })
       ELSE /\ configs' = L!LinRespond(configs, Top.p, Res("ok"))
            /\ stack' = Pop
            /\ Note("ret", Top.p, "", 0, 0, 0, 0)
            /\ UNCHANGED <<wl, lc>>
    /\ UNCHANGED <<sig, gen, fut, kc, dropping, ntop>>

\* ------------------------------------------------------------------------------------------ reset, try_wait
Reset ==
    /\ Kind = "manual" /\ CanIssue /\ Issued
    /\ sig' = FALSE /\ Simple(OpReset, Res("ok"))
    /\ UNCHANGED <<wl, lc, gen, fut, kc, dropping>>

TryWait ==
    /\ CanIssue /\ Issued
    /\ Simple(OpTry, Res(IF sig THEN "true" ELSE "false"))
    /\ sig' = (IF Kind = "auto" THEN FALSE ELSE sig)
    /\ UNCHANGED <<wl, lc, gen, fut, kc, dropping>>

\* ----------------------------------------------------------------------------------------------------- poll
\* both local variants: take_notification() first, then the flag, else register (or replace the waker)
PollW(w) ==
    /\ CanIssue /\ Issued
    /\ fut[w] \in {"none", "live"} /\ w \notin dropping
    /\ kc' = [kc EXCEPT ![w] = @ + 1]
    /\ LET k == kc[w] + 1
           op == OpPoll(w, k) IN
       IF lc[w] = "notified"
       THEN /\ lc' = [lc EXCEPT ![w] = "idle"] /\ fut' = [fut EXCEPT ![w] = "done"]
            /\ Simple(op, Res("ready")) /\ UNCHANGED <<sig, wl>>
       ELSE IF sig
            THEN /\ sig' = (IF Kind = "auto" THEN FALSE ELSE sig) /\ fut' = [fut EXCEPT ![w] = "done"]
                 /\ Simple(op, Res("ready")) /\ UNCHANGED <<lc, wl>>
            ELSE /\ fut' = [fut EXCEPT ![w] = "live"]
                 /\ IF lc[w] = "waiting"
                    THEN wl' = SeqSetWaker(wl, w, k) /\ UNCHANGED lc
                    ELSE wl' = SeqAppend(wl, w, k, gen) /\ lc' = [lc EXCEPT ![w] = "waiting"]
                 /\ Simple(op, Res("pending")) /\ UNCHANGED sig
    /\ UNCHANGED <<gen, dropping>>

\* ----------------------------------------------------------------------------------------------------- drop
DropW(w) ==
    /\ CanIssue /\ Issued
    /\ fut[w] # "none" /\ w \notin dropping
    /\ LET op == OpDrop(w) IN
       IF lc[w] = "idle"
       THEN /\ fut' = [fut EXCEPT ![w] = "none"] /\ Simple(op, Res("ok"))
            /\ UNCHANGED <<sig, wl, lc, dropping>>
       ELSE IF lc[w] = "waiting"
       THEN /\ wl' = SeqRemove(wl, w) /\ lc' = [lc EXCEPT ![w] = "idle"]
            /\ fut' = [fut EXCEPT ![w] = "none"] /\ Simple(op, Res("ok"))
            /\ UNCHANGED <<sig, dropping>>
       ELSE \* notified
            IF Kind = "manual" \/ sig
            THEN \* manual: unregister() is a no-op; auto with the signal already stored: the notification coalesces
                 /\ lc' = [lc EXCEPT ![w] = "idle"] /\ fut' = [fut EXCEPT ![w] = "none"]
                 /\ Simple(op, Res("ok")) /\ UNCHANGED <<sig, wl, dropping>>
            ELSE IF wl = <<>>
            THEN /\ sig' = TRUE /\ lc' = [lc EXCEPT ![w] = "idle"] /\ fut' = [fut EXCEPT ![w] = "none"]
                 /\ Simple(op, Res("ok")) /\ UNCHANGED <<wl, dropping>>
            ELSE \E n \in SeqPickable(wl) :
                    /\ wl' = SeqRemove(wl, n.a) /\ lc' = [lc EXCEPT ![n.a] = "notified"]
                    /\ dropping' = dropping \cup {w}
                    /\ Waking(op, n.a, n.k) /\ UNCHANGED <<sig, fut>>
    /\ UNCHANGED <<gen, kc>>

\* ------------------------------------------------------------------------------------------- frames returning
CbReturn ==
    /\ Top.f = "cb"
    /\ stack' = Pop
    /\ Note("cbret", CurP, "", 0, 0, 0, 0)
    /\ UNCHANGED <<sig, wl, lc, gen, fut, kc, dropping, ntop, configs>>

OpReturn ==
    /\ Top.f = "ret"
    /\ configs' = L!LinRespond(configs, Top.p, Res("ok"))
    /\ stack' = Pop
    /\ Note("ret", Top.p, "", 0, 0, 0, 0)
    \* an auto drop_wait that forwarded its notification ends here: the future is gone
    /\ IF Top.dw # 0
       THEN /\ dropping' = dropping \ {Top.dw}
            /\ fut' = [fut EXCEPT ![Top.dw] = "none"]
            /\ lc' = [lc EXCEPT ![Top.dw] = "idle"]
       ELSE UNCHANGED <<dropping, fut, lc>>
    /\ UNCHANGED <<sig, wl, gen, kc, ntop>>

Next ==
    \/ AutoSet \/ ManualSet \/ ManualDrain \/ Reset \/ TryWait
    \/ \E w \in Waits : PollW(w) \/ DropW(w)
    \/ CbReturn \/ OpReturn

Spec == Init /\ [][Next]_vars

\* ------------------------------------------------------------------------------------------------ properties
TypeOK ==
    /\ sig \in BOOLEAN /\ gen \in Nat
    /\ lc \in [Waits -> {"idle", "waiting", "notified"}]
    /\ fut \in [Waits -> {"none", "live", "done"}]
    /\ \A i \in DOMAIN stack : stack[i].f \in {"prog", "cb", "ret", "mset"}
    /\ \A c \in configs : AbsTypeOK(c.s)

Linearizable == L!LinOk(configs)

ListOk ==
    /\ SeqWellFormed(wl)
    /\ \A i \in DOMAIN wl : wl[i].g <= gen
    /\ \A a \in Waits : (a \in SeqMembers(wl)) <=> (lc[a] = "waiting")

\* local_auto.rs: "if the event is set there are no waiters" (the enum InnerState encodes it)
SetExcludesWaiters == (Kind = "auto" /\ sig) => wl = <<>>

Quiet == Len(stack) = 1

NoLostSignal == Quiet => ~(sig /\ \E i \in DOMAIN wl : fut[wl[i].a] = "live")

QuiescentRefines ==
    Quiet => \E c \in configs :
                /\ c.s.sig = sig
                /\ c.s.reg = SeqMembers(wl)
                /\ c.s.notif = { a \in Waits : lc[a] = "notified" }
                /\ \A i \in DOMAIN wl : c.s.wk[wl[i].a] \in {0, wl[i].k}
=============================================================================
