------------------------------ MODULE Trace_AutoStep ------------------------------
(* Step-level conformance of the real auto-reset event to the explorer AutoResetImpl: every atomic step the instrumented
   build logged at a scheduling point (hook H3: location class, operation, value observed, value written) must be
   an enabled action of the explorer, taken by the same thread, with the same effect on the state byte / lifecycle
   byte.  A recorded run that is NOT a behaviour of the explorer means the explorer no longer mirrors the code
   (fidelity, DESIGN 2.2): reported as drift by the check, never as a violation.  For every matched step the trace
   spec prints the explorer label with the memory ordering(s) the code passed: the measured ordering table.

   Records: {"ev":"reset"} new run | {"ev":"inv","p":p,"op":..} | {"ev":"step","p":p,"loc":"state|lc|mutex","op":..,
   "w":wait,"obs":v,"wr":v|-1,"ord":..,"ord2":..}
   (generated from spec/reset/labels.json by the same table checks/c08.py uses to turn behaviours into scripts)  *)
EXTENDS TraceLib, Integers, AutoResetImpl

VARIABLES l, want          \* want[p]: the operation process p last invoked (disambiguates equal first steps)

r == Rec[l]

AllMenu == [t \in Threads |-> {"set", "try", "poll", "drop"}]

\* label -> <<location class, operation announced by the shim, API operation it belongs to>>
Site(lab) ==
    CASE lab = "s_cas" -> <<"state", "cas", "set">>
      [] lab = "s_load" -> <<"state", "load", "set">>
      [] lab = "s_lock" -> <<"mutex", "lock", "set">>
      [] lab = "s_store" -> <<"state", "store", "set">>
      [] lab = "s_notify" -> <<"lc", "store", "set">>
      [] lab = "s_clr" -> <<"state", "fetch_and", "set">>
      [] lab = "t_fa" -> <<"state", "fetch_and", "try">>
      [] lab = "p_try1" -> <<"state", "fetch_and", "poll">>
      [] lab = "p_tn1" -> <<"lc", "cas", "poll">>
      [] lab = "p_lock" -> <<"mutex", "lock", "poll">>
      [] lab = "p_tn2" -> <<"lc", "cas", "poll">>
      [] lab = "p_try2" -> <<"state", "fetch_and", "poll">>
      [] lab = "p_or" -> <<"state", "fetch_or", "poll">>
      [] lab = "p_try3" -> <<"state", "fetch_and", "poll">>
      [] lab = "p_reg" -> <<"lc", "store", "poll">>
      [] lab = "p_clr" -> <<"state", "fetch_and", "poll">>
      [] lab = "d_isreg" -> <<"lc", "load", "drop">>
      [] lab = "d_lock" -> <<"mutex", "lock", "drop">>
      [] lab = "d_isnot" -> <<"lc", "load", "drop">>
      [] lab = "d_unreg" -> <<"lc", "store", "drop">>
      [] lab = "d_clr" -> <<"state", "fetch_and", "drop">>
      [] lab = "d_store" -> <<"state", "store", "drop">>
      [] lab = "d_notify" -> <<"lc", "store", "drop">>

EncSt(s) == (IF "SIG" \in s THEN 1 ELSE 0) + (IF "HW" \in s THEN 2 ELSE 0)
EncLc(x) == CASE x = "idle" -> 0 [] x = "waiting" -> 1 [] x = "notified" -> 2

\* the values the real step observed / wrote agree with the explorer's step
Agrees ==
    CASE r.loc = "state" ->
            /\ (r.op # "store" => r.obs = EncSt(st))
            /\ (r.wr # -1 => r.wr = EncSt(st'))
            /\ (r.wr = -1 => st' = st)
      [] r.loc = "lc" ->
            /\ (r.op # "store" => r.obs = EncLc(lc[r.w]))
            /\ (r.wr # -1 => r.wr = EncLc(lc'[r.w]))
      [] OTHER -> TRUE

StepRec ==
    /\ r.ev = "step"
    /\ \E lab \in Labels :
          /\ Site(lab)[1] = r.loc /\ Site(lab)[2] = r.op /\ Site(lab)[3] = want[r.p]
          /\ Act(r.p, lab)
          /\ Agrees
          /\ PrintT(<<"SITE", lab, r.ord, r.ord2, IF r.wr = -1 THEN "nowrite" ELSE "write">>)
    /\ UNCHANGED want

InvRec ==
    /\ r.ev = "inv"
    /\ want' = [want EXCEPT ![r.p] = r.op]
    /\ UNCHANGED vars

ResetRec ==
    /\ r.ev = "reset"
    /\ want' = [p \in Threads |-> "none"]
    /\ st' = {} /\ mutex' = {} /\ wl' = <<>>
    /\ lc' = [t \in Threads |-> "idle"]
    /\ pc' = [t \in Threads |-> "idle"]
    /\ wst' = [t \in Threads |-> "none"]
    /\ nops' = [t \in Threads |-> 0]
    /\ npoll' = [t \in Threads |-> 0]
    /\ woke' = [t \in Threads |-> {}]
    /\ configs' = L!LinInit(AbsInit("auto"))

TraceInit == l = 1 /\ want = [p \in Threads |-> "none"] /\ Init

TraceNext ==
    /\ l <= NRec
    /\ ResetRec \/ InvRec \/ StepRec
    /\ l' = l + 1

TraceSpec == TraceInit /\ [][TraceNext]_<<l, want, vars>>
=============================================================================
