CONSTANTS MaxNodes = 4
SPECIFICATION TraceSpec
POSTCONDITION Accepted
CHECK_DEADLOCK FALSE
