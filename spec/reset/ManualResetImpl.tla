------------------------------ MODULE ManualResetImpl ------------------------------
(* EXPLORER for C08, manual-reset event: packages/events/src/manual.rs (EventInner::{set, reset, try_wait, poll_wait,
   drop_wait}) over packages/awaiter_set, sequentially consistent.  Same conventions as AutoResetImpl.tla (one action
   per atomic operation / mutex acquisition; invocation = first step, response = last step; Relaxed lifecycle loads
   are not steps).  A mutex acquisition whose critical section contains no atomic operation (advance_generation();
   a drain iteration that finds nothing to notify in a non-empty list; unregister() of an already notified awaiter
   in a non-empty list) is a single action that also releases the mutex.

   State byte: st \subseteq {"SIG","HW"} (IS_SET, HAS_WAITERS); gen = AwaiterSet::generation.                    *)
EXTENDS Naturals, Sequences, FiniteSets, TLC, AwaiterSeq

CONSTANTS Threads,    \* thread ids (= wait ids)
          Menu,       \* thread -> subset of {"set","reset","try","poll","drop"}
          MaxOps      \* calls per thread

INSTANCE ResetEventAbs WITH Waits <- Threads

VARIABLES st, mutex, wl, lc, gen,
          pc, wst, nops, npoll, woke, seen,     \* seen[t]: state byte value t's set() last observed (CAS loop)
          configs

shared == <<st, mutex, wl, lc, gen>>
vars == <<st, mutex, wl, lc, gen, pc, wst, nops, npoll, woke, seen, configs>>

L == INSTANCE LinMonitor WITH Procs <- Threads, SeqApply <- Apply
Woken(C, S) == L!LinUpdate(C, LAMBDA s : WakeAll(s, S))

Init ==
    /\ st = {} /\ mutex = {} /\ wl = <<>> /\ gen = 1
    /\ lc = [t \in Threads |-> "idle"]
    /\ pc = [t \in Threads |-> "idle"]
    /\ wst = [t \in Threads |-> "none"]
    /\ nops = [t \in Threads |-> 0]
    /\ npoll = [t \in Threads |-> 0]
    /\ woke = [t \in Threads |-> {}]
    /\ seen = [t \in Threads |-> {}]
    /\ configs = L!LinInit(AbsInit("manual"))

Goto(t, l) == pc' = [pc EXCEPT ![t] = l]
Idle(t) == pc' = [pc EXCEPT ![t] = "idle"]
Invoked(t, op) == L!LinInvoke(configs, t, op)
CanCall(t, what) == pc[t] = "idle" /\ what \in Menu[t] /\ nops[t] < MaxOps
Count(t) == nops' = [nops EXCEPT ![t] = @ + 1]
Unlock == mutex' = {}
Held(t) == mutex = {t}

\* ----------------------------------------------------------------------------------------------------- set()
\* Fast path: load(Relaxed), then compare_exchange(seen, seen | IS_SET, Release, Relaxed) for as long as the value
\* seen has HAS_WAITERS clear.  (Before the fix recorded in known_findings.json this was one fetch_or(IS_SET) that
\* published IS_SET before the slow path took the mutex: a waiter registering between the two after a reset() was
\* drained although it registered after this set() -- a wait completing on a closed gate.)
m_ld(t) ==
    /\ CanCall(t, "set") /\ Count(t)
    /\ configs' = Invoked(t, OpSet)
    /\ seen' = [seen EXCEPT ![t] = st]
    /\ Goto(t, IF "HW" \in st THEN "m_lock0" ELSE "m_cas")
    /\ UNCHANGED <<shared, wst, npoll, woke>>

m_cas(t) ==
    /\ pc[t] = "m_cas"
    /\ IF st = seen[t]
       THEN /\ st' = st \cup {"SIG"} /\ Idle(t)
            /\ configs' = L!LinRespond(configs, t, Res("ok"))
            /\ UNCHANGED seen
       ELSE /\ seen' = [seen EXCEPT ![t] = st]
            /\ Goto(t, IF "HW" \in st THEN "m_lock0" ELSE "m_cas")
            /\ UNCHANGED <<st, configs>>
    /\ UNCHANGED <<mutex, wl, lc, gen, wst, nops, npoll, woke>>

\* Slow path: slow.lock() ...
m_lock0(t) ==
    /\ pc[t] = "m_lock0" /\ mutex = {} /\ mutex' = {t} /\ Goto(t, "m_pub")
    /\ UNCHANGED <<st, wl, lc, gen, wst, nops, npoll, woke, configs, seen>>

\* ... fetch_or(IS_SET, Release); advance_generation(); unlock: the event becomes set and the new generation opens
\* in one critical section, so exactly the awaiters registered before this point are drained
m_pub(t) ==
    /\ pc[t] = "m_pub" /\ Held(t)
    /\ st' = st \cup {"SIG"} /\ gen' = gen + 1 /\ Unlock /\ Goto(t, "m_lock")
    /\ UNCHANGED <<wl, lc, wst, nops, npoll, woke, configs, seen>>

\* loop head: slow.lock(); notify_one_prior_generation() looks at the head only
m_lock(t) ==
    /\ pc[t] = "m_lock" /\ mutex = {}
    /\ IF SeqPriorHead(wl, gen) # {}
       THEN mutex' = {t} /\ Goto(t, "m_notify") /\ UNCHANGED <<configs, woke, seen>>
       ELSE IF wl = <<>>
            THEN mutex' = {t} /\ Goto(t, "m_clrend") /\ UNCHANGED <<configs, woke, seen>>
            ELSE \* nothing eligible, list not empty: break; unlock; return
                 /\ UNCHANGED <<mutex, woke>> /\ Idle(t)
                 /\ configs' = L!LinRespond(configs, t, Res("ok"))
    /\ UNCHANGED <<st, wl, lc, gen, wst, nops, npoll, seen>>

\* remove(head): unlink, take the waker, lifecycle.store(NOTIFIED, Release)
m_notify(t) ==
    /\ pc[t] = "m_notify" /\ Held(t)
    /\ LET n == wl[1] IN
          /\ wl' = Tail(wl)
          /\ lc' = [lc EXCEPT ![n.a] = "notified"]
          /\ IF Tail(wl) = <<>>
             THEN /\ Goto(t, "m_clr") /\ woke' = [woke EXCEPT ![t] = { <<n.a, n.k>> }]
                  /\ UNCHANGED <<mutex, configs>>
             ELSE /\ Unlock /\ Goto(t, "m_lock") /\ UNCHANGED woke           \* drop(waiters); w.wake(); next iteration
                  /\ configs' = Woken(configs, { <<n.a, n.k>> })
    /\ UNCHANGED <<st, gen, wst, nops, npoll, seen>>

\* fetch_and(!HAS_WAITERS, Relaxed) after a notification emptied the list; unlock; w.wake(); next iteration
m_clr(t) ==
    /\ pc[t] = "m_clr" /\ Held(t)
    /\ st' = st \ {"HW"} /\ Unlock /\ Goto(t, "m_lock")
    /\ configs' = Woken(configs, woke[t])
    /\ woke' = [woke EXCEPT ![t] = {}]
    /\ UNCHANGED <<wl, lc, gen, wst, nops, npoll, seen>>

\* nothing to notify and the list is empty: fetch_and(!HAS_WAITERS, Relaxed); break
m_clrend(t) ==
    /\ pc[t] = "m_clrend" /\ Held(t)
    /\ st' = st \ {"HW"} /\ Unlock /\ Idle(t)
    /\ configs' = L!LinRespond(configs, t, Res("ok"))
    /\ UNCHANGED <<wl, lc, gen, wst, nops, npoll, woke, seen>>

\* --------------------------------------------------------------------------------------- reset(), try_wait()
\* fetch_and(!IS_SET, Release)
r_fa(t) ==
    /\ CanCall(t, "reset") /\ Count(t)
    /\ st' = st \ {"SIG"}
    /\ configs' = L!LinAtomic(configs, t, OpReset, Res("ok"))
    /\ UNCHANGED <<mutex, wl, lc, gen, pc, wst, npoll, woke, seen>>

\* load(Acquire)
y_ld(t) ==
    /\ CanCall(t, "try") /\ Count(t)
    /\ configs' = L!LinAtomic(configs, t, OpTry, Res(IF "SIG" \in st THEN "true" ELSE "false"))
    /\ UNCHANGED <<shared, pc, wst, npoll, woke, seen>>

\* ----------------------------------------------------------------------------------------------- poll_wait()
PollReady(t, c) ==
    /\ configs' = L!LinRespond(c, t, Res("ready"))
    /\ Idle(t)
    /\ wst' = [wst EXCEPT ![t] = "ready"]
PollPending(t) ==
    /\ configs' = L!LinRespond(configs, t, Res("pending"))
    /\ Idle(t)
    /\ wst' = [wst EXCEPT ![t] = "pending"]

\* load(Acquire) #1 (fast path)
q_ld1(t) ==
    /\ CanCall(t, "poll") /\ wst[t] \in {"none", "pending"} /\ Count(t)
    /\ npoll' = [npoll EXCEPT ![t] = @ + 1]
    /\ LET c == Invoked(t, OpPoll(t, npoll[t] + 1)) IN
       IF "SIG" \in st THEN PollReady(t, c)
       ELSE configs' = c /\ Goto(t, "q_tn1") /\ wst' = [wst EXCEPT ![t] = "pending"]
    /\ UNCHANGED <<shared, woke, seen>>

\* take_notification(): compare_exchange(NOTIFIED, IDLE, Acquire, Relaxed)
q_tn1(t) ==
    /\ pc[t] = "q_tn1"
    /\ IF lc[t] = "notified"
       THEN lc' = [lc EXCEPT ![t] = "idle"] /\ PollReady(t, configs)
       ELSE UNCHANGED <<lc, configs, wst>> /\ Goto(t, "q_lock")
    /\ UNCHANGED <<st, mutex, wl, gen, nops, npoll, woke, seen>>

q_lock(t) ==
    /\ pc[t] = "q_lock" /\ mutex = {} /\ mutex' = {t} /\ Goto(t, "q_tn2")
    /\ UNCHANGED <<st, wl, lc, gen, wst, nops, npoll, woke, seen, configs>>

q_tn2(t) ==
    /\ pc[t] = "q_tn2" /\ Held(t)
    /\ IF lc[t] = "notified"
       THEN lc' = [lc EXCEPT ![t] = "idle"] /\ Unlock /\ PollReady(t, configs)
       ELSE UNCHANGED <<lc, mutex, configs, wst>> /\ Goto(t, "q_ld2")
    /\ UNCHANGED <<st, wl, gen, nops, npoll, woke, seen>>

\* load(Acquire) #2 under the mutex
q_ld2(t) ==
    /\ pc[t] = "q_ld2" /\ Held(t)
    /\ IF "SIG" \in st THEN Unlock /\ PollReady(t, configs)
       ELSE UNCHANGED <<mutex, configs, wst>> /\ Goto(t, "q_or")
    /\ UNCHANGED <<st, wl, lc, gen, nops, npoll, woke, seen>>

\* fetch_or(HAS_WAITERS, Relaxed)
q_or(t) ==
    /\ pc[t] = "q_or" /\ Held(t)
    /\ st' = st \cup {"HW"} /\ Goto(t, "q_ld3")
    /\ UNCHANGED <<mutex, wl, lc, gen, wst, nops, npoll, woke, seen, configs>>

\* load(Acquire) #3 after HAS_WAITERS is published; not set -> register (see AutoResetImpl!p_try3)
q_ld3(t) ==
    /\ pc[t] = "q_ld3" /\ Held(t)
    /\ IF "SIG" \in st
       THEN Goto(t, "q_clr") /\ UNCHANGED <<mutex, wl, configs, wst>>
       ELSE IF lc[t] = "waiting"
            THEN wl' = SeqSetWaker(wl, t, npoll[t]) /\ Unlock /\ PollPending(t)
            ELSE Goto(t, "q_reg") /\ UNCHANGED <<mutex, wl, configs, wst>>
    /\ UNCHANGED <<st, lc, gen, nops, npoll, woke, seen>>

\* register(): link at the tail stamped with the current generation, lifecycle.store(WAITING, Release)
q_reg(t) ==
    /\ pc[t] = "q_reg" /\ Held(t)
    /\ wl' = SeqAppend(wl, t, npoll[t], gen)
    /\ lc' = [lc EXCEPT ![t] = "waiting"]
    /\ Unlock /\ PollPending(t)
    /\ UNCHANGED <<st, gen, nops, npoll, woke, seen>>

\* fetch_and(!HAS_WAITERS, Relaxed); Poll::Ready
q_clr(t) ==
    /\ pc[t] = "q_clr" /\ Held(t)
    /\ st' = st \ {"HW"} /\ Unlock /\ PollReady(t, configs)
    /\ UNCHANGED <<wl, lc, gen, nops, npoll, woke, seen>>

\* ----------------------------------------------------------------------------------------------- drop_wait()
DropDone(t, c) ==
    /\ configs' = L!LinRespond(c, t, Res("ok"))
    /\ Idle(t)
    /\ wst' = [wst EXCEPT ![t] = "none"]

\* is_registered(): lifecycle.load(Acquire)
e_isreg(t) ==
    /\ pc[t] = "idle"
    /\ \/ wst[t] = "pending" /\ "drop" \in Menu[t] /\ nops[t] < MaxOps /\ Count(t)
       \/ wst[t] = "ready" /\ UNCHANGED nops
    /\ LET c == Invoked(t, OpDrop(t)) IN
       IF lc[t] = "idle" THEN DropDone(t, c)
       ELSE configs' = c /\ Goto(t, "e_lock") /\ UNCHANGED wst
    /\ UNCHANGED <<shared, npoll, woke, seen>>

\* slow.lock(); unregister(): a notified awaiter is already unlinked
e_lock(t) ==
    /\ pc[t] = "e_lock" /\ mutex = {}
    /\ IF lc[t] = "waiting"
       THEN mutex' = {t} /\ Goto(t, "e_unreg") /\ UNCHANGED <<lc, configs, wst>>
       ELSE IF wl = <<>>
            THEN mutex' = {t} /\ Goto(t, "e_clr") /\ UNCHANGED <<lc, configs, wst>>
            ELSE UNCHANGED mutex /\ lc' = [lc EXCEPT ![t] = "idle"] /\ DropDone(t, configs)
    /\ UNCHANGED <<st, wl, gen, nops, npoll, woke, seen>>

\* unlink, drop the waker, lifecycle.store(IDLE, Release)
e_unreg(t) ==
    /\ pc[t] = "e_unreg" /\ Held(t)
    /\ wl' = SeqRemove(wl, t)
    /\ lc' = [lc EXCEPT ![t] = "idle"]
    /\ IF SeqRemove(wl, t) = <<>>
       THEN Goto(t, "e_clr") /\ UNCHANGED <<mutex, configs, wst>>
       ELSE Unlock /\ DropDone(t, configs)
    /\ UNCHANGED <<st, gen, nops, npoll, woke, seen>>

e_clr(t) ==
    /\ pc[t] = "e_clr" /\ Held(t)
    /\ st' = st \ {"HW"} /\ Unlock
    /\ lc' = [lc EXCEPT ![t] = "idle"]
    /\ DropDone(t, configs)
    /\ UNCHANGED <<wl, gen, nops, npoll, woke, seen>>

\* -----------------------------------------------------------------------------------------------------------
Labels == { "m_ld", "m_cas", "m_lock0", "m_pub", "m_lock", "m_notify", "m_clr", "m_clrend", "r_fa", "y_ld",
            "q_ld1", "q_tn1", "q_lock", "q_tn2", "q_ld2", "q_or", "q_ld3", "q_reg", "q_clr",
            "e_isreg", "e_lock", "e_unreg", "e_clr" }

Act(t, l) ==
    CASE l = "m_ld" -> m_ld(t) [] l = "m_cas" -> m_cas(t) [] l = "m_lock0" -> m_lock0(t) [] l = "m_pub" -> m_pub(t)
      [] l = "m_lock" -> m_lock(t)
      [] l = "m_notify" -> m_notify(t) [] l = "m_clr" -> m_clr(t) [] l = "m_clrend" -> m_clrend(t)
      [] l = "r_fa" -> r_fa(t) [] l = "y_ld" -> y_ld(t)
      [] l = "q_ld1" -> q_ld1(t) [] l = "q_tn1" -> q_tn1(t) [] l = "q_lock" -> q_lock(t)
      [] l = "q_tn2" -> q_tn2(t) [] l = "q_ld2" -> q_ld2(t) [] l = "q_or" -> q_or(t)
      [] l = "q_ld3" -> q_ld3(t) [] l = "q_reg" -> q_reg(t) [] l = "q_clr" -> q_clr(t)
      [] l = "e_isreg" -> e_isreg(t) [] l = "e_lock" -> e_lock(t) [] l = "e_unreg" -> e_unreg(t)
      [] l = "e_clr" -> e_clr(t)

Next == \E t \in Threads : \E l \in Labels : Act(t, l)

Spec == Init /\ [][Next]_vars

\* ------------------------------------------------------------------------------------------------ properties
TypeOK ==
    /\ st \subseteq {"SIG", "HW"}
    /\ mutex \subseteq Threads /\ Cardinality(mutex) <= 1
    /\ gen \in Nat
    /\ \A i \in DOMAIN wl : wl[i].a \in Threads /\ wl[i].k \in Nat /\ wl[i].g \in Nat
    /\ lc \in [Threads -> {"idle", "waiting", "notified"}]
    /\ pc \in [Threads -> Labels \cup {"idle"}]
    /\ wst \in [Threads -> {"none", "pending", "ready"}]
    /\ \A c \in configs : AbsTypeOK(c.s)

Linearizable == L!LinOk(configs)

\* manual.rs "Key invariant: HAS_WAITERS clear => slow is empty".  (Before the fix this was false: a re-poll of a
\* registered wait racing a slow-path set() cleared HAS_WAITERS "unconditionally" with its own awaiter still linked.)
HwInv == "HW" \notin st => wl = <<>>

\* list well-formed, generations non-decreasing head -> tail and never ahead of the set's, lifecycle bytes agree
ListOk ==
    /\ SeqWellFormed(wl)
    /\ \A i \in DOMAIN wl : wl[i].g <= gen
    /\ \A a \in Threads : (a \in SeqMembers(wl)) <=> (lc[a] = "waiting")

Quiet == \A t \in Threads : pc[t] = "idle"

\* the event is set and a live waiter is still registered = a waiter the set should have released
NoLostSignal == Quiet => ~("SIG" \in st /\ \E i \in DOMAIN wl : wst[wl[i].a] = "pending")

QuiescentRefines ==
    Quiet => \E c \in configs :
                /\ c.s.sig = ("SIG" \in st)
                /\ c.s.reg = SeqMembers(wl)
                /\ c.s.notif = { a \in Threads : lc[a] = "notified" }
                /\ \A i \in DOMAIN wl : c.s.wk[wl[i].a] \in {0, wl[i].k}
=============================================================================
