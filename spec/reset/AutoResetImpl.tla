------------------------------ MODULE AutoResetImpl ------------------------------
(* EXPLORER for C08, auto-reset event: packages/events/src/auto.rs (EventInner::{set, try_wait, poll_wait, drop_wait})
   over packages/awaiter_set (set.rs, awaiter.rs), sequentially consistent.

   Granularity = the scheduling points of the instrumented build (hook H3): ONE ACTION PER ATOMIC OPERATION on the
   state byte or on an awaiter's lifecycle byte, and one per mutex acquisition.  What a thread does between two
   scheduling points (list manipulation under the mutex, releasing the mutex, invoking a waker, returning to the
   caller) belongs to the action of the preceding atomic operation; in particular
     * the invocation of an operation coincides with its first atomic step and its response with its last one
       (minimal intervals = the most real-time constraints = the strictest linearizability check; the harness logs
       invocations lazily after the first scheduling point to record exactly these histories);
     * Relaxed loads of the lifecycle byte (Awaiter::lifecycle_phase, only ever executed by the owner under the
       mutex, incl. the debug_assert!s) are not scheduling points: they commute with everything.
   The label of an action (Act(t, label)) is the pc at which the thread is parked = the operation it performs next;
   checks/c08.py maps labels to the operation names the hook publishes ("state.cas", "lc.store", "lock", ...), which
   is how a TLC behaviour becomes a vrt::sched Script and how drift is detected.

   Threads own one wait future at a time (wait id = thread id; waker id = number of the poll).  A thread performs
   at most MaxOps calls chosen from Menu[t] \subseteq {"set","try","poll","drop"} ("drop" = cancel a pending wait);
   dropping a COMPLETED wait is always possible and not counted.

   State byte: st \subseteq {"SIG","HW"} (SIGNALED, HAS_WAITERS).  Mutex: set of holders.                      *)
EXTENDS Naturals, Sequences, FiniteSets, TLC, AwaiterSeq

CONSTANTS Threads,    \* thread ids (= wait ids)
          Menu,       \* thread -> subset of {"set","try","poll","drop"}
          MaxOps      \* calls per thread

INSTANCE ResetEventAbs WITH Waits <- Threads

VARIABLES st, mutex, wl, lc,          \* shared: state byte, mutex, awaiter list, lifecycle byte per wait
          pc, wst, nops, npoll, woke, \* per thread: program counter, wait status, calls made, polls made, wakers invoked in this op
          configs                     \* linearizability monitor (LinMonitor over ResetEventAbs)

shared == <<st, mutex, wl, lc>>
local == <<pc, wst, nops, npoll, woke>>
vars == <<st, mutex, wl, lc, pc, wst, nops, npoll, woke, configs>>

L == INSTANCE LinMonitor WITH Procs <- Threads, SeqApply <- Apply
\* wakers S were invoked (the harness logs a wake record; the judge pays the debts, see ResetEventAbs)
Woken(C, S) == L!LinUpdate(C, LAMBDA s : WakeAll(s, S))

Gen == 1                                  \* auto-reset never advances the generation

Init ==
    /\ st = {} /\ mutex = {} /\ wl = <<>>
    /\ lc = [t \in Threads |-> "idle"]
    /\ pc = [t \in Threads |-> "idle"]
    /\ wst = [t \in Threads |-> "none"]         \* none | pending | ready
    /\ nops = [t \in Threads |-> 0]
    /\ npoll = [t \in Threads |-> 0]
    /\ woke = [t \in Threads |-> {}]
    /\ configs = L!LinInit(AbsInit("auto"))

Goto(t, l) == pc' = [pc EXCEPT ![t] = l]
Idle(t) == pc' = [pc EXCEPT ![t] = "idle"]
Invoked(t, op) == L!LinInvoke(configs, t, op)
CanCall(t, what) == pc[t] = "idle" /\ what \in Menu[t] /\ nops[t] < MaxOps
Count(t) == nops' = [nops EXCEPT ![t] = @ + 1]
Unlock == mutex' = {}
Held(t) == mutex = {t}

\* ----------------------------------------------------------------------------------------------------- set()
\* compare_exchange(IDLE, SIGNALED, Release, Relaxed)
s_cas(t) ==
    /\ CanCall(t, "set") /\ Count(t)
    /\ IF st = {}
       THEN /\ st' = {"SIG"} /\ configs' = L!LinRespond(Invoked(t, OpSet), t, Res("ok")) /\ UNCHANGED pc
       ELSE /\ configs' = Invoked(t, OpSet) /\ Goto(t, "s_load") /\ UNCHANGED st
    /\ UNCHANGED <<mutex, wl, lc, wst, npoll, woke>>

\* load(Relaxed): already signalled -> nothing to do
s_load(t) ==
    /\ pc[t] = "s_load"
    /\ IF "SIG" \in st
       THEN configs' = L!LinRespond(configs, t, Res("ok")) /\ Idle(t)
       ELSE UNCHANGED configs /\ Goto(t, "s_lock")
    /\ UNCHANGED <<shared, wst, nops, npoll, woke>>

\* slow.lock(); what follows is decided by the list, which cannot change while we hold the mutex
s_lock(t) ==
    /\ pc[t] = "s_lock" /\ mutex = {} /\ mutex' = {t}
    /\ Goto(t, IF wl = <<>> THEN "s_store" ELSE "s_notify")
    /\ UNCHANGED <<st, wl, lc, wst, nops, npoll, woke, configs>>

\* notify_one() -> None: state.store(SIGNALED, Release); unlock; return
s_store(t) ==
    /\ pc[t] = "s_store" /\ Held(t)
    /\ st' = {"SIG"} /\ Unlock
    /\ configs' = L!LinRespond(configs, t, Res("ok")) /\ Idle(t)
    /\ UNCHANGED <<wl, lc, wst, nops, npoll, woke>>

\* notify_one() -> Some: unlink head or tail, take its waker, lifecycle.store(NOTIFIED, Release)
s_notify(t) ==
    /\ pc[t] = "s_notify" /\ Held(t)
    /\ \E n \in SeqPickable(wl) :
          /\ wl' = SeqRemove(wl, n.a)
          /\ lc' = [lc EXCEPT ![n.a] = "notified"]
          /\ IF SeqRemove(wl, n.a) = <<>>
             THEN /\ Goto(t, "s_clr") /\ woke' = [woke EXCEPT ![t] = { <<n.a, n.k>> }]
                  /\ UNCHANGED <<mutex, configs>>
             ELSE /\ Unlock /\ Idle(t) /\ UNCHANGED woke                                  \* unlock; w.wake(); return
                  /\ configs' = L!LinRespond(Woken(configs, { <<n.a, n.k>> }), t, Res("ok"))
    /\ UNCHANGED <<st, wst, nops, npoll>>

\* the set became empty: fetch_and(!HAS_WAITERS, Relaxed); unlock; w.wake(); return
s_clr(t) ==
    /\ pc[t] = "s_clr" /\ Held(t)
    /\ st' = st \ {"HW"} /\ Unlock
    /\ configs' = L!LinRespond(Woken(configs, woke[t]), t, Res("ok")) /\ Idle(t)
    /\ woke' = [woke EXCEPT ![t] = {}]
    /\ UNCHANGED <<wl, lc, wst, nops, npoll>>

\* ------------------------------------------------------------------------------------------------ try_wait()
\* fetch_and(!SIGNALED, Acquire)
t_fa(t) ==
    /\ CanCall(t, "try") /\ Count(t)
    /\ st' = st \ {"SIG"}
    /\ configs' = L!LinAtomic(configs, t, OpTry, Res(IF "SIG" \in st THEN "true" ELSE "false"))
    /\ UNCHANGED <<mutex, wl, lc, pc, wst, npoll, woke>>

\* ----------------------------------------------------------------------------------------------- poll_wait()
PollReady(t, c) ==           \* Poll::Ready: respond, the wait is complete
    /\ configs' = L!LinRespond(c, t, Res("ready"))
    /\ Idle(t)
    /\ wst' = [wst EXCEPT ![t] = "ready"]
PollPending(t) ==
    /\ configs' = L!LinRespond(configs, t, Res("pending"))
    /\ Idle(t)
    /\ wst' = [wst EXCEPT ![t] = "pending"]

\* try_wait() #1 (fast path), before anything else
p_try1(t) ==
    /\ CanCall(t, "poll") /\ wst[t] \in {"none", "pending"} /\ Count(t)
    /\ npoll' = [npoll EXCEPT ![t] = @ + 1]
    /\ st' = st \ {"SIG"}
    /\ LET c == Invoked(t, OpPoll(t, npoll[t] + 1)) IN
       IF "SIG" \in st THEN PollReady(t, c)
       ELSE configs' = c /\ Goto(t, "p_tn1") /\ wst' = [wst EXCEPT ![t] = "pending"]
    /\ UNCHANGED <<mutex, wl, lc, woke>>

\* take_notification() before the mutex: compare_exchange(NOTIFIED, IDLE, Acquire, Relaxed)
p_tn1(t) ==
    /\ pc[t] = "p_tn1"
    /\ IF lc[t] = "notified"
       THEN lc' = [lc EXCEPT ![t] = "idle"] /\ PollReady(t, configs)
       ELSE UNCHANGED <<lc, configs, wst>> /\ Goto(t, "p_lock")
    /\ UNCHANGED <<st, mutex, wl, nops, npoll, woke>>

p_lock(t) ==
    /\ pc[t] = "p_lock" /\ mutex = {} /\ mutex' = {t} /\ Goto(t, "p_tn2")
    /\ UNCHANGED <<st, wl, lc, wst, nops, npoll, woke, configs>>

\* take_notification() under the mutex
p_tn2(t) ==
    /\ pc[t] = "p_tn2" /\ Held(t)
    /\ IF lc[t] = "notified"
       THEN lc' = [lc EXCEPT ![t] = "idle"] /\ Unlock /\ PollReady(t, configs)
       ELSE UNCHANGED <<lc, mutex, configs, wst>> /\ Goto(t, "p_try2")
    /\ UNCHANGED <<st, wl, nops, npoll, woke>>

\* try_wait() #2 under the mutex
p_try2(t) ==
    /\ pc[t] = "p_try2" /\ Held(t)
    /\ st' = st \ {"SIG"}
    /\ IF "SIG" \in st THEN Unlock /\ PollReady(t, configs)
       ELSE UNCHANGED <<mutex, configs, wst>> /\ Goto(t, "p_or")
    /\ UNCHANGED <<wl, lc, nops, npoll, woke>>

\* fetch_or(HAS_WAITERS, Relaxed)
p_or(t) ==
    /\ pc[t] = "p_or" /\ Held(t)
    /\ st' = st \cup {"HW"} /\ Goto(t, "p_try3")
    /\ UNCHANGED <<mutex, wl, lc, wst, nops, npoll, woke, configs>>

\* try_wait() #3 after HAS_WAITERS is published.  No signal: register -- an awaiter that is already WAITING only
\* gets its waker replaced (no further atomic step); an IDLE one is linked and then published by p_reg
p_try3(t) ==
    /\ pc[t] = "p_try3" /\ Held(t)
    /\ st' = st \ {"SIG"}
    /\ IF "SIG" \in st
       THEN Goto(t, "p_clr") /\ UNCHANGED <<mutex, wl, configs, wst>>
       ELSE IF lc[t] = "waiting"
            THEN wl' = SeqSetWaker(wl, t, npoll[t]) /\ Unlock /\ PollPending(t)
            ELSE Goto(t, "p_reg") /\ UNCHANGED <<mutex, wl, configs, wst>>
    /\ UNCHANGED <<lc, nops, npoll, woke>>

\* register(): link at the tail, lifecycle.store(WAITING, Release); unlock; Poll::Pending
p_reg(t) ==
    /\ pc[t] = "p_reg" /\ Held(t)
    /\ wl' = SeqAppend(wl, t, npoll[t], Gen)
    /\ lc' = [lc EXCEPT ![t] = "waiting"]
    /\ Unlock /\ PollPending(t)
    /\ UNCHANGED <<st, nops, npoll, woke>>

\* consumed the signal after publishing HAS_WAITERS: fetch_and(!HAS_WAITERS, Relaxed); unlock; Poll::Ready
p_clr(t) ==
    /\ pc[t] = "p_clr" /\ Held(t)
    /\ st' = st \ {"HW"} /\ Unlock /\ PollReady(t, configs)
    /\ UNCHANGED <<wl, lc, nops, npoll, woke>>

\* ----------------------------------------------------------------------------------------------- drop_wait()
DropDone(t, c, wakes) ==       \* the future is gone; a later wait of this thread is a fresh awaiter
    /\ configs' = L!LinRespond(Woken(c, wakes), t, Res("ok"))
    /\ Idle(t)
    /\ wst' = [wst EXCEPT ![t] = "none"]

\* is_registered(): lifecycle.load(Acquire).  Cancelling a pending wait is a call; dropping a completed one is not.
d_isreg(t) ==
    /\ pc[t] = "idle"
    /\ \/ wst[t] = "pending" /\ "drop" \in Menu[t] /\ nops[t] < MaxOps /\ Count(t)
       \/ wst[t] = "ready" /\ UNCHANGED nops
    /\ LET c == Invoked(t, OpDrop(t)) IN
       IF lc[t] = "idle" THEN DropDone(t, c, {})
       ELSE configs' = c /\ Goto(t, "d_lock") /\ UNCHANGED wst
    /\ UNCHANGED <<shared, npoll, woke>>

d_lock(t) ==
    /\ pc[t] = "d_lock" /\ mutex = {} /\ mutex' = {t} /\ Goto(t, "d_isnot")
    /\ UNCHANGED <<st, wl, lc, wst, nops, npoll, woke, configs>>

\* is_notified(): lifecycle.load(Acquire) under the mutex; the branch and the list decide the next atomic step
d_isnot(t) ==
    /\ pc[t] = "d_isnot" /\ Held(t)
    /\ Goto(t, IF lc[t] = "notified" THEN (IF wl = <<>> THEN "d_store" ELSE "d_notify") ELSE "d_unreg")
    /\ UNCHANGED <<shared, wst, nops, npoll, woke, configs>>

\* not notified: unregister(): unlink, drop the waker, lifecycle.store(IDLE, Release)
d_unreg(t) ==
    /\ pc[t] = "d_unreg" /\ Held(t)
    /\ wl' = SeqRemove(wl, t)
    /\ lc' = [lc EXCEPT ![t] = "idle"]
    /\ IF SeqRemove(wl, t) = <<>>
       THEN Goto(t, "d_clr") /\ UNCHANGED <<mutex, configs, wst>>
       ELSE Unlock /\ DropDone(t, configs, {})
    /\ UNCHANGED <<st, nops, npoll, woke>>

d_clr(t) ==
    /\ pc[t] = "d_clr" /\ Held(t)
    /\ st' = st \ {"HW"} /\ Unlock /\ DropDone(t, configs, woke[t])
    /\ woke' = [woke EXCEPT ![t] = {}]
    /\ UNCHANGED <<wl, lc, nops, npoll>>

\* notified, nobody to forward to: state.store(SIGNALED, Release)
d_store(t) ==
    /\ pc[t] = "d_store" /\ Held(t)
    /\ st' = {"SIG"} /\ Unlock
    /\ lc' = [lc EXCEPT ![t] = "idle"]            \* (the awaiter dies with the future)
    /\ DropDone(t, configs, {})
    /\ UNCHANGED <<wl, nops, npoll, woke>>

\* notified: forward to another waiter: notify_one() -> Some
d_notify(t) ==
    /\ pc[t] = "d_notify" /\ Held(t)
    /\ \E n \in SeqPickable(wl) :
          /\ wl' = SeqRemove(wl, n.a)
          /\ lc' = [lc EXCEPT ![n.a] = "notified", ![t] = "idle"]
          /\ IF SeqRemove(wl, n.a) = <<>>
             THEN /\ Goto(t, "d_clr") /\ woke' = [woke EXCEPT ![t] = { <<n.a, n.k>> }]
                  /\ UNCHANGED <<mutex, configs, wst>>
             ELSE /\ Unlock /\ DropDone(t, configs, { <<n.a, n.k>> }) /\ UNCHANGED woke
    /\ UNCHANGED <<st, nops, npoll>>

\* -----------------------------------------------------------------------------------------------------------
Labels == { "s_cas", "s_load", "s_lock", "s_store", "s_notify", "s_clr", "t_fa",
            "p_try1", "p_tn1", "p_lock", "p_tn2", "p_try2", "p_or", "p_try3", "p_reg", "p_clr",
            "d_isreg", "d_lock", "d_isnot", "d_unreg", "d_clr", "d_store", "d_notify" }

Act(t, l) ==
    CASE l = "s_cas" -> s_cas(t) [] l = "s_load" -> s_load(t) [] l = "s_lock" -> s_lock(t)
      [] l = "s_store" -> s_store(t) [] l = "s_notify" -> s_notify(t) [] l = "s_clr" -> s_clr(t)
      [] l = "t_fa" -> t_fa(t)
      [] l = "p_try1" -> p_try1(t) [] l = "p_tn1" -> p_tn1(t) [] l = "p_lock" -> p_lock(t)
      [] l = "p_tn2" -> p_tn2(t) [] l = "p_try2" -> p_try2(t) [] l = "p_or" -> p_or(t)
      [] l = "p_try3" -> p_try3(t) [] l = "p_reg" -> p_reg(t) [] l = "p_clr" -> p_clr(t)
      [] l = "d_isreg" -> d_isreg(t) [] l = "d_lock" -> d_lock(t) [] l = "d_isnot" -> d_isnot(t)
      [] l = "d_unreg" -> d_unreg(t) [] l = "d_clr" -> d_clr(t) [] l = "d_store" -> d_store(t)
      [] l = "d_notify" -> d_notify(t)

Next == \E t \in Threads : \E l \in Labels : Act(t, l)

Spec == Init /\ [][Next]_vars

\* ------------------------------------------------------------------------------------------------ properties
TypeOK ==
    /\ st \subseteq {"SIG", "HW"}
    /\ mutex \subseteq Threads /\ Cardinality(mutex) <= 1
    /\ \A i \in DOMAIN wl : wl[i].a \in Threads /\ wl[i].k \in Nat /\ wl[i].g \in Nat
    /\ lc \in [Threads -> {"idle", "waiting", "notified"}]
    /\ pc \in [Threads -> Labels \cup {"idle"}]
    /\ wst \in [Threads -> {"none", "pending", "ready"}]
    /\ \A c \in configs : AbsTypeOK(c.s)

\* C08: every interleaving is linearizable w.r.t. ResetEventAbs (incl. latest-waker obligations in the results)
Linearizable == L!LinOk(configs)

\* auto.rs "Key invariant: HAS_WAITERS clear => slow is empty"
HwInv == "HW" \notin st => wl = <<>>

\* list and lifecycle bytes agree
ListOk ==
    /\ SeqWellFormed(wl)
    /\ \A a \in Threads : (a \in SeqMembers(wl)) <=> (lc[a] = "waiting")

Quiet == \A t \in Threads : pc[t] = "idle"

\* a stored signal next to a live registered waiter = lost wake-up
NoLostSignal == Quiet => ~("SIG" \in st /\ \E i \in DOMAIN wl : wst[wl[i].a] = "pending")

\* at quiescence the concrete state is one the judge considers possible: nothing lost, nothing duplicated, even if
\* no later operation would observe it
QuiescentRefines ==
    Quiet => \E c \in configs :
                /\ c.s.sig = ("SIG" \in st)
                /\ c.s.reg = SeqMembers(wl)
                /\ c.s.notif = { a \in Threads : lc[a] = "notified" }
                /\ \A i \in DOMAIN wl : c.s.wk[wl[i].a] \in {0, wl[i].k}
=============================================================================
