------------------------------ MODULE ResetEventAbs ------------------------------
(* JUDGE for C08: the sequential specifications of the auto-reset and the manual-reset event
   (packages/events: AutoResetEvent / ManualResetEvent and their Local* and Embedded* variants), in the form
   LinMonitor wants: Apply(p, op, s) = set of <<next state, result>>.

   Vocabulary (same in explorers, harness logs and trace specs)
     operations   [op |-> "set" | "reset" | "try" | "poll" | "drop",  w |-> wait id,  k |-> waker id]
                  "poll" = one Future::poll of wait w with waker k (k is fresh for every poll, so "the latest waker"
                  is well defined); "drop" = the wait future w is dropped (cancelled while pending, or dropped after
                  it completed); w = k = 0 where not applicable.
     results      [v |-> "ok" | "true" | "false" | "ready" | "pending"]
     wake events  "waker k of wait w was invoked" is an observation of its own (LinMonitor!LinUpdate with WakeAll),
                  logged when it happens, by whichever thread does it.

   "A waiter that must be released has its latest waker invoked" is an OBLIGATION the judge tracks in `owed`: when a
   wait is released, the latest waker it registered is owed an invocation; the debt is paid by that very waker being
   invoked (by anyone: with two concurrent set()s the one that drains is not necessarily the one that linearized
   first) or by the wait acting on its own (it polls again or is dropped: it has then observed its release without
   being woken).  All debts must be paid whenever no operation is pending (QuietOk).  Spurious wake-ups are not a
   violation of C08; a released waiter that is still asleep when everything has returned, or whose stale waker was
   invoked instead of the latest, is.

   Abstract state  [kind, sig, reg, notif, wk, owed, due]
     sig     auto: a signal is stored;  manual: the event is set
     reg     waits registered as waiters (last poll returned Pending, not released since)
     notif   waits that hold a notification: released by a set (or by a forwarding drop) but not yet observed by a poll
     wk      wait -> latest waker registered (0 = none / no wake obligation)
     owed    wait -> waker that is owed an invocation since the wait was released (0 = none); cleared by that
             invocation, or when the wait polls or is dropped
     due     (manual) wait -> the processes whose pending set() is committed to releasing this registered wait

   Auto-reset.  A signal becomes available (set; drop of a wait that still holds a notification): it releases SOME
   registered wait (no fairness or FIFO promise: the code picks head or tail by address in debug builds) whose latest
   waker must be invoked, or, if no wait is registered, it is stored (coalescing with a signal already stored).
   A poll completes on the notification its wait holds OR on a stored signal -- if it takes the stored signal the
   notification stays with the wait and is forwarded when the wait is dropped, cancelled or completed alike.  This is
   the named relaxation of DESIGN 3.2: it is what auto.rs does (re-poll's leading try_wait), and "never lost ...
   passes the signal on" still holds.  A poll is Pending exactly when there is neither.  A wait that completed on a
   stored signal while registered may stay registered until dropped (the code) or be unregistered (a legitimate
   refactoring); while it stays, a signal handed to it carries no wake obligation and is forwarded at drop.

   Manual-reset.  set makes the event set and COMMITS to releasing every wait registered at that point; the releases
   themselves are delivered one by one (silent steps, Deliver) while that set() -- or a concurrent set() committed
   to the same wait -- is still pending: the code drains the list outside any single critical section, and a
   registered wait that polls in the middle of the drain after a reset() legitimately sees Pending (its waker is
   replaced, and the latest one is invoked when its turn comes).  A set() may not return while it is the last one
   committed to a wait that has not been released (RespEffect).  A released wait completes on its next poll even
   if the event has been reset meanwhile; a poll while the event is set completes; otherwise it registers.  A wait
   never completes for another reason (no spurious completion: a wait that registered after the set() took effect
   and after a reset() must not be released by that set()).  try reports, reset clears.                          *)
EXTENDS Naturals, FiniteSets

CONSTANT Waits          \* wait ids

NoOp == [op |-> "none", w |-> 0, k |-> 0]
NoRes == [v |-> "none"]
OpSet == [op |-> "set", w |-> 0, k |-> 0]
OpReset == [op |-> "reset", w |-> 0, k |-> 0]
OpTry == [op |-> "try", w |-> 0, k |-> 0]
OpPoll(w, k) == [op |-> "poll", w |-> w, k |-> k]
OpDrop(w) == [op |-> "drop", w |-> w, k |-> 0]

Res(v) == [v |-> v]
ResMatch(fixed, observed, s) == fixed = observed

\* wakers S = {<<w, k>>, ..} were invoked
WakeAll(s, S) == [s EXCEPT !.owed = [w \in Waits |-> IF <<w, s.owed[w]>> \in S THEN 0 ELSE s.owed[w]]]

\* nothing pending: every released waiter has been woken (or has noticed by itself)
QuietOk(s) == \A w \in Waits : s.owed[w] = 0

AbsInit(kind) == [kind |-> kind, sig |-> FALSE, reg |-> {}, notif |-> {}, wk |-> [w \in Waits |-> 0],
                  owed |-> [w \in Waits |-> 0], due |-> [w \in Waits |-> {}]]

\* ------------------------------------------------------------------------------------------------ auto-reset
\* a signal becomes available in state s: set of next states
Release(s) ==
    IF s.reg # {}
    THEN { [s EXCEPT !.reg = @ \ {a}, !.notif = @ \cup {a}, !.wk[a] = 0, !.owed[a] = s.wk[a]] : a \in s.reg }
    ELSE { [s EXCEPT !.sig = TRUE] }

AutoApply(op, s) ==
    CASE op.op = "set" ->
            { << s2, Res("ok") >> : s2 \in Release(s) }
      [] op.op = "try" ->
            { << [s EXCEPT !.sig = FALSE], Res(IF s.sig THEN "true" ELSE "false") >> }
      [] op.op = "poll" ->
            LET w == op.w
                s0 == [s EXCEPT !.owed[w] = 0] IN
            (IF w \in s.notif THEN { << [s0 EXCEPT !.notif = @ \ {w}], Res("ready") >> } ELSE {})
            \cup (IF s.sig
                  THEN { << [s0 EXCEPT !.sig = FALSE, !.wk[w] = 0], Res("ready") >>,               \* stays as it was
                         << [s0 EXCEPT !.sig = FALSE, !.wk[w] = 0, !.reg = @ \ {w}], Res("ready") >> }
                  ELSE {})
            \cup (IF w \notin s.notif /\ ~s.sig
                  THEN { << [s0 EXCEPT !.reg = @ \cup {w}, !.wk[w] = op.k], Res("pending") >> }
                  ELSE {})
      [] op.op = "drop" ->
            LET w == op.w
                s0 == [s EXCEPT !.owed[w] = 0] IN
            IF w \in s.notif
            THEN { << s2, Res("ok") >> : s2 \in Release([s0 EXCEPT !.notif = @ \ {w}, !.wk[w] = 0]) }
            ELSE { << [s0 EXCEPT !.reg = @ \ {w}, !.wk[w] = 0], Res("ok") >> }
      [] OTHER -> {}                       \* "reset" does not exist on an auto-reset event

\* ---------------------------------------------------------------------------------------------- manual-reset
\* the release of registered wait w, committed to by a set() that is still pending, is delivered
Deliver(s, w) == [s EXCEPT !.reg = @ \ {w}, !.notif = @ \cup {w}, !.owed[w] = s.wk[w], !.wk[w] = 0, !.due[w] = {}]
ManualInternal(s) == { Deliver(s, w) : w \in { x \in s.reg : s.due[x] # {} } }

ManualApply(p, op, s) ==
    CASE op.op = "set" ->
            { << [s EXCEPT !.sig = TRUE, !.due = [w \in Waits |-> IF w \in s.reg THEN s.due[w] \cup {p} ELSE s.due[w]]],
                 Res("ok") >> }
      [] op.op = "reset" ->
            { << [s EXCEPT !.sig = FALSE], Res("ok") >> }
      [] op.op = "try" ->
            { << s, Res(IF s.sig THEN "true" ELSE "false") >> }
      [] op.op = "poll" ->
            LET w == op.w
                s0 == [s EXCEPT !.owed[w] = 0] IN
            (IF w \in s.notif THEN { << [s0 EXCEPT !.notif = @ \ {w}], Res("ready") >> } ELSE {})
            \cup (IF s.sig
                  THEN { << [s0 EXCEPT !.wk[w] = 0], Res("ready") >>,
                         << [s0 EXCEPT !.wk[w] = 0, !.reg = @ \ {w}, !.due[w] = {}], Res("ready") >> }
                  ELSE {})
            \cup (IF w \notin s.notif /\ ~s.sig
                  THEN { << [s0 EXCEPT !.reg = @ \cup {w}, !.wk[w] = op.k], Res("pending") >> }
                  ELSE {})
      [] op.op = "drop" ->
            LET w == op.w IN
            { << [s EXCEPT !.reg = @ \ {w}, !.notif = @ \ {w}, !.wk[w] = 0, !.owed[w] = 0, !.due[w] = {}], Res("ok") >> }
      [] OTHER -> {}

\* the sequential specification handed to LinMonitor (the kind travels in the abstract state)
Apply(p, op, s) == IF s.kind = "auto" THEN AutoApply(op, s) ELSE ManualApply(p, op, s)
SeqInternal(s) == IF s.kind = "auto" THEN {} ELSE ManualInternal(s)

\* process p returns: it is no longer committed to anything; it must not leave a wait it was the last one committed
\* to unreleased
RespEffect(p, s) ==
    LET s2 == [s EXCEPT !.due = [w \in Waits |-> s.due[w] \ {p}]] IN
    IF \E w \in s.reg : s.due[w] # {} /\ s2.due[w] = {} THEN {} ELSE { s2 }

AbsTypeOK(s) ==
    /\ s.kind \in {"auto", "manual"}
    /\ s.sig \in BOOLEAN
    /\ s.reg \subseteq Waits /\ s.notif \subseteq Waits
    /\ s.reg \cap s.notif = {}
    /\ \A w \in Waits : s.wk[w] \in Nat /\ (s.wk[w] # 0 => w \in s.reg)
    /\ \A w \in Waits : s.owed[w] \in Nat /\ (s.owed[w] # 0 => w \in s.notif)
    /\ \A w \in Waits : s.due[w] # {} => w \in s.reg /\ s.kind = "manual"
    /\ (s.kind = "auto" => ~(s.sig /\ \E w \in s.reg : s.wk[w] # 0))   \* a stored signal and a live waiter never coexist
=============================================================================
