---- MODULE MC_AwaiterSet ----
(* Generator for AwaiterSet: history variable hidden from the fingerprint (VIEW), one witness per transition
   (ACTION_CONSTRAINT prints the history leading to every edge TLC explores). *)
EXTENDS AwaiterSet, Json
VARIABLE hist
GInit == Init /\ hist = <<>>
GNext == Next /\ hist' = Append(hist, last')
GView == <<head, tail, nxt, prv, life, wkr, ngen, gen, nops>>
\* edge cover: every explored transition prints its witness; only complete histories (depth MaxOpsS) are kept by the
\* driver when it wants fewer, longer stimuli
EdgeWitness == PrintT(<<"AWS", ToJson(hist')>>)
LeafWitness == (nops' = MaxOpsS) => PrintT(<<"AWS", ToJson(hist')>>)
====
