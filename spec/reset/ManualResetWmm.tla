------------------------------ MODULE ManualResetWmm ------------------------------
(* WEAK-MEMORY EXPLORER for C08, manual-reset event: the steps of ManualResetImpl.tla (manual.rs over awaiter_set) over
   the RC11 memory of spec/lib/RC11.tla.  Same conventions as AutoResetWmm.tla: atomic locations <<"state", None>>,
   <<"mutex", None>>, <<"lc", w>>; non-atomic cells <<"list", None>>, <<"inner", w>>, <<"blk", w>> and <<"pay", t, k>>
   (what the k-th set() of thread t publishes; read by every wait / try_wait that observes the event set by it, or
   that is released by it).  The state byte is <<bits, P>> with P the payloads published by the set() calls of the
   current "set epoch" (reset() starts a new one); a NOTIFIED lifecycle byte carries the payload of the set() that
   drained the waiter.  Orderings are Ord[site], measured from the code.  Loads and failed compare-exchanges may read
   stale messages.  Checked for every RC11 outcome: NoRace, ListOk, HwInv, NoLostSignal.                        *)
EXTENDS Naturals, Sequences, FiniteSets, TLC, AwaiterSeq

CONSTANTS Threads, Menu, MaxOps, None, SC, Ord

Sites == { "m_ld", "m_cas_ok", "m_cas_fail", "m_pub", "m_notify", "m_clr", "m_clrend", "r_fa", "y_ld",
           "q_ld1", "q_tn1_ok", "q_tn1_fail", "q_tn2_ok", "q_tn2_fail", "q_ld2", "q_or", "q_ld3", "q_reg", "q_clr",
           "e_isreg", "e_unreg", "e_clr" }

State == <<"state", None>>
Mutex == <<"mutex", None>>
Lc(w) == <<"lc", w>>
List == <<"list", None>>
Inner(w) == <<"inner", w>>
Blk(w) == <<"blk", w>>
Pay(t, k) == <<"pay", t, k>>

ALoc == { State, Mutex } \cup { Lc(w) : w \in Threads }
NLoc == { List } \cup { Inner(w) : w \in Threads } \cup { Blk(w) : w \in Threads }
        \cup { Pay(t, k) : t \in Threads, k \in 1..MaxOps }

M == INSTANCE RC11 WITH Thread <- Threads, ALoc <- ALoc, NLoc <- NLoc

HasSig(v) == v[1] = 1 \/ v[1] = 3
HasHw(v) == v[1] = 2 \/ v[1] = 3
SetSig(v, p) == << IF HasSig(v) THEN v[1] ELSE v[1] + 1, v[2] \cup {p} >>
ClrSig(v) == << IF HasSig(v) THEN v[1] - 1 ELSE v[1], {} >>
ClrHw(v) == << IF HasHw(v) THEN v[1] - 2 ELSE v[1], v[2] >>
SetHw(v) == << IF HasHw(v) THEN v[1] ELSE v[1] + 2, v[2] >>
LcV(ph, P) == << ph, P >>

VARIABLES mem, wl, gen, pc, wst, nops, npoll,
          seen,     \* bits of the state byte set() last observed (compare-exchange loop)
          held      \* payload of the set() in progress

vars == <<mem, wl, gen, pc, wst, nops, npoll, seen, held>>

Creator == CHOOSE t \in Threads : TRUE

Init ==
    /\ mem = M!InitMem([l \in ALoc |-> IF l = Mutex THEN 0 ELSE <<0, {}>>], Creator)
    /\ wl = <<>> /\ gen = 1
    /\ pc = [t \in Threads |-> "idle"]
    /\ wst = [t \in Threads |-> "none"]
    /\ nops = [t \in Threads |-> 0]
    /\ npoll = [t \in Threads |-> 0]
    /\ seen = [t \in Threads |-> 0]
    /\ held = [t \in Threads |-> {}]

Goto(t, l) == pc' = [pc EXCEPT ![t] = l]
Idle(t) == pc' = [pc EXCEPT ![t] = "idle"]
CanCall(t, what) == pc[t] = "idle" /\ what \in Menu[t] /\ nops[t] < MaxOps
Count(t) == nops' = [nops EXCEPT ![t] = @ + 1]

Elig(t, l) == IF SC THEN M!EligibleSC(mem, t, l) ELSE M!Eligible(mem, t, l)
Val(l, i) == mem.mo[l][i].val
Latest(l) == M!LastVal(mem, l)
HeldPcs == { "m_pub", "m_notify", "m_clr", "m_clrend", "q_tn2", "q_ld2", "q_or", "q_ld3", "q_reg", "q_clr", "e_unreg", "e_clr" }

Touch(m, t, w) == M!NARead(m, t, Blk(w))
RECURSIVE Consume(_, _, _)
Consume(m, t, P) == IF P = {} THEN m ELSE LET x == CHOOSE x \in P : TRUE IN Consume(M!NARead(m, t, x), t, P \ {x})
MyPay(t) == Pay(t, nops[t] + 1)
Lock(m, t) == M!Rmw(m, t, Mutex, 1, "acq")
Unlock(m, t) == M!Store(m, t, Mutex, 0, "rel")
Free == Latest(Mutex) = 0
ReadList(m, t) == M!NARead(m, t, List)
Neighbours(a) == LET i == CHOOSE i \in DOMAIN wl : wl[i].a = a IN
                 { wl[j].a : j \in { i - 1, i + 1 } \cap DOMAIN wl }
RECURSIVE WriteInners(_, _, _)
WriteInners(m, t, S) == IF S = {} THEN m
                        ELSE LET x == CHOOSE x \in S : TRUE IN
                             WriteInners(M!NAWrite(Touch(m, t, x), t, Inner(x)), t, S \ {x})
UnlinkMem(m, t, a) == WriteInners(M!NAWrite(m, t, List), t, {a} \cup Neighbours(a))
LinkMem(m, t, a) == WriteInners(M!NAWrite(m, t, List), t, {a} \cup (IF wl = <<>> THEN {} ELSE { wl[Len(wl)].a }))

\* ----------------------------------------------------------------------------------------------------- set()
m_ld(t) ==
    /\ CanCall(t, "set") /\ Count(t)
    /\ held' = [held EXCEPT ![t] = {MyPay(t)}]
    /\ \E i \in Elig(t, State) :
          /\ mem' = M!Load(M!NAWrite(mem, t, MyPay(t)), t, State, i, Ord["m_ld"])       \* publish, then set()
          /\ seen' = [seen EXCEPT ![t] = Val(State, i)[1]]
          /\ Goto(t, IF HasHw(Val(State, i)) THEN "m_lock0" ELSE "m_cas")
    /\ UNCHANGED <<wl, gen, wst, npoll>>

\* compare_exchange(seen, seen | IS_SET, Release, Relaxed)
m_cas(t) ==
    /\ pc[t] = "m_cas"
    /\ \/ /\ Latest(State)[1] = seen[t]
          /\ mem' = M!Rmw(mem, t, State, SetSig(Latest(State), CHOOSE p \in held[t] : TRUE), Ord["m_cas_ok"])
          /\ Idle(t) /\ UNCHANGED seen
       \/ \E i \in Elig(t, State) :
             /\ Val(State, i)[1] # seen[t]
             /\ mem' = M!Load(mem, t, State, i, Ord["m_cas_fail"])
             /\ seen' = [seen EXCEPT ![t] = Val(State, i)[1]]
             /\ Goto(t, IF HasHw(Val(State, i)) THEN "m_lock0" ELSE "m_cas")
    /\ UNCHANGED <<wl, gen, wst, nops, npoll, held>>

m_lock0(t) ==
    /\ pc[t] = "m_lock0" /\ Free
    /\ mem' = Lock(mem, t) /\ Goto(t, "m_pub")
    /\ UNCHANGED <<wl, gen, wst, nops, npoll, seen, held>>

\* fetch_or(IS_SET, Release); advance_generation(); unlock
m_pub(t) ==
    /\ pc[t] = "m_pub"
    /\ mem' = Unlock(M!NAWrite(M!Rmw(mem, t, State, SetSig(Latest(State), CHOOSE p \in held[t] : TRUE), Ord["m_pub"]), t, List), t)
    /\ gen' = gen + 1 /\ Goto(t, "m_lock")
    /\ UNCHANGED <<wl, wst, nops, npoll, seen, held>>

\* loop head: lock; notify_one_prior_generation() reads head and the head awaiter's generation
m_lock(t) ==
    /\ pc[t] = "m_lock" /\ Free
    /\ LET m1 == ReadList(Lock(mem, t), t)
           m2 == IF wl = <<>> THEN m1 ELSE M!NARead(Touch(m1, t, wl[1].a), t, Inner(wl[1].a)) IN
       IF SeqPriorHead(wl, gen) # {} THEN mem' = m2 /\ Goto(t, "m_notify")
       ELSE IF wl = <<>> THEN mem' = m2 /\ Goto(t, "m_clrend")
       ELSE mem' = Unlock(m2, t) /\ Idle(t)
    /\ UNCHANGED <<wl, gen, wst, nops, npoll, seen, held>>

m_notify(t) ==
    /\ pc[t] = "m_notify"
    /\ LET n == wl[1]
           m1 == UnlinkMem(mem, t, n.a)
           m2 == M!Store(Touch(m1, t, n.a), t, Lc(n.a), LcV(2, held[t]), Ord["m_notify"])
           m3 == ReadList(m2, t) IN
       /\ wl' = Tail(wl)
       /\ IF Tail(wl) = <<>> THEN mem' = m3 /\ Goto(t, "m_clr")
          ELSE mem' = Unlock(m3, t) /\ Goto(t, "m_lock")
    /\ UNCHANGED <<gen, wst, nops, npoll, seen, held>>

m_clr(t) ==
    /\ pc[t] = "m_clr"
    /\ mem' = Unlock(M!Rmw(mem, t, State, ClrHw(Latest(State)), Ord["m_clr"]), t)
    /\ Goto(t, "m_lock")
    /\ UNCHANGED <<wl, gen, wst, nops, npoll, seen, held>>

m_clrend(t) ==
    /\ pc[t] = "m_clrend"
    /\ mem' = Unlock(M!Rmw(mem, t, State, ClrHw(Latest(State)), Ord["m_clrend"]), t)
    /\ Idle(t)
    /\ UNCHANGED <<wl, gen, wst, nops, npoll, seen, held>>

\* --------------------------------------------------------------------------------------- reset(), try_wait()
r_fa(t) ==
    /\ CanCall(t, "reset") /\ Count(t)
    /\ mem' = M!Rmw(mem, t, State, ClrSig(Latest(State)), Ord["r_fa"])
    /\ UNCHANGED <<wl, gen, pc, wst, npoll, seen, held>>

y_ld(t) ==
    /\ CanCall(t, "try") /\ Count(t)
    /\ \E i \in Elig(t, State) :
          mem' = Consume(M!Load(mem, t, State, i, Ord["y_ld"]), t, IF HasSig(Val(State, i)) THEN Val(State, i)[2] ELSE {})
    /\ UNCHANGED <<wl, gen, pc, wst, npoll, seen, held>>

\* ----------------------------------------------------------------------------------------------- poll_wait()
Ready(t) == Idle(t) /\ wst' = [wst EXCEPT ![t] = "ready"]
Pending(t) == Idle(t) /\ wst' = [wst EXCEPT ![t] = "pending"]
Create(m, t) ==
    IF wst[t] = "none"
    THEN M!Store(M!NAWrite(M!NAWrite(m, t, Blk(t)), t, Inner(t)), t, Lc(t), LcV(0, {}), "rlx")
    ELSE m

\* load(Acquire) of the state byte at `site`: set -> Ready (after `fin`), else go on at `next`
LoadState(t, m0, site, fin(_), next) ==
    \E i \in Elig(t, State) :
       LET v == Val(State, i)
           m1 == M!Load(m0, t, State, i, Ord[site]) IN
       IF HasSig(v) THEN mem' = fin(Consume(m1, t, v[2])) /\ Ready(t)
       ELSE mem' = m1 /\ Goto(t, next) /\ wst' = [wst EXCEPT ![t] = "pending"]

q_ld1(t) ==
    /\ CanCall(t, "poll") /\ wst[t] \in {"none", "pending"} /\ Count(t)
    /\ npoll' = [npoll EXCEPT ![t] = @ + 1]
    /\ LoadState(t, Create(mem, t), "q_ld1", LAMBDA m : m, "q_tn1")
    /\ UNCHANGED <<wl, gen, seen, held>>

TakeNotif(t, okSite, failSite, onOk(_), onFail) ==
    \/ /\ Latest(Lc(t))[1] = 2
       /\ mem' = onOk(Consume(M!Rmw(Touch(mem, t, t), t, Lc(t), LcV(0, {}), Ord[okSite]), t, Latest(Lc(t))[2]))
       /\ Ready(t)
    \/ \E i \in Elig(t, Lc(t)) :
          /\ Val(Lc(t), i)[1] # 2
          /\ mem' = M!Load(Touch(mem, t, t), t, Lc(t), i, Ord[failSite])
          /\ Goto(t, onFail) /\ UNCHANGED wst

q_tn1(t) ==
    /\ pc[t] = "q_tn1"
    /\ TakeNotif(t, "q_tn1_ok", "q_tn1_fail", LAMBDA m : m, "q_lock")
    /\ UNCHANGED <<wl, gen, nops, npoll, seen, held>>

q_lock(t) ==
    /\ pc[t] = "q_lock" /\ Free
    /\ mem' = Lock(mem, t) /\ Goto(t, "q_tn2")
    /\ UNCHANGED <<wl, gen, wst, nops, npoll, seen, held>>

q_tn2(t) ==
    /\ pc[t] = "q_tn2"
    /\ TakeNotif(t, "q_tn2_ok", "q_tn2_fail", LAMBDA m : Unlock(m, t), "q_ld2")
    /\ UNCHANGED <<wl, gen, nops, npoll, seen, held>>

q_ld2(t) ==
    /\ pc[t] = "q_ld2"
    /\ LoadState(t, mem, "q_ld2", LAMBDA m : Unlock(m, t), "q_or")
    /\ UNCHANGED <<wl, gen, nops, npoll, seen, held>>

q_or(t) ==
    /\ pc[t] = "q_or"
    /\ mem' = M!Rmw(mem, t, State, SetHw(Latest(State)), Ord["q_or"])
    /\ Goto(t, "q_ld3")
    /\ UNCHANGED <<wl, gen, wst, nops, npoll, seen, held>>

\* load(Acquire) #3; set -> q_clr; else register (lifecycle_phase(): owner's own byte under the mutex = latest)
q_ld3(t) ==
    /\ pc[t] = "q_ld3"
    /\ \E i \in Elig(t, State) :
          LET v == Val(State, i)
              m1 == M!Load(mem, t, State, i, Ord["q_ld3"]) IN
          IF HasSig(v) THEN mem' = Consume(m1, t, v[2]) /\ Goto(t, "q_clr") /\ UNCHANGED <<wl, wst>>
          ELSE IF Latest(Lc(t))[1] = 1
               THEN /\ mem' = Unlock(M!NAWrite(Touch(m1, t, t), t, Inner(t)), t)
                    /\ wl' = SeqSetWaker(wl, t, npoll[t]) /\ Pending(t)
               ELSE mem' = m1 /\ Goto(t, "q_reg") /\ UNCHANGED <<wl, wst>>
    /\ UNCHANGED <<gen, nops, npoll, seen, held>>

q_reg(t) ==
    /\ pc[t] = "q_reg"
    /\ mem' = Unlock(M!Store(LinkMem(mem, t, t), t, Lc(t), LcV(1, {}), Ord["q_reg"]), t)
    /\ wl' = SeqAppend(wl, t, npoll[t], gen)
    /\ Pending(t)
    /\ UNCHANGED <<gen, nops, npoll, seen, held>>

q_clr(t) ==
    /\ pc[t] = "q_clr"
    /\ mem' = Unlock(M!Rmw(mem, t, State, ClrHw(Latest(State)), Ord["q_clr"]), t)
    /\ Ready(t)
    /\ UNCHANGED <<wl, gen, nops, npoll, seen, held>>

\* ----------------------------------------------------------------------------------------------- drop_wait()
Destroy(m, t) == M!NAWrite(M!NAWrite(m, t, Inner(t)), t, Blk(t))
Dropped(t) == Idle(t) /\ wst' = [wst EXCEPT ![t] = "none"]

e_isreg(t) ==
    /\ pc[t] = "idle"
    /\ \/ wst[t] = "pending" /\ "drop" \in Menu[t] /\ nops[t] < MaxOps /\ Count(t)
       \/ wst[t] = "ready" /\ UNCHANGED nops
    /\ \E i \in Elig(t, Lc(t)) :
          LET m1 == M!Load(Touch(mem, t, t), t, Lc(t), i, Ord["e_isreg"]) IN
          IF Val(Lc(t), i)[1] = 0 THEN mem' = Destroy(m1, t) /\ Dropped(t)
          ELSE mem' = m1 /\ Goto(t, "e_lock") /\ UNCHANGED wst
    /\ UNCHANGED <<wl, gen, npoll, seen, held>>

\* lock; unregister(): lifecycle_phase() under the mutex (latest); a notified awaiter is already unlinked
e_lock(t) ==
    /\ pc[t] = "e_lock" /\ Free
    /\ LET m1 == Lock(mem, t) IN
       IF Latest(Lc(t))[1] = 1 THEN mem' = m1 /\ Goto(t, "e_unreg") /\ UNCHANGED wst
       ELSE IF wl = <<>> THEN mem' = ReadList(m1, t) /\ Goto(t, "e_clr") /\ UNCHANGED wst
       ELSE mem' = Destroy(Unlock(ReadList(m1, t), t), t) /\ Dropped(t)
    /\ UNCHANGED <<wl, gen, nops, npoll, seen, held>>

e_unreg(t) ==
    /\ pc[t] = "e_unreg"
    /\ LET m1 == M!Store(UnlinkMem(mem, t, t), t, Lc(t), LcV(0, {}), Ord["e_unreg"])
           m2 == ReadList(m1, t) IN
       /\ wl' = SeqRemove(wl, t)
       /\ IF SeqRemove(wl, t) = <<>> THEN mem' = m2 /\ Goto(t, "e_clr") /\ UNCHANGED wst
          ELSE mem' = Destroy(Unlock(m2, t), t) /\ Dropped(t)
    /\ UNCHANGED <<gen, nops, npoll, seen, held>>

e_clr(t) ==
    /\ pc[t] = "e_clr"
    /\ mem' = Destroy(Unlock(M!Rmw(mem, t, State, ClrHw(Latest(State)), Ord["e_clr"]), t), t)
    /\ Dropped(t)
    /\ UNCHANGED <<wl, gen, nops, npoll, seen, held>>

Next ==
    \E t \in Threads :
        \/ m_ld(t) \/ m_cas(t) \/ m_lock0(t) \/ m_pub(t) \/ m_lock(t) \/ m_notify(t) \/ m_clr(t) \/ m_clrend(t)
        \/ r_fa(t) \/ y_ld(t)
        \/ q_ld1(t) \/ q_tn1(t) \/ q_lock(t) \/ q_tn2(t) \/ q_ld2(t) \/ q_or(t) \/ q_ld3(t) \/ q_reg(t) \/ q_clr(t)
        \/ e_isreg(t) \/ e_lock(t) \/ e_unreg(t) \/ e_clr(t)

Spec == Init /\ [][Next]_vars

\* ------------------------------------------------------------------------------------------------ properties
NoRace == M!NoRace(mem)

ListOk ==
    /\ SeqWellFormed(wl)
    /\ \A i \in DOMAIN wl : wl[i].g <= gen
    /\ (\A t \in Threads : pc[t] \notin HeldPcs) =>
          \A a \in Threads : (a \in SeqMembers(wl)) <=> (Latest(Lc(a))[1] = 1)

HwInv == ~HasHw(Latest(State)) => wl = <<>>

Quiet == \A t \in Threads : pc[t] = "idle"
NoLostSignal == Quiet => ~(HasSig(Latest(State)) /\ \E i \in DOMAIN wl : wst[wl[i].a] = "pending")
=============================================================================
