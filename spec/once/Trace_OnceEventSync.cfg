CONSTANTS MaxPolls = 20  MaxChecks = 20  SC = TRUE  Ord <- OrdAsCode
SPECIFICATION TraceSpec
CONSTRAINT Seen
INVARIANT EmitTable FollowedOk
POSTCONDITION AcceptedCursor
CHECK_DEADLOCK FALSE
