CONSTANTS MaxPolls = 2  MaxChecks = 1  SC = FALSE  Ord <- OrdAsCode
SPECIFICATION Spec
INVARIANT TypeOK NoRace NoUnreachable JudgeOk NoUB
CHECK_DEADLOCK FALSE
