------------------------------ MODULE Trace_OnceEventSync ------------------------------
(* Conformance of the real thread-safe event with the explorer OnceEventSync, step by step, and extraction of the
   memory-ordering table.

   Input: the step-level log of harness h_once (one record per shim atomic operation / fence with the Ordering the call
   site passed, per cell access, per release, per API invocation), many runs separated by {"ev":"reset"}.
   Each record must be explained by the explorer action enabled at the logging thread's program counter, with the same
   operation kind and the same observed / written value.  Explorer actions that have no log record (API bookkeeping,
   and fences the code does not have) are silent steps.

   Output: variable `tab` binds every atomic site of the explorer to the ordering the code used there ("none" for a
   fence site the code passed without a fence).  It is printed when the whole log has been consumed; the check feeds it
   to the RC11 exploration (MC run with Ord <- measured table).  A site seen with two different orderings, or a log the
   explorer cannot follow, rejects the trace: that is DRIFT between model and code (exhaustive claims are withdrawn),
   not a property violation.                                                                                       *)
EXTENDS MC_OnceEventSync, TraceLib

VARIABLES l, tab

tvars == <<vars, l, tab>>

R0 == Rec[l]
Ev(k) == l <= NRec /\ Rec[l].ev = k
Consume == l' = l + 1
Silent == UNCHANGED <<l, tab>>

Bind1(s, o) == tab[s] \in {"?", o} /\ tab' = [tab EXCEPT ![s] = o]
Bind2(s1, o1, s2, o2) ==
    /\ tab[s1] \in {"?", o1} /\ tab[s2] \in {"?", o2}
    /\ tab' = [tab EXCEPT ![s1] = o1, ![s2] = o2]

IsT(t) == R0.task = (IF t = "S" THEN 0 ELSE 1)
Atomic(t, op) == Ev("atomic") /\ IsT(t) /\ R0.op = op
Cas(t) == Ev("atomic") /\ IsT(t) /\ R0.op \in {"cas_ok", "cas_fail"}
Cell(t, part, acc) == Ev("cell") /\ IsT(t) /\ R0.part = part /\ R0.acc = acc

TraceInit ==
    /\ Init
    /\ CursorInit
    /\ l = 1
    /\ tab = [s \in Sites |-> "?"]

Reset ==
    /\ Ev("reset") /\ Consume /\ UNCHANGED tab
    /\ mem' = M!InitMem([a \in ALoc |-> BOUND], "S")
    /\ pc' = [t \in Thread |-> "idle"]
    /\ reg' = [w |-> 0, st |-> 0, taken |-> 0]
    /\ cells' = [aw |-> 0, val |-> FALSE]
    /\ ub' = FALSE
    /\ ctx' = "none" /\ res' = "none" /\ polls' = 0 /\ checks' = 0
    /\ j' = J!JInit(TRUE)

End ==
    /\ Ev("end") /\ Consume /\ UNCHANGED tab
    /\ pc["S"] = "done" /\ pc["R"] = "done"
    /\ UNCHANGED vars

\* API invocations select the program
InvS == Ev("inv") /\ R0.side = "S" /\ SStart /\ j'.snd = (IF R0.op = "send" THEN "send_inv" ELSE "drop_inv") /\ Consume /\ UNCHANGED tab
InvR == Ev("inv") /\ R0.side = "R" /\ RChoose /\ ctx' = R0.op /\ Consume /\ UNCHANGED tab

\* sender
TSetWrite == Cell("S", "value", "w") /\ SetWrite /\ Consume /\ UNCHANGED tab
TSetFetchAdd == Atomic("S", "fetch_add") /\ R0.obs = LastState /\ SetFetchAdd /\ Consume /\ Bind1("set_fetch_add", R0.ord)
TSetTakeWaker == Cell("S", "awaiter", "r") /\ SetTakeWaker /\ Consume /\ UNCHANGED tab
TSetStore == Atomic("S", "store") /\ R0.wr = SET /\ SetStore /\ Consume /\ Bind1("set_store", R0.ord)
TSetDestroyValue == Cell("S", "value", "w") /\ SetDestroyValue /\ Consume /\ UNCHANGED tab
TSRelease == Ev("release") /\ IsT("S") /\ SRelease /\ Consume /\ UNCHANGED tab
TDropSwap == Atomic("S", "swap") /\ R0.obs = LastState /\ R0.wr = SIGNALING /\ DropSwap /\ Consume /\ Bind1("drop_swap", R0.ord)
TDropStoreBound == Atomic("S", "store") /\ R0.wr = DISC /\ DropStoreBound /\ Consume /\ Bind1("drop_store_bound", R0.ord)
TDropTakeWaker == Cell("S", "awaiter", "r") /\ DropTakeWaker /\ Consume /\ UNCHANGED tab
TDropStoreAw == Atomic("S", "store") /\ R0.wr = DISC /\ DropStoreAw /\ Consume /\ Bind1("drop_store_aw", R0.ord)

\* fences: logged (bind the ordering) or absent in the code (silent, bind "none")
FenceAt(t, site, Act) ==
    /\ pc[t] = site
    /\ Act
    /\ \/ Atomic(t, "fence") /\ Consume /\ Bind1(site, R0.ord)
       \/ UNCHANGED l /\ Bind1(site, "none")

TFences ==
    \/ FenceAt("S", "set_aw_fence", SetAwFence)
    \/ FenceAt("S", "set_disc_fence", SetDiscFence)
    \/ FenceAt("S", "drop_aw_fence", DropAwFence)
    \/ FenceAt("S", "drop_disc_fence", DropDiscFence)
    \/ FenceAt("R", "pa_ok_fence", PaOkFence)
    \/ FenceAt("R", "pa_set_fence", PaSetFence)
    \/ FenceAt("R", "pa_disc_fence", PaDiscFence)
    \/ FenceAt("R", "pg_fence", PgFence)
    \/ FenceAt("R", "fp_set_fence", FpSetFence)
    \/ FenceAt("R", "fp_disc_fence", FpDiscFence)

\* receiver
TPollLoad == Atomic("R", "load") /\ R0.obs = LastState /\ PollLoad /\ Consume /\ Bind1("poll_load", R0.ord)
TPbWrite == Cell("R", "awaiter", "w") /\ PbWrite /\ Consume /\ UNCHANGED tab
TPbCas == Cas("R") /\ R0.obs = LastState /\ (R0.op = "cas_ok") = (LastState = BOUND) /\ PbCas /\ Consume
          /\ Bind2("pb_cas_ok", R0.ord, "pb_cas_fail", R0.ordf)
TPbDestroy == Cell("R", "awaiter", "w") /\ PbDestroy /\ Consume /\ UNCHANGED tab
TPollSet == Cell("R", "value", "r") /\ PollSet /\ Consume /\ UNCHANGED tab
TPaCas == Cas("R") /\ R0.obs = LastState /\ (R0.op = "cas_ok") = (LastState = AWAITING) /\ PaCas /\ Consume
          /\ Bind2("pa_cas_ok", R0.ord, "pa_cas_fail", R0.ordf)
TPaDestroy == Cell("R", "awaiter", "w") /\ PaDestroy /\ Consume /\ UNCHANGED tab
TPgLoad == Atomic("R", "load") /\ R0.obs = LastState /\ PgLoad /\ Consume /\ Bind1("pg_load", R0.ord)
TRRelease == Ev("release") /\ IsT("R") /\ RRelease /\ Consume /\ UNCHANGED tab
TIsLoad == Atomic("R", "load") /\ R0.obs = LastState /\ IsLoad /\ Consume /\ Bind1("is_load", R0.ord)
TIvLoad == Atomic("R", "load") /\ R0.obs = LastState /\ IvLoad /\ Consume /\ Bind1("iv_load", R0.ord)
TFpCas1 == Cas("R") /\ R0.obs = LastState /\ (R0.op = "cas_ok") = (LastState = AWAITING) /\ FpCas1 /\ Consume
           /\ Bind2("fp_cas1_ok", R0.ord, "fp_cas1_fail", R0.ordf)
TFpDestroy == Cell("R", "awaiter", "w") /\ FpDestroy /\ Consume /\ UNCHANGED tab
TFpLoad == Atomic("R", "load") /\ R0.obs = LastState /\ FpLoad /\ Consume /\ Bind1("fp_load", R0.ord)
TFpCas2 == Cas("R") /\ R0.obs = LastState /\ (R0.op = "cas_ok") = (LastState = reg.st) /\ FpCas2 /\ Consume
           /\ Bind2("fp_cas2_ok", R0.ord, "fp_cas2_fail", R0.ordf)

\* explorer actions without a log record
TSilent ==
    /\ (Wake \/ SendRet \/ SDropRet \/ RetPending \/ RetDisc \/ FpRetNone \/ FpDropValue)
    /\ Silent

TraceNext ==
    \/ Reset \/ End \/ InvS \/ InvR
    \/ TSetWrite \/ TSetFetchAdd \/ TSetTakeWaker \/ TSetStore \/ TSetDestroyValue \/ TSRelease
    \/ TDropSwap \/ TDropStoreBound \/ TDropTakeWaker \/ TDropStoreAw
    \/ TFences
    \/ TPollLoad \/ TPbWrite \/ TPbCas \/ TPbDestroy \/ TPollSet \/ TPaCas \/ TPaDestroy \/ TPgLoad \/ TRRelease
    \/ TIsLoad \/ TIvLoad \/ TFpCas1 \/ TFpDestroy \/ TFpLoad \/ TFpCas2
    \/ TSilent

TraceSpec == TraceInit /\ [][TraceNext]_tvars

Seen == CursorSeen(l)

\* printed once the whole log is consumed
EmitTable == l = NRec + 1 => PrintT(<<"TABLE", ToJson(tab)>>)
\* while following the real code the explorer must never reach states its own invariants forbid
FollowedOk == NoUnreachable /\ NoUB
=============================================================================
