------------------------------ MODULE OnceEventLocal ------------------------------
(* Explorer for the single-threaded one-shot event under re-entrant waker callbacks (C07):
   packages/events_once/src/core/local.rs, local_sender.rs, local_receiver.rs.

   There is one thread, so the interesting executions are NESTINGS: the waker's clone / wake / drop callbacks are user
   code that may operate on the other endpoint of the very event that invoked them.  The state is a call stack of
   frames (endpoint operation, program counter, locals).  Whenever the code invokes a waker callback the top frame
   parks in pc = "cb"; there the specification may, nondeterministically, push any legal operation of the OTHER endpoint
   (legal = that endpoint exists and is not already on the stack: what safe Rust allows), up to MaxCbOps operations per
   callback invocation, or return.  With an empty stack the driver pushes top-level operations.

   One action per access to the event (state get / set / replace, cell reads and writes, release).  After the storage
   has been released every further access sets `uar` (use after release).  The API judge OnceEventAbs runs as a monitor.  *)
EXTENDS Naturals, Sequences, FiniteSets, TLC

CONSTANTS MaxPolls, MaxChecks, MaxCbOps

J == INSTANCE OnceEventAbs

BOUND == 0  SET == 1  AWAITING == 2  DISC == 4

VARIABLES st,        \* the state byte (Cell<u8>)
          cells,     \* [aw: registered waker id or 0, val: BOOLEAN]
          released,  \* release_event has run
          uar, ub,   \* access after release / uninitialised read, double init
          stack,     \* call stack, top = last
          sEnd, rEnd,\* "idle" | "busy" | "gone"
          polls, checks,
          j

vars == <<st, cells, released, uar, ub, stack, sEnd, rEnd, polls, checks, j>>

Frame(who, op, pc, w) ==
    [who |-> who, op |-> op, pc |-> pc, w |-> w, nw |-> 0, tmp |-> 0, res |-> "none",
     cbk |-> "none", cbw |-> 0, cbn |-> 0, ret |-> "none"]

Init ==
    /\ st = BOUND
    /\ cells = [aw |-> 0, val |-> FALSE]
    /\ released = FALSE /\ uar = FALSE /\ ub = FALSE
    /\ stack = <<>>
    /\ sEnd = "idle" /\ rEnd = "idle"
    /\ polls = 0 /\ checks = 0
    /\ j = J!JInit(TRUE)

Top == stack[Len(stack)]
Depth == Len(stack)
SetTop(f) == stack' = [stack EXCEPT ![Len(stack)] = f]
Goto(l) == SetTop([Top EXCEPT !.pc = l])
Pop == stack' = SubSeq(stack, 1, Len(stack) - 1)
At(who, l) == Depth > 0 /\ Top.who = who /\ Top.pc = l

\* every touch of the event object
Acc == uar' = (uar \/ released)
NoAcc == UNCHANGED uar

\* enter a waker callback of kind k on waker w; continue at `ret` afterwards
Callback(f, k, w, ret) == [f EXCEPT !.pc = "cb", !.cbk = k, !.cbw = w, !.cbn = 0, !.ret = ret]
JCb(k, w) == CASE k = "clone" -> J!WClone(j, w) [] k = "wake" -> J!WWake(j, w) [] OTHER -> J!WDrop(j, w)

-----------------------------------------------------------------------------
(* operation entry: from the driver (empty stack) or from inside a callback                                      *)

ROps == {"poll", "is_ready", "into_value", "drop"}

PushOp(who, op) ==
    IF who = "S"
    THEN /\ sEnd = "idle"
         /\ sEnd' = "busy" /\ UNCHANGED <<rEnd, polls, checks>>
         /\ j' = IF op = "send" THEN J!SendInv(j) ELSE J!SDropInv(j)
         /\ stack' = Append(IF Depth > 0 THEN [stack EXCEPT ![Len(stack)].cbn = @ + 1] ELSE stack,
                            Frame("S", op, IF op = "send" THEN "s_write" ELSE "d_get", 0))
    ELSE /\ rEnd = "idle"
         /\ rEnd' = "busy" /\ UNCHANGED sEnd
         /\ (op = "poll" => polls < MaxPolls)
         /\ (op = "is_ready" => checks < MaxChecks)
         /\ polls' = IF op = "poll" THEN polls + 1 ELSE polls
         /\ checks' = IF op = "is_ready" THEN checks + 1 ELSE checks
         /\ j' = J!RInv(j, op, IF op = "poll" THEN polls + 1 ELSE 0)
         /\ stack' = Append(IF Depth > 0 THEN [stack EXCEPT ![Len(stack)].cbn = @ + 1] ELSE stack,
                            Frame("R", op, CASE op = "poll" -> "p_get" [] op = "is_ready" -> "is_get"
                                             [] op = "into_value" -> "iv_get" [] OTHER -> "f_get1",
                                  IF op = "poll" THEN polls + 1 ELSE 0))

Driver ==
    /\ Depth = 0
    /\ \/ \E op \in {"send", "sdrop"} : PushOp("S", op)
       \/ \E op \in ROps : PushOp("R", op)
    /\ UNCHANGED <<st, cells, released, uar, ub>>

\* inside a callback: push an operation of the other endpoint, or return
CbPush ==
    /\ Depth > 0 /\ Top.pc = "cb" /\ Top.cbn < MaxCbOps
    /\ IF Top.who = "R" THEN \E op \in {"send", "sdrop"} : PushOp("S", op)
       ELSE \E op \in ROps : PushOp("R", op)
    /\ UNCHANGED <<st, cells, released, uar, ub>>

CbReturn ==
    /\ Depth > 0 /\ Top.pc = "cb"
    /\ Goto(Top.ret)
    /\ UNCHANGED <<st, cells, released, uar, ub, sEnd, rEnd, polls, checks, j>>

-----------------------------------------------------------------------------
(* SENDER: LocalSenderCore::send -> LocalEvent::set;  Drop -> sender_dropped_without_set                         *)

Keep == UNCHANGED <<sEnd, rEnd, polls, checks>>

SWrite ==   \* value_cell.write(value)
    /\ At("S", "s_write") /\ Acc
    /\ cells' = [cells EXCEPT !.val = TRUE] /\ ub' = (ub \/ cells.val)
    /\ Goto("s_replace")
    /\ UNCHANGED <<st, released, j>> /\ Keep

SReplace == \* previous_state = state.replace(EVENT_SET)
    /\ At("S", "s_replace") /\ Acc
    /\ st' = SET
    /\ Goto(CASE st = BOUND -> "s_ret" [] st = AWAITING -> "s_take" [] st = DISC -> "s_dropval" [] OTHER -> "UNREACHABLE")
    /\ UNCHANGED <<cells, released, ub, j>> /\ Keep

STake ==    \* waker = awaiter_cell.assume_init_read(); waker.wake()
    /\ (At("S", "s_take") \/ At("S", "d_take")) /\ Acc
    /\ cells' = [cells EXCEPT !.aw = 0] /\ ub' = (ub \/ cells.aw = 0)
    /\ SetTop(Callback(Top, "wake", cells.aw, IF Top.pc = "s_take" THEN "s_ret" ELSE "d_ret"))
    /\ j' = J!WWake(j, cells.aw)
    /\ UNCHANGED <<st, released>> /\ Keep

SDropVal == \* value_cell.assume_init_drop()   (receiver already gone)
    /\ At("S", "s_dropval") /\ Acc
    /\ cells' = [cells EXCEPT !.val = FALSE] /\ ub' = (ub \/ ~cells.val)
    /\ j' = J!PayloadDrop(j)
    /\ Goto("s_release")
    /\ UNCHANGED <<st, released>> /\ Keep

SRelease == \* event_ref.release_event()
    /\ (At("S", "s_release") \/ At("S", "d_release")) /\ Acc
    /\ released' = TRUE
    /\ j' = J!Release(j)
    /\ Goto(IF Top.pc = "s_release" THEN "s_ret" ELSE "d_ret")
    /\ UNCHANGED <<st, cells, ub>> /\ Keep

SRet ==
    /\ (At("S", "s_ret") \/ At("S", "d_ret")) /\ NoAcc
    /\ j' = IF Top.op = "send" THEN J!SendDone(j) ELSE J!SDropDone(j)
    /\ sEnd' = "gone"
    /\ Pop
    /\ UNCHANGED <<st, cells, released, ub, rEnd, polls, checks>>

DGet ==     \* previous_state = state.get()
    /\ At("S", "d_get") /\ Acc
    /\ SetTop([Top EXCEPT !.pc = "d_set", !.tmp = st])
    /\ UNCHANGED <<st, cells, released, ub, j>> /\ Keep

DSet ==     \* state.set(EVENT_DISCONNECTED)
    /\ At("S", "d_set") /\ Acc
    /\ st' = DISC
    /\ Goto(CASE Top.tmp = BOUND -> "d_ret" [] Top.tmp = AWAITING -> "d_take" [] Top.tmp = DISC -> "d_release" [] OTHER -> "UNREACHABLE")
    /\ UNCHANGED <<cells, released, ub, j>> /\ Keep

-----------------------------------------------------------------------------
(* RECEIVER: LocalReceiverCore::{poll, is_ready, into_value, drop} -> LocalEvent::{poll, is_set, final_poll}      *)

PGet ==     \* match self.state.get()
    /\ At("R", "p_get") /\ Acc
    /\ CASE st = BOUND    -> Goto("pb_clone")
         [] st = SET      -> Goto("p_pollset")
         [] st = AWAITING -> Goto("pa_clone")
         [] st = DISC     -> SetTop([Top EXCEPT !.pc = "r_release", !.res = "disc"])
         [] OTHER         -> Goto("UNREACHABLE")
    /\ UNCHANGED <<st, cells, released, ub, j>> /\ Keep

PClone ==   \* new_waker = waker.clone()      (no access to the event)
    /\ (At("R", "pb_clone") \/ At("R", "pa_clone")) /\ NoAcc
    /\ SetTop(Callback([Top EXCEPT !.nw = Top.w], "clone", Top.w, IF Top.pc = "pb_clone" THEN "pb_get" ELSE "pa_get"))
    /\ j' = J!WClone(j, Top.w)
    /\ UNCHANGED <<st, cells, released, ub>> /\ Keep

\* drop(new_waker) on the arms where a re-entrant sender finished the event during the clone
DropNew(next) ==
    /\ SetTop(Callback([Top EXCEPT !.nw = 0], "drop", Top.nw, next))
    /\ j' = J!WDrop(j, Top.nw)

PbGet ==    \* match self.state.get() after the clone
    /\ At("R", "pb_get") /\ Acc
    /\ CASE st = BOUND -> Goto("pb_write") /\ UNCHANGED j
         [] st = SET   -> DropNew("p_pollset")
         [] st = DISC  -> DropNew("p_disc")
         [] OTHER      -> Goto("UNREACHABLE") /\ UNCHANGED j
    /\ UNCHANGED <<st, cells, released, ub>> /\ Keep

PbWrite ==  \* awaiter_cell.write(new_waker)
    /\ At("R", "pb_write") /\ Acc
    /\ cells' = [cells EXCEPT !.aw = Top.nw] /\ ub' = (ub \/ cells.aw # 0)
    /\ SetTop([Top EXCEPT !.pc = "pb_set", !.nw = 0])
    /\ UNCHANGED <<st, released, j>> /\ Keep

PbSet ==    \* self.state.set(EVENT_AWAITING); None
    /\ At("R", "pb_set") /\ Acc
    /\ st' = AWAITING
    /\ Goto("p_pending")
    /\ UNCHANGED <<cells, released, ub, j>> /\ Keep

PaGet ==
    /\ At("R", "pa_get") /\ Acc
    /\ CASE st = AWAITING -> Goto("pa_swap") /\ UNCHANGED j
         [] st = SET      -> DropNew("p_pollset")
         [] st = DISC     -> DropNew("p_disc")
         [] OTHER         -> Goto("UNREACHABLE") /\ UNCHANGED j
    /\ UNCHANGED <<st, cells, released, ub>> /\ Keep

PaSwap ==   \* previous = assume_init_read(); write(new_waker); drop(previous)
    /\ At("R", "pa_swap") /\ Acc
    /\ cells' = [cells EXCEPT !.aw = Top.nw] /\ ub' = (ub \/ cells.aw = 0)
    /\ SetTop(Callback([Top EXCEPT !.nw = 0], "drop", cells.aw, "p_pending"))
    /\ j' = J!WDrop(j, cells.aw)
    /\ UNCHANGED <<st, released>> /\ Keep

PPollSet == \* poll_set(): value_cell.assume_init_read()
    /\ At("R", "p_pollset") /\ Acc
    /\ cells' = [cells EXCEPT !.val = FALSE] /\ ub' = (ub \/ ~cells.val)
    /\ SetTop([Top EXCEPT !.pc = "r_release", !.res = "value"])
    /\ UNCHANGED <<st, released, j>> /\ Keep

PDisc ==
    /\ At("R", "p_disc") /\ NoAcc
    /\ SetTop([Top EXCEPT !.pc = "r_release", !.res = "disc"])
    /\ UNCHANGED <<st, cells, released, ub, j>> /\ Keep

PPending == \* Poll::Pending / IntoValueError::Pending(self)
    /\ At("R", "p_pending") /\ NoAcc
    /\ j' = J!RResp(j, Top.op, "pending")
    /\ rEnd' = "idle"
    /\ Pop
    /\ UNCHANGED <<st, cells, released, ub, sEnd, polls, checks>>

RRelease == \* event_ref.release_event()
    /\ At("R", "r_release") /\ Acc
    /\ released' = TRUE
    /\ j' = J!Release(j)
    /\ Goto("r_ret")
    /\ UNCHANGED <<st, cells, ub>> /\ Keep

RRet ==     \* the operation returns its result; a value obtained by Drop is destroyed
    /\ At("R", "r_ret") /\ NoAcc
    /\ j' = IF Top.op = "drop"
            THEN J!RResp(IF Top.res = "value" THEN J!PayloadDrop(j) ELSE j, "drop", "done")
            ELSE J!RResp(j, Top.op, Top.res)
    /\ rEnd' = "gone"
    /\ Pop
    /\ UNCHANGED <<st, cells, released, ub, sEnd, polls, checks>>

IsGet ==    \* is_set(): state.get()
    /\ At("R", "is_get") /\ Acc
    /\ j' = J!RResp(j, "is_ready", IF st \in {SET, DISC} THEN "true" ELSE "false")
    /\ rEnd' = "idle"
    /\ Pop
    /\ UNCHANGED <<st, cells, released, ub, sEnd, polls, checks>>

IvGet ==    \* into_value(): state.get()
    /\ At("R", "iv_get") /\ Acc
    /\ Goto(IF st \in {BOUND, AWAITING} THEN "p_pending" ELSE "f_get1")
    /\ UNCHANGED <<st, cells, released, ub, j>> /\ Keep

FGet1 ==    \* final_poll: if state.get() == AWAITING
    /\ At("R", "f_get1") /\ Acc
    /\ Goto(IF st = AWAITING THEN "f_setbound" ELSE "f_get2")
    /\ UNCHANGED <<st, cells, released, ub, j>> /\ Keep

FSetBound == \* state.set(EVENT_BOUND) before the stored waker is dropped
    /\ At("R", "f_setbound") /\ Acc
    /\ st' = BOUND
    /\ Goto("f_dropaw")
    /\ UNCHANGED <<cells, released, ub, j>> /\ Keep

FDropAw ==  \* awaiter_cell.assume_init_drop()
    /\ At("R", "f_dropaw") /\ Acc
    /\ cells' = [cells EXCEPT !.aw = 0] /\ ub' = (ub \/ cells.aw = 0)
    /\ SetTop(Callback(Top, "drop", cells.aw, "f_get2"))
    /\ j' = J!WDrop(j, cells.aw)
    /\ UNCHANGED <<st, released>> /\ Keep

FGet2 ==    \* previous_state = state.get()   (re-read after the callback)
    /\ At("R", "f_get2") /\ Acc
    /\ SetTop([Top EXCEPT !.pc = "f_setdisc", !.tmp = st])
    /\ UNCHANGED <<st, cells, released, ub, j>> /\ Keep

FSetDisc == \* state.set(EVENT_DISCONNECTED); match previous_state
    /\ At("R", "f_setdisc") /\ Acc
    /\ st' = DISC
    /\ CASE Top.tmp = BOUND -> Goto(IF Top.op = "drop" THEN "f_none" ELSE "UNREACHABLE")
         [] Top.tmp = SET   -> Goto("f_readval")
         [] Top.tmp = DISC  -> SetTop([Top EXCEPT !.pc = "r_release", !.res = "disc"])
         [] OTHER           -> Goto("UNREACHABLE")
    /\ UNCHANGED <<cells, released, ub, j>> /\ Keep

FReadVal == \* value = value_cell.assume_init_read()
    /\ At("R", "f_readval") /\ Acc
    /\ cells' = [cells EXCEPT !.val = FALSE] /\ ub' = (ub \/ ~cells.val)
    /\ SetTop([Top EXCEPT !.pc = "r_release", !.res = "value"])
    /\ UNCHANGED <<st, released, j>> /\ Keep

FNone ==    \* Ok(None): the sender will clean up; Drop returns without releasing
    /\ At("R", "f_none") /\ NoAcc
    /\ j' = J!RResp(j, "drop", "done")
    /\ rEnd' = "gone"
    /\ Pop
    /\ UNCHANGED <<st, cells, released, ub, sEnd, polls, checks>>

\* terminal stutter, so that TLC's deadlock check flags every other stuck state
Done == Depth = 0 /\ sEnd = "gone" /\ rEnd = "gone" /\ UNCHANGED vars

Next == Done \/ Driver \/ CbPush \/ CbReturn
        \/ SWrite \/ SReplace \/ STake \/ SDropVal \/ SRelease \/ SRet \/ DGet \/ DSet
        \/ PGet \/ PClone \/ PbGet \/ PbWrite \/ PbSet \/ PaGet \/ PaSwap \/ PPollSet \/ PDisc \/ PPending \/ RRelease \/ RRet
        \/ IsGet \/ IvGet \/ FGet1 \/ FSetBound \/ FDropAw \/ FGet2 \/ FSetDisc \/ FReadVal \/ FNone

Spec == Init /\ [][Next]_vars
FairSpec == Spec /\ WF_vars(Next)

-----------------------------------------------------------------------------
TypeOK ==
    /\ st \in {BOUND, SET, AWAITING, DISC}
    /\ sEnd \in {"idle", "busy", "gone"} /\ rEnd \in {"idle", "busy", "gone"}
    /\ Depth <= 2

NoUseAfterRelease == ~uar
NoUB == ~ub
NoUnreachable == \A i \in DOMAIN stack : stack[i].pc # "UNREACHABLE"
JudgeOk == J!JOk(j)
\* both endpoints gone => the storage has been released exactly once and everything balances (part of JOk), and
\* no waker is left in the cell
QuiescentClean == (Depth = 0 /\ sEnd = "gone" /\ rEnd = "gone") => (released /\ cells.aw = 0 /\ ~cells.val)
=============================================================================
