---- MODULE Trace_OnceRC11 ----
(* TraceRC11 instantiated for events_once objects: parts of an event = value cell, awaiter cell, debug backtrace. *)
EXTENDS TraceRC11
====
