---- MODULE MC_OnceEventLocalGen ----
(* Generator for C07: edge cover of OnceEventLocal.  `hist` (hidden by VIEW) records the program that leads to each
   edge: top-level operations, callback invocations in order, operations pushed inside each callback, callback returns. *)
EXTENDS OnceEventLocal, Json
VARIABLE hist
GInit == Init /\ hist = <<>>
Entry ==
    IF Depth = 0 /\ Len(stack') = 1 THEN << [k |-> "top", a |-> stack'[1].op, w |-> 0] >>
    ELSE IF Len(stack') = Depth + 1 THEN << [k |-> "push", a |-> stack'[Depth + 1].op, w |-> 0] >>
    ELSE IF Len(stack') = Depth /\ Depth > 0 /\ Top.pc # "cb" /\ stack'[Depth].pc = "cb"
         THEN << [k |-> "cb", a |-> stack'[Depth].cbk, w |-> stack'[Depth].cbw] >>
    ELSE IF Len(stack') = Depth /\ Depth > 0 /\ Top.pc = "cb" /\ stack'[Depth].pc # "cb" THEN << [k |-> "ret", a |-> "", w |-> 0] >>
    ELSE << >>
GNext == Next /\ hist' = hist \o Entry
GSpec == GInit /\ [][GNext]_<<vars, hist>>
GView == vars
EmitEdge == PrintT(<<"LBEH", ToJson(hist')>>)
\* for -simulate: print the program of every behaviour that ran to completion
EmitDone == (Depth = 0 /\ sEnd = "gone" /\ rEnd = "gone") => PrintT(<<"LBEH", ToJson(hist)>>)
====
