------------------------------ MODULE OnceEventAbs ------------------------------
(* Judge for the one-shot event (C05, API level; also the API part of C06 and C07).

   The judge is a monitor: a record J updated by the API-level events of one event object
       sender:    SendInv, SendDone, SDropInv, SDropDone
       receiver:  RInv(op, w), RResp(op, res)         op \in {"poll","is_ready","into_value","drop"}
       payload:   PayloadDrop            (the sent value's destructor ran)
       wakers:    WClone(w), WDrop(w), WWake(w)      (w = id of the waker passed to poll; clones keep the id;
                                                      wake-by-value consumes the waker)
       storage:   Release                (the event storage was released)
   It sets J.bad (with a reason) as soon as a response or event is one the property forbids, and offers
   predicates for quiescent states.  The same operators are used as an invariant monitor inside the explorers
   (OnceEventSync, OnceEventLocal) and as the judge of traces recorded from the real code (Trace_OnceEventAbs).

   What the property demands, and nothing else:
     * value       only if send was invoked before the response; at most once; never after a payload drop
     * disconnect  only if the sender was dropped unsent (drop invoked before the response)
     * pending / not ready   only if the sender's operation had not completed before the receiver's call began
     * a sent payload is handed over or destroyed exactly once by the time both endpoints are gone
     * the storage is released exactly once, by the time both endpoints are gone, and never earlier than both
       endpoints are done with it (API-level part; happens-before is RC11's job)
     * every cloned waker is dropped or woken-by-value exactly once
     * if the most recent poll returned pending and the sender's operation has completed, the waker passed to that
       poll has been woken.                                                                                     *)
EXTENDS Naturals, Sequences, FiniteSets

\* rt = TRUE: real time orders the two endpoints' operations (sequentially consistent executions, and every execution
\* observed under the harness scheduler).  rt = FALSE: the endpoints are not otherwise synchronised (RC11 exploration):
\* "the sender had finished before the call began" then implies nothing, and only the other rules are judged.
JInit(rt) ==
    [ rt |-> rt,
      snd |-> "idle",            \* idle | send_inv | send_done | drop_inv | drop_done
      rcv |-> "idle",            \* idle | busy | consumed | dropped
      op |-> "none", w |-> 0,    \* receiver operation in progress and its waker id
      sndAtInv |-> "idle",       \* sender state when the receiver operation was invoked
      delivered |-> 0, destroyed |-> 0,
      clones |-> 0, wdrops |-> 0, wakes |-> 0,
      live |-> [x \in {} |-> 0], \* waker id -> number of live clones (function with growing domain)
      woken |-> {},              \* waker ids woken so far
      lastPending |-> FALSE, pendingW |-> 0,
      releases |-> 0,
      bad |-> "" ]

Bad(J, why) == IF J.bad = "" THEN [J EXCEPT !.bad = why] ELSE J

SndStarted(s) == s # "idle"
SndDone(s) == s \in {"send_done", "drop_done"}
Sent(J) == J.snd \in {"send_inv", "send_done"}
SDropped(J) == J.snd \in {"drop_inv", "drop_done"}
RcvGone(J) == J.rcv \in {"consumed", "dropped"}

SendInv(J) == IF J.snd # "idle" THEN Bad(J, "send on a used sender") ELSE [J EXCEPT !.snd = "send_inv"]
SendDone(J) == IF J.snd # "send_inv" THEN Bad(J, "send response without invocation") ELSE [J EXCEPT !.snd = "send_done"]
SDropInv(J) == IF J.snd # "idle" THEN Bad(J, "drop of a used sender") ELSE [J EXCEPT !.snd = "drop_inv"]
SDropDone(J) == IF J.snd # "drop_inv" THEN Bad(J, "drop response without invocation") ELSE [J EXCEPT !.snd = "drop_done"]

RInv(J, op, w) ==
    IF J.rcv # "idle" THEN Bad(J, "receiver operation on a busy or finished receiver")
    ELSE [J EXCEPT !.rcv = "busy", !.op = op, !.w = w, !.sndAtInv = J.snd]

\* res \in {"value","disc","pending","true","false","done"}
RResp(J, op, res) ==
    IF J.rcv # "busy" \/ J.op # op THEN Bad(J, "receiver response without matching invocation")
    ELSE
    LET idle == [J EXCEPT !.rcv = "idle", !.op = "none"]
        gone == [J EXCEPT !.rcv = "consumed", !.op = "none", !.lastPending = FALSE]
    IN
    CASE op \in {"poll", "into_value"} /\ res = "value" ->
            IF ~Sent(J) THEN Bad(J, "value without send")
            ELSE IF J.delivered + J.destroyed > 0 THEN Bad(J, "payload delivered twice or after destruction")
            ELSE [gone EXCEPT !.delivered = 1]
      [] op \in {"poll", "into_value"} /\ res = "disc" ->
            IF ~SDropped(J) THEN Bad(J, "disconnect although the sender was not dropped unsent") ELSE gone
      [] op \in {"poll", "into_value"} /\ res = "pending" ->
            IF J.rt /\ SndDone(J.sndAtInv) THEN Bad(J, "pending although the sender had already finished")
            ELSE IF op = "poll" THEN [idle EXCEPT !.lastPending = TRUE, !.pendingW = J.w] ELSE idle
      [] op = "is_ready" /\ res = "true" ->
            IF ~SndStarted(J.snd) THEN Bad(J, "ready before the sender did anything") ELSE idle
      [] op = "is_ready" /\ res = "false" ->
            IF J.rt /\ SndDone(J.sndAtInv) THEN Bad(J, "not ready although the sender had already finished") ELSE idle
      [] op = "drop" /\ res = "done" -> [J EXCEPT !.rcv = "dropped", !.op = "none", !.lastPending = FALSE]
      [] OTHER -> Bad(J, "unknown response")

PayloadDrop(J) ==
    IF ~Sent(J) THEN Bad(J, "payload destroyed but nothing was sent")
    ELSE IF J.delivered + J.destroyed > 0 THEN Bad(J, "payload destroyed twice or after delivery")
    ELSE [J EXCEPT !.destroyed = 1]

LiveOf(J, w) == IF w \in DOMAIN J.live THEN J.live[w] ELSE 0
SetLive(J, w, n) == [x \in (DOMAIN J.live) \cup {w} |-> IF x = w THEN n ELSE J.live[x]]

WClone(J, w) == [J EXCEPT !.clones = @ + 1, !.live = SetLive(J, w, LiveOf(J, w) + 1)]
WDrop(J, w) ==
    IF LiveOf(J, w) = 0 THEN Bad(J, "waker dropped more often than cloned")
    ELSE [J EXCEPT !.wdrops = @ + 1, !.live = SetLive(J, w, LiveOf(J, w) - 1)]
WWake(J, w) ==   \* wake by value: consumes one clone
    IF LiveOf(J, w) = 0 THEN Bad(J, "waker woken more often than cloned")
    ELSE [J EXCEPT !.wakes = @ + 1, !.live = SetLive(J, w, LiveOf(J, w) - 1), !.woken = @ \cup {w}]

WWakeRef(J, w) ==   \* wake by reference: does not consume
    IF LiveOf(J, w) = 0 THEN Bad(J, "waker woken by reference but no clone is alive")
    ELSE [J EXCEPT !.woken = @ \cup {w}]

Release(J) ==
    IF J.releases > 0 THEN Bad(J, "storage released twice")
    ELSE [J EXCEPT !.releases = 1]

\* any access to the event's storage (state, cells, diagnostics): never after the release
Access(J) == IF J.releases > 0 THEN Bad(J, "event storage accessed after it was released") ELSE J

-----------------------------------------------------------------------------
(* state predicates                                                        *)

NotBad(J) == J.bad = ""

BothGone(J) == SndDone(J.snd) /\ RcvGone(J)

\* at quiescence: exact accounting
QuiescentOk(J) ==
    BothGone(J) =>
        /\ J.releases = 1
        /\ (Sent(J) => J.delivered + J.destroyed = 1)
        /\ (~Sent(J) => J.delivered = 0 /\ J.destroyed = 0)
        /\ J.clones = J.wdrops + J.wakes

\* the storage may only be released once neither endpoint will use it again: the releasing endpoint has (all but)
\* finished and the other one has finished.  API-level necessary condition: both operations were at least invoked.
ReleaseNotEarly(J) ==
    J.releases = 1 => /\ SndStarted(J.snd)
                      /\ (J.rcv \in {"consumed", "dropped", "busy"})

\* the wake obligation (checked when the receiver is between operations)
WakeOk(J) ==
    (SndDone(J.snd) /\ J.rcv = "idle" /\ J.lastPending) => J.pendingW \in J.woken

JOk(J) == NotBad(J) /\ QuiescentOk(J) /\ ReleaseNotEarly(J) /\ WakeOk(J)
=============================================================================
