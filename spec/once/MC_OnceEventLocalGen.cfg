CONSTANTS MaxPolls = 2  MaxChecks = 1  MaxCbOps = 2
SPECIFICATION GSpec
VIEW GView
ACTION_CONSTRAINT EmitEdge
CHECK_DEADLOCK FALSE
