---- MODULE MC_OnceEventSync ----
EXTENDS OnceEventSync
\* Orderings as written in the tree when the model was built; the check overrides this with the measured table.
OrdAsCode ==
  [ s \in Sites |->
    CASE s = "set_fetch_add" -> "rel" [] s = "set_aw_fence" -> "acq" [] s = "set_store" -> "rel" [] s = "set_disc_fence" -> "acq"
      [] s = "drop_swap" -> "rlx" [] s = "drop_store_bound" -> "rel" [] s = "drop_aw_fence" -> "acq" [] s = "drop_store_aw" -> "rel"
      [] s = "drop_disc_fence" -> "none"
      [] s = "poll_load" -> "acq" [] s = "pb_cas_ok" -> "rel" [] s = "pb_cas_fail" -> "acq" [] s = "pa_cas_ok" -> "rlx" [] s = "pa_cas_fail" -> "rlx"
      [] s = "pa_ok_fence" -> "acq" [] s = "pa_set_fence" -> "acq" [] s = "pa_disc_fence" -> "acq" [] s = "pg_load" -> "rlx" [] s = "pg_fence" -> "acq"
      [] s = "is_load" -> "rlx" [] s = "iv_load" -> "acq"
      [] s = "fp_cas1_ok" -> "acq" [] s = "fp_cas1_fail" -> "rlx" [] s = "fp_load" -> "rlx" [] s = "fp_cas2_ok" -> "rel" [] s = "fp_cas2_fail" -> "rlx"
      [] s = "fp_set_fence" -> "acq" [] s = "fp_disc_fence" -> "acq" ]
OrdFixed == [OrdAsCode EXCEPT !["drop_disc_fence"] = "acq"]
====
