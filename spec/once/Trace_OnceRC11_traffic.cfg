CONSTANTS MaxTask = 8  MaxId = 64  Parts = {"value", "awaiter", "backtrace"}  MutexParts = {"backtrace"}
SPECIFICATION TraceSpec
POSTCONDITION Accepted
CHECK_DEADLOCK FALSE
