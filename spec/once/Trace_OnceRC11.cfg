CONSTANTS MaxTask = 2  MaxId = 8  Parts = {"value", "awaiter", "backtrace"}  MutexParts = {"backtrace"}
SPECIFICATION TraceSpec
POSTCONDITION Accepted
CHECK_DEADLOCK FALSE
