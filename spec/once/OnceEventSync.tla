------------------------------ MODULE OnceEventSync ------------------------------
(* Explorer for the thread-safe one-shot event (C05, C06): packages/events_once/src/core/sync.rs,
   sync_sender.rs, sync_receiver.rs, one action per atomic operation / fence / cell access / release, in the order of
   the code.  Memory goes through RC11 (spec/lib): every ordering argument and every fence of the code is a
   parameter  Ord[site]  ("none" = fence absent) that the check fills from the orderings LOGGED by the instrumented
   code, so weakening an Ordering in the source changes the model that TLC checks.

   SC = TRUE restricts loads to the mo-latest message (sequential consistency): used to generate schedules that can
   be replayed on the real code; SC = FALSE explores every RC11 outcome.

   The judge OnceEventAbs runs inside as a monitor (variable j); the memory-level property is ~mem.race, where the
   release of the storage is a non-atomic write to every cell including `blk`, and every access to the event reads
   `blk`:  "every access by the other endpoint happens-before the release" (C06) <=> no race.

   Thread "S" = sender endpoint, "R" = receiver endpoint.  Sender program: send | drop.  Receiver program: any
   sequence of poll (fresh waker id each time, at most MaxPolls), is_ready (at most MaxChecks), into_value, drop.  *)
EXTENDS Naturals, Sequences, FiniteSets, TLC

CONSTANTS MaxPolls, MaxChecks, SC,
          Ord          \* [site -> "rlx" | "acq" | "rel" | "acqrel" | "sc" | "none"]

Thread == {"S", "R"}
ALoc == {"state"}
NLoc == {"val", "aw", "blk"}

M == INSTANCE RC11 WITH Thread <- Thread, ALoc <- ALoc, NLoc <- NLoc
J == INSTANCE OnceEventAbs

BOUND == 0  SET == 1  AWAITING == 2  SIGNALING == 3  DISC == 4

Sites == { "set_fetch_add", "set_aw_fence", "set_store", "set_disc_fence",
           "drop_swap", "drop_store_bound", "drop_aw_fence", "drop_store_aw", "drop_disc_fence",
           "poll_load", "pb_cas_ok", "pb_cas_fail", "pa_cas_ok", "pa_cas_fail",
           "pa_ok_fence", "pa_set_fence", "pa_disc_fence", "pg_load", "pg_fence",
           "is_load", "iv_load",
           "fp_cas1_ok", "fp_cas1_fail", "fp_load", "fp_cas2_ok", "fp_cas2_fail", "fp_set_fence", "fp_disc_fence" }

VARIABLES mem,     \* RC11 memory
          pc,      \* [Thread -> label]
          reg,     \* thread-local registers: [w: waker id the receiver registered, st: state value the receiver
                   \*   stashed in a spin/CAS loop, taken: waker id the sender moved out of the cell]
          cells,   \* contents of the two MaybeUninit cells: [aw: waker id or 0 = uninitialised, val: BOOLEAN]
          ub,      \* a cell was read or dropped while uninitialised, or overwritten while initialised (leak)
          ctx,     \* receiver: API operation in progress ("none" | "poll" | "is_ready" | "into_value" | "drop")
          res,     \* receiver: result being returned ("none" | "value" | "disc")
          polls, checks,
          j        \* judge monitor (OnceEventAbs)

vars == <<mem, pc, reg, cells, ub, ctx, res, polls, checks, j>>

Init ==
    /\ mem = M!InitMem([l \in ALoc |-> BOUND], "S")
    /\ pc = [t \in Thread |-> "idle"]
    /\ reg = [w |-> 0, st |-> 0, taken |-> 0]
    /\ cells = [aw |-> 0, val |-> FALSE]
    /\ ub = FALSE
    /\ ctx = "none" /\ res = "none"
    /\ polls = 0 /\ checks = 0
    /\ j = J!JInit(SC)

Goto(t, l) == pc' = [pc EXCEPT ![t] = l]

\* every access to the event object reads `blk` (the storage must still be there)
Touch(t) == M!NARead(mem, t, "blk")

Elig(t) == IF SC THEN M!EligibleSC(mem, t, "state") ELSE M!Eligible(mem, t, "state")
StateVal(i) == mem.mo["state"][i].val
LastState == M!LastVal(mem, "state")

DoFence(m, t, site) == IF Ord[site] = "none" THEN m ELSE M!Fence(m, t, Ord[site])

\* release_event: (debug builds lock the backtrace mutex inside the event = one more access), then the storage is
\* gone: free / slot returned / placement contract ended = write to every cell
ReleaseMem(t) == M!NAAccesses(Touch(t), t, << <<"w", "val">>, <<"w", "aw">>, <<"w", "blk">> >>)

-----------------------------------------------------------------------------
(* SENDER: SenderCore::send -> Event::set;  Drop for SenderCore -> Event::sender_dropped_without_set           *)

SStart ==
    /\ pc["S"] = "idle"
    /\ \/ /\ j' = J!SendInv(j) /\ Goto("S", "set_write")
       \/ /\ j' = J!SDropInv(j) /\ Goto("S", "drop_swap")
    /\ UNCHANGED <<mem, reg, cells, ub, ctx, res, polls, checks>>

\* value_cell.write(value)
SetWrite ==
    /\ pc["S"] = "set_write"
    /\ mem' = M!NAWrite(Touch("S"), "S", "val")
    /\ cells' = [cells EXCEPT !.val = TRUE]
    /\ ub' = (ub \/ cells.val)
    /\ Goto("S", "set_fetch_add")
    /\ UNCHANGED <<reg, ctx, res, polls, checks, j>>

\* previous_state = state.fetch_add(1, Release)
SetFetchAdd ==
    /\ pc["S"] = "set_fetch_add"
    /\ LET prev == LastState IN
       /\ mem' = M!Rmw(Touch("S"), "S", "state", prev + 1, Ord["set_fetch_add"])
       /\ CASE prev = BOUND    -> Goto("S", "send_ret")
            [] prev = AWAITING -> Goto("S", "set_aw_fence")
            [] prev = DISC     -> Goto("S", "set_destroy_value")
            [] OTHER           -> Goto("S", "UNREACHABLE")
    /\ UNCHANGED <<reg, cells, ub, ctx, res, polls, checks, j>>

SetAwFence ==
    /\ pc["S"] = "set_aw_fence"
    /\ mem' = DoFence(mem, "S", "set_aw_fence")
    /\ Goto("S", "set_take_waker")
    /\ UNCHANGED <<reg, cells, ub, ctx, res, polls, checks, j>>

\* waker = awaiter_cell.assume_init_read()
SetTakeWaker ==
    /\ pc["S"] = "set_take_waker"
    /\ mem' = M!NARead(Touch("S"), "S", "aw")
    /\ reg' = [reg EXCEPT !.taken = cells.aw]
    /\ cells' = [cells EXCEPT !.aw = 0]
    /\ ub' = (ub \/ cells.aw = 0)
    /\ Goto("S", "set_store")
    /\ UNCHANGED <<ctx, res, polls, checks, j>>

\* state.store(EVENT_SET, Release)
SetStore ==
    /\ pc["S"] = "set_store"
    /\ mem' = M!Store(Touch("S"), "S", "state", SET, Ord["set_store"])
    /\ Goto("S", "wake")
    /\ UNCHANGED <<reg, cells, ub, ctx, res, polls, checks, j>>

\* waker.wake(): the waker the sender moved out of the awaiter cell
Wake ==
    /\ pc["S"] = "wake"
    /\ j' = J!WWake(j, reg.taken)
    /\ Goto("S", IF j.snd = "send_inv" THEN "send_ret" ELSE "sdrop_ret")
    /\ UNCHANGED <<mem, reg, cells, ub, ctx, res, polls, checks>>

\* event.destroy_value()  (receiver already gone)
SetDestroyValue ==
    /\ pc["S"] = "set_destroy_value"
    /\ mem' = M!NAWrite(Touch("S"), "S", "val")
    /\ j' = J!PayloadDrop(j)
    /\ cells' = [cells EXCEPT !.val = FALSE]
    /\ ub' = (ub \/ ~cells.val)
    /\ Goto("S", "set_disc_fence")
    /\ UNCHANGED <<reg, ctx, res, polls, checks>>

SetDiscFence ==
    /\ pc["S"] = "set_disc_fence"
    /\ mem' = DoFence(mem, "S", "set_disc_fence")
    /\ Goto("S", "s_release")
    /\ UNCHANGED <<reg, cells, ub, ctx, res, polls, checks, j>>

\* this.event_ref.release_event()
SRelease ==
    /\ pc["S"] = "s_release"
    /\ mem' = ReleaseMem("S")
    /\ j' = J!Release(j)
    /\ Goto("S", IF j.snd = "send_inv" THEN "send_ret" ELSE "sdrop_ret")
    /\ UNCHANGED <<reg, cells, ub, ctx, res, polls, checks>>

SendRet ==
    /\ pc["S"] = "send_ret"
    /\ j' = J!SendDone(j)
    /\ Goto("S", "done")
    /\ UNCHANGED <<mem, reg, cells, ub, ctx, res, polls, checks>>

\* previous_state = state.swap(EVENT_SIGNALING, Relaxed)
DropSwap ==
    /\ pc["S"] = "drop_swap"
    /\ LET prev == LastState IN
       /\ mem' = M!Rmw(Touch("S"), "S", "state", SIGNALING, Ord["drop_swap"])
       /\ CASE prev = BOUND    -> Goto("S", "drop_store_bound")
            [] prev = AWAITING -> Goto("S", "drop_aw_fence")
            [] prev = DISC     -> Goto("S", "drop_disc_fence")
            [] OTHER           -> Goto("S", "UNREACHABLE")
    /\ UNCHANGED <<reg, cells, ub, ctx, res, polls, checks, j>>

DropStoreBound ==
    /\ pc["S"] = "drop_store_bound"
    /\ mem' = M!Store(Touch("S"), "S", "state", DISC, Ord["drop_store_bound"])
    /\ Goto("S", "sdrop_ret")
    /\ UNCHANGED <<reg, cells, ub, ctx, res, polls, checks, j>>

DropAwFence ==
    /\ pc["S"] = "drop_aw_fence"
    /\ mem' = DoFence(mem, "S", "drop_aw_fence")
    /\ Goto("S", "drop_take_waker")
    /\ UNCHANGED <<reg, cells, ub, ctx, res, polls, checks, j>>

DropTakeWaker ==
    /\ pc["S"] = "drop_take_waker"
    /\ mem' = M!NARead(Touch("S"), "S", "aw")
    /\ reg' = [reg EXCEPT !.taken = cells.aw]
    /\ cells' = [cells EXCEPT !.aw = 0]
    /\ ub' = (ub \/ cells.aw = 0)
    /\ Goto("S", "drop_store_aw")
    /\ UNCHANGED <<ctx, res, polls, checks, j>>

DropStoreAw ==
    /\ pc["S"] = "drop_store_aw"
    /\ mem' = M!Store(Touch("S"), "S", "state", DISC, Ord["drop_store_aw"])
    /\ Goto("S", "wake")
    /\ UNCHANGED <<reg, cells, ub, ctx, res, polls, checks, j>>

\* EVENT_DISCONNECTED arm of sender_dropped_without_set: the fence site exists in the model so that the measured
\* table decides whether the code has it
DropDiscFence ==
    /\ pc["S"] = "drop_disc_fence"
    /\ mem' = DoFence(mem, "S", "drop_disc_fence")
    /\ Goto("S", "s_release")
    /\ UNCHANGED <<reg, cells, ub, ctx, res, polls, checks, j>>

SDropRet ==
    /\ pc["S"] = "sdrop_ret"
    /\ j' = J!SDropDone(j)
    /\ Goto("S", "done")
    /\ UNCHANGED <<mem, reg, cells, ub, ctx, res, polls, checks>>

-----------------------------------------------------------------------------
(* RECEIVER: ReceiverCore::{poll, is_ready, into_value, drop} -> Event::{poll, is_set, final_poll}             *)

RChoose ==
    /\ pc["R"] = "idle"
    /\ \/ /\ polls < MaxPolls
          /\ polls' = polls + 1 /\ checks' = checks
          /\ ctx' = "poll" /\ j' = J!RInv(j, "poll", polls + 1)
          /\ Goto("R", "poll_load")
       \/ /\ checks < MaxChecks
          /\ checks' = checks + 1 /\ polls' = polls
          /\ ctx' = "is_ready" /\ j' = J!RInv(j, "is_ready", 0)
          /\ Goto("R", "is_load")
       \/ /\ ctx' = "into_value" /\ j' = J!RInv(j, "into_value", 0)
          /\ Goto("R", "iv_load") /\ UNCHANGED <<polls, checks>>
       \/ /\ ctx' = "drop" /\ j' = J!RInv(j, "drop", 0)
          /\ Goto("R", "fp_cas1") /\ UNCHANGED <<polls, checks>>
    /\ UNCHANGED <<mem, reg, cells, ub, res>>

\* match self.state.load(Acquire)
PollLoad ==
    /\ pc["R"] = "poll_load"
    /\ \E i \in Elig("R") :
          /\ mem' = M!Load(Touch("R"), "R", "state", i, Ord["poll_load"])
          /\ CASE StateVal(i) = BOUND     -> Goto("R", "pb_write")
               [] StateVal(i) = SET       -> Goto("R", "poll_set") /\ TRUE
               [] StateVal(i) = AWAITING  -> Goto("R", "pa_cas")
               [] StateVal(i) = SIGNALING -> Goto("R", "pg_load")
               [] StateVal(i) = DISC      -> Goto("R", "ret_disc")
    /\ UNCHANGED <<reg, cells, ub, ctx, res, polls, checks, j>>

\* awaiter_cell.write(waker.clone())
PbWrite ==
    /\ pc["R"] = "pb_write"
    /\ mem' = M!NAWrite(Touch("R"), "R", "aw")
    /\ j' = J!WClone(j, polls)
    /\ reg' = [reg EXCEPT !.w = polls]
    /\ cells' = [cells EXCEPT !.aw = polls]
    /\ ub' = (ub \/ cells.aw # 0)                       \* overwriting a live waker leaks it
    /\ Goto("R", "pb_cas")
    /\ UNCHANGED <<ctx, res, polls, checks>>

\* compare_exchange(BOUND, AWAITING, Release, Acquire)
PbCas ==
    /\ pc["R"] = "pb_cas"
    /\ \/ /\ LastState = BOUND
          /\ mem' = M!Rmw(Touch("R"), "R", "state", AWAITING, Ord["pb_cas_ok"])
          /\ Goto("R", "ret_pending")
          /\ UNCHANGED <<reg, cells, ub, ctx, res, polls, checks, j>>
       \/ \E i \in Elig("R") :
             /\ StateVal(i) # BOUND
             /\ mem' = M!Load(Touch("R"), "R", "state", i, Ord["pb_cas_fail"])
             /\ CASE StateVal(i) = SET       -> Goto("R", "pb_destroy_then_set")
                  [] StateVal(i) = SIGNALING -> Goto("R", "pb_destroy_then_sig")
                  [] StateVal(i) = DISC      -> Goto("R", "pb_destroy_then_disc")
                  [] OTHER                   -> Goto("R", "UNREACHABLE")
             /\ UNCHANGED <<reg, cells, ub, ctx, res, polls, checks, j>>

\* self.destroy_awaiter() on the three failure arms
PbDestroy ==
    /\ pc["R"] \in {"pb_destroy_then_set", "pb_destroy_then_sig", "pb_destroy_then_disc"}
    /\ mem' = M!NAWrite(Touch("R"), "R", "aw")
    /\ j' = J!WDrop(j, cells.aw)
    /\ cells' = [cells EXCEPT !.aw = 0]
    /\ ub' = (ub \/ cells.aw = 0)
    /\ Goto("R", CASE pc["R"] = "pb_destroy_then_set" -> "poll_set"
                   [] pc["R"] = "pb_destroy_then_sig" -> "pg_load"
                   [] OTHER -> "ret_disc")
    /\ UNCHANGED <<reg, ctx, res, polls, checks>>

\* poll_set(): value_cell.assume_init_read()
PollSet ==
    /\ pc["R"] = "poll_set"
    /\ mem' = M!NARead(Touch("R"), "R", "val")
    /\ res' = "value"
    /\ cells' = [cells EXCEPT !.val = FALSE]
    /\ ub' = (ub \/ ~cells.val)
    /\ Goto("R", IF ctx = "drop" THEN "fp_drop_value" ELSE "r_release")
    /\ UNCHANGED <<reg, ctx, polls, checks, j>>

\* compare_exchange(AWAITING, BOUND, Relaxed, Relaxed)
PaCas ==
    /\ pc["R"] = "pa_cas"
    /\ \/ /\ LastState = AWAITING
          /\ mem' = M!Rmw(Touch("R"), "R", "state", BOUND, Ord["pa_cas_ok"])
          /\ Goto("R", "pa_ok_fence")
          /\ UNCHANGED <<reg, cells, ub, ctx, res, polls, checks, j>>
       \/ \E i \in Elig("R") :
             /\ StateVal(i) # AWAITING
             /\ mem' = M!Load(Touch("R"), "R", "state", i, Ord["pa_cas_fail"])
             /\ CASE StateVal(i) = SET       -> Goto("R", "pa_set_fence")
                  [] StateVal(i) = SIGNALING -> Goto("R", "pg_load")
                  [] StateVal(i) = DISC      -> Goto("R", "pa_disc_fence")
                  [] OTHER                   -> Goto("R", "UNREACHABLE")
             /\ UNCHANGED <<reg, cells, ub, ctx, res, polls, checks, j>>

PaOkFence ==
    /\ pc["R"] = "pa_ok_fence"
    /\ mem' = DoFence(mem, "R", "pa_ok_fence")
    /\ Goto("R", "pa_destroy")
    /\ UNCHANGED <<reg, cells, ub, ctx, res, polls, checks, j>>

\* destroy the old awaiter, then the BOUND path
PaDestroy ==
    /\ pc["R"] = "pa_destroy"
    /\ mem' = M!NAWrite(Touch("R"), "R", "aw")
    /\ j' = J!WDrop(j, cells.aw)
    /\ cells' = [cells EXCEPT !.aw = 0]
    /\ ub' = (ub \/ cells.aw = 0)
    /\ Goto("R", "pb_write")
    /\ UNCHANGED <<reg, ctx, res, polls, checks>>

PaSetFence ==
    /\ pc["R"] = "pa_set_fence"
    /\ mem' = DoFence(mem, "R", "pa_set_fence")
    /\ Goto("R", "poll_set")
    /\ UNCHANGED <<reg, cells, ub, ctx, res, polls, checks, j>>

PaDiscFence ==
    /\ pc["R"] = "pa_disc_fence"
    /\ mem' = DoFence(mem, "R", "pa_disc_fence")
    /\ Goto("R", "ret_disc")
    /\ UNCHANGED <<reg, cells, ub, ctx, res, polls, checks, j>>

\* poll_signaling(): spin on load(Relaxed) while SIGNALING
PgLoad ==
    /\ pc["R"] = "pg_load"
    /\ \E i \in Elig("R") :
          /\ mem' = M!Load(Touch("R"), "R", "state", i, Ord["pg_load"])
          /\ IF StateVal(i) = SIGNALING
             THEN UNCHANGED <<pc, reg>>
             ELSE /\ reg' = [reg EXCEPT !.st = StateVal(i)]
                  /\ Goto("R", "pg_fence")
    /\ UNCHANGED <<cells, ub, ctx, res, polls, checks, j>>

PgFence ==
    /\ pc["R"] = "pg_fence"
    /\ mem' = DoFence(mem, "R", "pg_fence")
    /\ CASE reg.st = SET  -> Goto("R", "poll_set")
         [] reg.st = DISC -> Goto("R", "ret_disc")
         [] OTHER           -> Goto("R", "UNREACHABLE")
    /\ UNCHANGED <<reg, cells, ub, ctx, res, polls, checks, j>>

RetPending ==
    /\ pc["R"] = "ret_pending"
    /\ j' = J!RResp(j, ctx, "pending")
    /\ ctx' = "none"
    /\ Goto("R", "idle")
    /\ UNCHANGED <<mem, reg, cells, ub, res, polls, checks>>

\* Some(Err(Disconnected)) from poll / Err from final_poll: the receiver releases the event
RetDisc ==
    /\ pc["R"] = "ret_disc"
    /\ res' = "disc"
    /\ Goto("R", "r_release")
    /\ UNCHANGED <<mem, reg, cells, ub, ctx, polls, checks, j>>

\* event_ref.release_event(), then the operation returns
RRelease ==
    /\ pc["R"] = "r_release"
    /\ mem' = ReleaseMem("R")
    /\ j' = J!RResp(J!Release(j), ctx, IF ctx = "drop" THEN "done" ELSE res)
    /\ ctx' = "none"
    /\ Goto("R", "done")
    /\ UNCHANGED <<reg, cells, ub, res, polls, checks>>

\* is_set(): load(Relaxed)
IsLoad ==
    /\ pc["R"] = "is_load"
    /\ \E i \in Elig("R") :
          /\ mem' = M!Load(Touch("R"), "R", "state", i, Ord["is_load"])
          /\ j' = J!RResp(j, "is_ready", IF StateVal(i) \in {SET, DISC} THEN "true" ELSE "false")
    /\ ctx' = "none"
    /\ Goto("R", "idle")
    /\ UNCHANGED <<reg, cells, ub, res, polls, checks>>

\* into_value(): load(Acquire); pending states give the receiver back
IvLoad ==
    /\ pc["R"] = "iv_load"
    /\ \E i \in Elig("R") :
          /\ mem' = M!Load(Touch("R"), "R", "state", i, Ord["iv_load"])
          /\ IF StateVal(i) \in {BOUND, AWAITING, SIGNALING}
             THEN Goto("R", "ret_pending")
             ELSE Goto("R", "fp_cas1")
    /\ UNCHANGED <<reg, cells, ub, ctx, res, polls, checks, j>>

\* final_poll: compare_exchange(AWAITING, BOUND, Acquire, Relaxed).is_ok() -> destroy_awaiter
FpCas1 ==
    /\ pc["R"] = "fp_cas1"
    /\ \/ /\ LastState = AWAITING
          /\ mem' = M!Rmw(Touch("R"), "R", "state", BOUND, Ord["fp_cas1_ok"])
          /\ Goto("R", "fp_destroy")
       \/ \E i \in Elig("R") :
             /\ StateVal(i) # AWAITING
             /\ mem' = M!Load(Touch("R"), "R", "state", i, Ord["fp_cas1_fail"])
             /\ Goto("R", "fp_load")
    /\ UNCHANGED <<reg, cells, ub, ctx, res, polls, checks, j>>

FpDestroy ==
    /\ pc["R"] = "fp_destroy"
    /\ mem' = M!NAWrite(Touch("R"), "R", "aw")
    /\ j' = J!WDrop(j, cells.aw)
    /\ cells' = [cells EXCEPT !.aw = 0]
    /\ ub' = (ub \/ cells.aw = 0)
    /\ Goto("R", "fp_load")
    /\ UNCHANGED <<reg, ctx, res, polls, checks>>

\* loop { current = load(Relaxed); if SIGNALING { spin; continue } ...
FpLoad ==
    /\ pc["R"] = "fp_load"
    /\ \E i \in Elig("R") :
          /\ mem' = M!Load(Touch("R"), "R", "state", i, Ord["fp_load"])
          /\ IF StateVal(i) = SIGNALING
             THEN UNCHANGED <<pc, reg>>
             ELSE /\ reg' = [reg EXCEPT !.st = StateVal(i)]
                  /\ Goto("R", "fp_cas2")
    /\ UNCHANGED <<cells, ub, ctx, res, polls, checks, j>>

\* ... compare_exchange(current, DISCONNECTED, Release, Relaxed): Ok -> break, Err -> retry }
FpCas2 ==
    /\ pc["R"] = "fp_cas2"
    /\ \/ /\ LastState = reg.st
          /\ mem' = M!Rmw(Touch("R"), "R", "state", DISC, Ord["fp_cas2_ok"])
          /\ CASE reg.st = BOUND -> Goto("R", "fp_ret_none")
               [] reg.st = SET   -> Goto("R", "fp_set_fence")
               [] reg.st = DISC  -> Goto("R", "fp_disc_fence")
               [] OTHER            -> Goto("R", "UNREACHABLE")
       \/ \E i \in Elig("R") :
             /\ StateVal(i) # reg.st
             /\ mem' = M!Load(Touch("R"), "R", "state", i, Ord["fp_cas2_fail"])
             /\ Goto("R", "fp_load")
    /\ UNCHANGED <<reg, cells, ub, ctx, res, polls, checks, j>>

\* Ok(None): the sender will clean up; Drop returns without releasing  (into_value cannot get here: it only
\* calls final_poll after observing SET / DISCONNECTED)
FpRetNone ==
    /\ pc["R"] = "fp_ret_none"
    /\ IF ctx = "drop"
       THEN /\ j' = J!RResp(j, "drop", "done") /\ ctx' = "none" /\ Goto("R", "done")
       ELSE /\ Goto("R", "UNREACHABLE") /\ UNCHANGED <<j, ctx>>
    /\ UNCHANGED <<mem, reg, cells, ub, res, polls, checks>>

FpSetFence ==
    /\ pc["R"] = "fp_set_fence"
    /\ mem' = DoFence(mem, "R", "fp_set_fence")
    /\ Goto("R", "poll_set")
    /\ UNCHANGED <<reg, cells, ub, ctx, res, polls, checks, j>>

\* Drop: the value obtained by final_poll is destroyed by the receiver
FpDropValue ==
    /\ pc["R"] = "fp_drop_value"
    /\ j' = J!PayloadDrop(j)
    /\ Goto("R", "r_release")
    /\ UNCHANGED <<mem, reg, cells, ub, ctx, res, polls, checks>>

FpDiscFence ==
    /\ pc["R"] = "fp_disc_fence"
    /\ mem' = DoFence(mem, "R", "fp_disc_fence")
    /\ Goto("R", "ret_disc")
    /\ UNCHANGED <<reg, cells, ub, ctx, res, polls, checks, j>>

SNext == SStart \/ SetWrite \/ SetFetchAdd \/ SetAwFence \/ SetTakeWaker \/ SetStore \/ Wake \/ SetDestroyValue
         \/ SetDiscFence \/ SRelease \/ SendRet \/ DropSwap \/ DropStoreBound \/ DropAwFence \/ DropTakeWaker
         \/ DropStoreAw \/ DropDiscFence \/ SDropRet
RNext == RChoose \/ PollLoad \/ PbWrite \/ PbCas \/ PbDestroy \/ PollSet \/ PaCas \/ PaOkFence \/ PaDestroy
         \/ PaSetFence \/ PaDiscFence \/ PgLoad \/ PgFence \/ RetPending \/ RetDisc \/ RRelease \/ IsLoad \/ IvLoad
         \/ FpCas1 \/ FpDestroy \/ FpLoad \/ FpCas2 \/ FpRetNone \/ FpSetFence \/ FpDropValue \/ FpDiscFence

Next == SNext \/ RNext

Spec == Init /\ [][Next]_vars
\* the sender never waits for the receiver; the receiver's spin loops exit if the sender keeps running
FairSpec == Spec /\ WF_vars(SNext) /\ WF_vars(RNext)

-----------------------------------------------------------------------------
TypeOK ==
    /\ pc \in [Thread -> STRING]
    /\ ctx \in {"none", "poll", "is_ready", "into_value", "drop"}
    /\ res \in {"none", "value", "disc"}

NoRace == ~mem.race                                   \* C06: every access happens-before the release; no data race
NoUB == ~ub
NoUnreachable == \A t \in Thread : pc[t] # "UNREACHABLE"
JudgeOk == J!JOk(j)                                   \* C05 (API level), release exactly once
\* the receiver is inside an operation only finitely long once the sender has finished (spin loops exit)
SpinExits == [](pc["S"] = "done" => <>(pc["R"] \in {"idle", "done"}))
=============================================================================
