CONSTANTS MaxPolls = 2  MaxChecks = 1  MaxCbOps = 2
SPECIFICATION Spec
INVARIANT TypeOK NoUseAfterRelease NoUB NoUnreachable JudgeOk QuiescentClean
