CONSTANTS MaxPolls = 2  MaxChecks = 1  SC = TRUE  Ord <- OrdFixed
SPECIFICATION GSpec
VIEW GView
ACTION_CONSTRAINT EmitEdge
INVARIANT NoRace NoUnreachable JudgeOk NoUB
CHECK_DEADLOCK FALSE
