---- MODULE MC_OnceEventSyncGen ----
(* Generator: edge cover of the explorer under SC.  `hist` records who moved from which program counter (and which
   program choice was made); it is hidden from the fingerprint by VIEW, so the state space is the explorer's.  Every
   explored edge prints the history that leads through it: one stimulus (programs + schedule prefix) per edge.      *)
EXTENDS MC_OnceEventSync, Json
VARIABLE hist
GInit == Init /\ hist = <<>>
GNext ==
    \/ /\ SNext
       /\ hist' = Append(hist, [t |-> 0, pc |-> pc["S"], x |-> IF pc["S"] = "idle" THEN j'.snd ELSE ""])
    \/ /\ RNext
       /\ hist' = Append(hist, [t |-> 1, pc |-> pc["R"], x |-> IF pc["R"] = "idle" THEN ctx' ELSE ""])
GSpec == GInit /\ [][GNext]_<<vars, hist>>
GView == vars
EmitEdge == PrintT(<<"BEH", ToJson(hist')>>)
====
