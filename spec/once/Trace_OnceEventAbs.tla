------------------------------ MODULE Trace_OnceEventAbs ------------------------------
(* Judges API-level traces of one-shot events recorded from the real code (harness h_once) with OnceEventAbs.
   One file holds many runs: {"ev":"reset"} starts a run, {"ev":"end", outcome, pool_len} closes it.
   Events: inv/resp (side S|R), wclone/wdrop/wwake/wwake_ref, pdrop, release.
   A rejected run is reported (REJECT + the record at which the judge said no) and skipped to the next reset, so
   every run in the file is judged.                                                                           *)
EXTENDS TraceLib, Integers
J == INSTANCE OnceEventAbs

VARIABLES l, j, skipping, pooled

Step(r, jj) ==
    CASE r.ev = "inv" /\ r.side = "S" /\ r.op = "send" -> J!SendInv(jj)
      [] r.ev = "inv" /\ r.side = "S" /\ r.op = "drop" -> J!SDropInv(jj)
      [] r.ev = "resp" /\ r.side = "S" /\ r.op = "send" -> J!SendDone(jj)
      [] r.ev = "resp" /\ r.side = "S" /\ r.op = "drop" -> J!SDropDone(jj)
      [] r.ev = "inv" /\ r.side = "R" -> J!RInv(jj, r.op, r.w)
      [] r.ev = "resp" /\ r.side = "R" -> J!RResp(jj, r.op, r.res)
      [] r.ev = "wclone" -> J!WClone(jj, r.w)
      [] r.ev = "wdrop" -> J!WDrop(jj, r.w)
      [] r.ev = "wwake" -> J!WWake(jj, r.w)
      [] r.ev = "wwake_ref" -> J!WWakeRef(jj, r.w)
      [] r.ev = "pdrop" -> J!PayloadDrop(jj)
      [] r.ev = "release" -> J!Release(jj)
      [] r.ev = "cell" -> J!Access(jj)
      [] OTHER -> jj

\* the run must have terminated (spin loops exit, nothing hangs), nothing panicked, accounts balance, pool is empty
EndOk(r, jj) ==
    /\ r.outcome = "completed"
    /\ \A i \in DOMAIN r.panics : r.panics[i] = ""
    /\ J!BothGone(jj)
    /\ J!JOk(jj)
    /\ (r.pool_len # -1 => r.pool_len = 0)

TraceInit == l = 1 /\ j = J!JInit(TRUE) /\ skipping = FALSE /\ pooled = FALSE

Reject(why) == PrintT(<<"REJECT", ToJson([line |-> l, why |-> why, rec |-> Rec[l]])>>)

TraceNext ==
    /\ l <= NRec
    /\ l' = l + 1
    /\ UNCHANGED pooled
    /\ LET r == Rec[l] IN
       IF r.ev = "reset" THEN j' = J!JInit(TRUE) /\ skipping' = FALSE
       ELSE IF skipping THEN UNCHANGED <<j, skipping>>
       ELSE IF r.ev = "end"
            THEN /\ j' = j
                 /\ IF EndOk(r, j) THEN skipping' = FALSE
                    ELSE /\ Reject(IF r.outcome # "completed" THEN "did not terminate: " \o r.outcome
                                   ELSE IF j.bad # "" THEN j.bad ELSE "accounting at quiescence")
                         /\ skipping' = TRUE
            ELSE LET nj == Step(r, j) IN
                 /\ j' = nj
                 /\ IF J!JOk(nj) THEN skipping' = FALSE
                    ELSE /\ Reject(IF nj.bad # "" THEN nj.bad ELSE "state predicate (quiescence / release / wake obligation)")
                         /\ skipping' = TRUE

TraceSpec == TraceInit /\ [][TraceNext]_<<l, j, skipping, pooled>>
=============================================================================
